"""Maintenance helper (never used at check run time): add an entry to
known_findings.json.  usage: python3 tools_kf.py '<json entry>'"""
import json, sys
p = '/verif/known_findings.json'
d = json.load(open(p))
e = json.loads(sys.argv[1])
same = [x for x in d['findings'] if x['property'] == e['property']
        and x['mechanism'] == e['mechanism']]
if same and same[0].get('commit') != e.get('commit') \
        and '--replace' not in sys.argv:
    sys.exit('an entry %s %s exists already (commit %s): choose another '
             'mechanism id or pass --replace' % (
                 e['property'], e['mechanism'], same[0].get('commit')))
d['findings'] = [x for x in d['findings'] if x not in same]
if e['status'] == 'fixed':
    e.setdefault('line', 'fixed: property=%s %s %s' % (e['property'], e['commit'], e['what']))
else:
    e.setdefault('line', 'KNOWN-FINDING: property=%s %s -- %s' % (e['property'], e['mechanism'], e['what']))
d['findings'].append(e)
d['findings'].sort(key=lambda x: (x['property'], x['status'], x['mechanism']))
json.dump(d, open(p, 'w'), indent=1)
print('entries:', len(d['findings']))
