#!/bin/sh
# usage: sh tools_seeded_import.sh <property> [round] [checks]
# imports /tmp/seed<round>-<property>/seeded/{1,2} into /verif/seeded/ (round
# 2 becomes <property>-3 and -4), confirms them in the scratch worktree and
# runs the owning check against each
p=$1; round=${2:-1}; checks=${3:-$1}
if [ "$round" = "1" ]; then wt=/tmp/seed-$p; off=0; else wt=/tmp/seed$round-$p; off=$(( (round-1)*2 )); fi
for k in 1 2; do
  id=$p-$((k+off))
  mkdir -p /verif/seeded/$id
  cp $wt/seeded/$k/* /verif/seeded/$id/
  sh /verif/tools_seeded_verify.sh $id $wt
done
for k in 1 2; do id=$p-$((k+off)); echo "== $id"; sh /verif/tools_seeded.sh $id "$checks"; done
