#!/bin/sh
# usage: sh tools_seeded_import.sh <property> [checks]
# imports /tmp/seed-<property>/seeded/{1,2} into /verif/seeded/, confirms
# them in the scratch worktree and runs the owning check against each
p=$1; checks=${2:-$1}
for k in 1 2; do
  mkdir -p /verif/seeded/$p-$k
  cp /tmp/seed-$p/seeded/$k/* /verif/seeded/$p-$k/
  sh /verif/tools_seeded_verify.sh $p-$k /tmp/seed-$p
done
for k in 1 2; do echo "== $p-$k"; sh /verif/tools_seeded.sh $p-$k "$checks"; done
