#!/bin/sh
# usage: sh tools_sweep.sh <tier> "<seeds>" [checks...]
# Runs checks over several VERIF_SEED values without touching evidence/.
tier=${1:-quick}; seeds=${2:-"1 2 3"}; shift 2 2>/dev/null
checks=${*:-$(python3 -c "import json;print(' '.join(c['property_id'] for c in json.load(open('MANIFEST.json'))['checks']))")}
for c in $checks; do
  for s in $seeds; do
    out=$(VERIF_SEED=$s /venv/bin/python -m vf $c --tier $tier --no-evidence 2>&1 | grep -v conda)
    rc=$?
    echo "$out" | grep -E "^$c tier" | cut -c1-160
    echo "$out" | grep -E "VIOLATION|mechanism=|INCONCLUSIVE|Traceback|Error" | cut -c1-300
  done
done
echo SWEEP-DONE
