#!/bin/sh
# usage: sh tools_seeded_verify.sh <seeded-id> <scratch-worktree>
# Confirms in a scratch worktree: demo fails with the patch, passes without,
# and the repository's suite still passes with the patch.
id=$1; wt=$2
cd "$wt" || exit 9
git checkout -q -- pymap test 2>/dev/null
git apply /verif/seeded/$id/patch.diff || { echo "APPLY-FAILED"; exit 9; }
PYTHONPATH=$wt timeout 300 /venv/bin/python /verif/seeded/$id/demo.py >/dev/null 2>&1; with=$?
PYTHONPATH=$wt /venv/bin/python -m pytest -q -p no:cacheprovider --timeout=900 --continue-on-collection-errors 2>&1 | tail -1 > /tmp/suite.$$
git checkout -q -- pymap test
PYTHONPATH=$wt timeout 300 /venv/bin/python /verif/seeded/$id/demo.py >/dev/null 2>&1; without=$?
echo "$id demo_with_patch_exit=$with demo_without_patch_exit=$without suite_with_patch: $(cat /tmp/suite.$$)"
rm -f /tmp/suite.$$
