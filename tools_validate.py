"""Validate MANIFEST.json and evidence/*.json against the given schemas
(run with python3-vt, which has jsonschema)."""
import glob
import json
import sys

import jsonschema

ok = True
man = json.load(open('/verif/MANIFEST.json'))
try:
    jsonschema.validate(man, json.load(open('/root/.vp/MANIFEST.schema.json')))
    print('MANIFEST ok: %d checks, %d not_applicable' % (
        len(man['checks']), len(man.get('not_applicable', []))))
except jsonschema.ValidationError as e:
    ok = False
    print('MANIFEST INVALID:', e.message)
schema = json.load(open('/root/.vp/EVIDENCE.schema.json'))
for p in sorted(glob.glob('/verif/evidence/*.json')):
    try:
        ev = json.load(open(p))
        jsonschema.validate(ev, schema)
        print('ok', p, ev['tier'], ev['coverage'].get('evaluations'),
              ev['coverage'].get('distinct_nontrivial'))
    except Exception as e:
        ok = False
        print('INVALID', p, getattr(e, 'message', e))
cat = {c['property_id']: c['level_claimed']['category'] for c in man['checks']}
for pid, c in sorted(cat.items()):
    try:
        ev = json.load(open('/verif/evidence/%s.json' % pid))
    except OSError:
        ok = False
        print('no evidence file for', pid)
        continue
    if ev.get('level') != c or ev.get('property_id', pid) != pid:
        ok = False
        print('LEVEL MISMATCH', pid, 'manifest', c, 'evidence', ev.get('level'))
props = [json.loads(l)['id'] for l in open('/verif/properties.jsonl')]
claimed = {c['property_id'] for c in man['checks']}
na = {c['property_id'] for c in man.get('not_applicable', [])}
for p in props:
    if p not in claimed and p not in na:
        ok = False
        print('property neither claimed nor not_applicable:', p)
sys.exit(0 if ok else 1)
