"""Regenerate MANIFEST.json from the table below (keeps it valid at all
times).  Run: python3 tools_manifest.py"""
import json
import os

PY = '/venv/bin/python'

CHECKS = {
    'C01': dict(
        category='exploration', design='4/C01',
        technique='runtime monitor: shadow IMAP client on the byte stream + '
                  'glass-box server-view comparison at every tagged line, '
                  'under controlled external-event schedules',
        text='Runs random multi-session programs (2-4 sessions, dict and '
             'maildir) against the real IMAPServer on a controlled asyncio '
             'loop with randomised external-event timing; a shadow client '
             'applies every untagged response in order and is compared with '
             "the server's own sequence->UID view at each tagged line; every "
             'FETCH label is checked against the UID->content ownership map. '
             'Held = no divergence on the executions explored (counts in '
             'evidence).',
        note='FIFO ready queue + random external timing only (sound for '
             'asyncio); glass-box part reads '
             'ConnectionState._selected.messages._sorted; redis backend and '
             'threaded maildir mode not covered here'),
    'C02': dict(
        category='exploration', design='4/C02',
        technique='runtime monitor: per-session shadow view vs. probe dump at '
                  'every quiescent point of random multi-session histories',
        text='Random histories of mutating commands by 2-4 sessions (biased '
             'to messages another session just expunged) under randomised '
             'external-event schedules; at every quiescent point each session '
             'issues NOOP and its shadow view (UID set and flags, kept as a '
             'real client keeps them incl. optimistic .SILENT stores) must '
             'equal the mailbox as seen by a fresh read-only probe session '
             '(cross-checked with the dict table).'
             ' Some observers are read-only (their refused STORE/EXPUNGE m'
             'ust not cost them a later report); sequence sets are also wr'
             'itten as unordered comma lists.',
        note='same schedule space as C01; a client is assumed to fetch only '
             'what it was never told; threaded maildir mode not covered'),
    'C16': dict(
        category='exploration', design='4/C16',
        technique='runtime monitor: idler shadow view vs. mailbox at loop '
                  'quiescence (bounded-progress restatement of eventual '
                  'delivery), schedules vary when changes land relative to '
                  'the idler arming/writing/parked',
        text='1-2 idling sessions and 1-2 writers with bursts of changes; '
             'after the burst no input is given to anyone and the controlled '
             'loop runs until nothing is runnable (maildir: 3.5 virtual '
             'seconds of polling); then every idler view must equal the '
             'mailbox; DONE must give OK with no late data, garbage must '
             'give BAD. Evidence counts how many changes landed before-arm / '
             'during-write / parked.'
             ' Every fourth case ends IDLE early (DONE at an arbitrary mom'
             'ent, also in the middle of a notification, next command at o'
             'nce) and ends in a judged IDLE entered right after a non-UID'
             ' FETCH.',
        note='unbounded "eventually" is out of reach for monitoring and is '
             'restated as quiescence of the controlled loop'),
    'C06': dict(
        category='exploration', design='4/C06',
        technique='runtime monitor: "answered" oracle at the client boundary '
                  'at loop quiescence + sys.monitoring step budget (hang '
                  'detector) + canary connection, over generated hostile '
                  'inputs',
        text='Hostile command lines (grammar-derived with hostile leaves, '
             'byte-mutated, raw) in the not-authenticated/authenticated/'
             'selected states on IMAP and ManageSieve, hostile stored '
             'messages fetched with every FETCH attribute and searched with '
             'every SEARCH key, and concurrent C01-style workloads; each '
             'complete line must get a tagged completion / * BAD / '
             'continuation / BYE once the controlled loop is quiescent, '
             'within 5M monitored steps; never BYE [SERVERBUG], never a close '
             'without BYE, never a dead connection task; a canary connection '
             'must still be served.'
             ' Lines include the valid commands as they are, self-referent'
             'ial ones, numbers of 4301-5000 digits, SEARCH nesting around'
             ' the recursion limit, ManageSieve synchronising literals, LI'
             'ST patterns of 6-30 wildcards against an almost matching lon'
             'g name, and an enumerated grid of pumped header values (a CP'
             'U-time watchdog turns loops inside C code into hang:cpu-time'
             ').',
        note='lines < 64 KiB; in-memory transport (no TLS handshake); '
             'internal errors are classified by exception class + innermost '
             'pymap function'),
    'C08': dict(
        category='exploration', design='4/C08',
        technique='runtime monitor: sys.addaudithook filesystem monitor with '
                  'veto (sanitizer-style) + before/after snapshots of the '
                  "other user's tree, credential files and a canary; other "
                  "user's observable view on every backend",
        text='User A issues commands with hostile mailbox names, references '
             'and patterns (., .., empty, doubled/leading/trailing '
             'delimiters, NUL, long, non-ASCII, ../bob ...) on maildir ++, '
             'maildir fs and dict while the audit-hook monitor records every '
             'filesystem call made by the server: each resolved path must '
             "stay inside A's mailbox directory (never rename/remove the "
             'directory itself); credential files may only be read at LOGIN; '
             "user B's tree, the credential files, a canary file and B's view "
             'through his own session must be unchanged afterwards.'
             ' The vocabulary includes INBOX variants and NFKC look-alikes'
             " of '.', '..', '/' and INBOX.",
        note='CPython audit events + wrapped os.stat/lstat/access; stores in '
             'a sacrificial tree with mutations outside it vetoed; reads '
             'under interpreter/library prefixes are not judged; symlink '
             'attacks by a local user and redis are out of scope'),
    'C07': dict(
        category='exploration', design='4/C07',
        technique='runtime monitor: independent strict RFC 3501 response '
                  'parser (vf/grammar.py) applied online to every byte the '
                  'server writes while echo channels are driven with hostile '
                  'client data',
        text='Hostile mailbox names (any Unicode, quotes, backslashes, '
             'control characters incl. CR/LF/NUL), keywords, APPEND dates, '
             'header values (bare CR, 8-bit, long, encoded words), MIME '
             'parameter values and nesting shapes, tags, SASL and ID strings '
             'are sent on dict and maildir(++/fs); every response line is '
             'framed and parsed by a parser that shares no code with pymap: '
             'CRLF termination, literal counts, quoted-string alphabet, '
             'balanced lists, typed shapes of LIST/STATUS/FETCH/ENVELOPE/'
             'BODYSTRUCTURE/response codes.',
        note='grammar = RFC 3501 section 9 + advertised extensions as '
             'written in vf/grammar.py; the same parser also reads all server '
             'output in every other check'),
    'C03': dict(
        category='exploration', design='4/C03',
        technique='runtime monitor: byte-equality oracle (pure function of '
                  'the appended input) over generated message shapes and '
                  'partial ranges',
        text='Generated byte strings (CRLF/LF/CR/mixed line endings, with or '
             'without header/body separator and final newline, whitespace-'
             'only last line, NUL, 8-bit, nested MIME, up to 64 KiB) are '
             'appended via {n}, {n+} and ~{n+} on dict and maildir; BODY[], '
             'RFC822, RFC822.SIZE, HEADER+TEXT, 4 partial ranges around the '
             'ends, the COPY and MOVE copies and the BODYSTRUCTURE octet '
             'count of every leaf part are compared with the input.'
             ' RFC822.SIZE is also fetched alone and with metadata only; p'
             'art numbers are followed below message/rfc822; checksum-coll'
             'iding twin messages and re-created mailboxes are included.',
        note='messages <= 64 KiB; redis not runnable; line counts not '
             'checked; the BODYSTRUCTURE octet counts are a known finding '
             'pinned by the repository tests'),
    'C13': dict(
        category='exploration', design='4/C13',
        technique='runtime monitor: independent RFC 3501 SEARCH evaluator '
                  "over the session's own dumped view + metamorphic "
                  'relations on the server alone',
        text='Mailboxes of 4-12 generated messages (flags, sizes, internal '
             'and sent dates around day boundaries in several zones, unique '
             'header/body tokens); search programs of depth <= 4 over all 39 '
             'keys; SEARCH result mapped through the view must equal the '
             'evaluator and UID SEARCH; NOT NOT, De Morgan, commutativity, '
             'parentheses and ALL relations; views with hidden expunged '
             'messages and renumbered views; mismatches are shrunk to the '
             'smallest wrong key.'
             ' 12% of the programs carry a twin key (same argument text un'
             'der another key: sequence set / UID set, BEFORE / SENTBEFORE'
             ', LARGER / SMALLER, FROM / TO ...).',
        note='ground truth is the server\'s own FETCH dump of the same view; '
             'RFC latitude (hidden expunged messages, keywords, empty '
             'strings) is an allowed set and counted'),
    'C19': dict(
        category='exploration', design='4/C19',
        technique='runtime monitor: name->bytes reference model per user + '
                  'independent RFC 5804 response reader + glass-box store '
                  'snapshots for the pre-authentication gate',
        text='Programs of 3-20 ManageSieve commands over 2 connections and '
             '2-3 users with hostile names and valid/invalid/unclear scripts; '
             'before authentication every script command must be refused and '
             'every store unchanged; afterwards every condition and every '
             'GETSCRIPT/LISTSCRIPTS payload must equal the model; a final '
             'audit on fresh connections proves users never see each '
             "other's scripts.",
        note='dict backend filter store; latitudes of RFC 5804 are allowed '
             'sets and counted'),
    'C17': dict(
        category='exploration', design='4/C17',
        technique='runtime monitor: history checker over what each '
                  'selection was told (\\Recent per message per read-write '
                  'selection), RECENT-count agreement, under controlled '
                  'schedules and shuffled directory order',
        text='Deliveries while nobody has the mailbox selected, optional '
             'EXAMINE, first read-write SELECT (must see all of them '
             '\\Recent), then 2-3 sessions concurrently selecting, examining, '
             'closing and reselecting while APPEND (also with a literal '
             '\\Recent flag) and COPY arrive; per message the set of '
             'read-write selections told \\Recent must have <= 1 element; '
             'SELECT/untagged RECENT must equal the flags seen; STORE of '
             '\\Recent must change nothing; dict and maildir.'
             ' A de-selection phase ends every selection in one of seven w'
             'ays before deliveries (also by a session that has the mailbo'
             'x selected read-only) and the next read-write SELECT; STATUS'
             ' (RECENT) of an unselected observer is compared around a fla'
             'g-changing command; a third of the maildir cases use --colon'
             " '!'.",
        note='the read-write selection is the unit that may be told once; '
             'os.listdir order is shuffled on maildir (POSIX leaves it '
             'unspecified)'),
    'C20': dict(
        category='exploration', design='4/C20',
        technique='runtime monitor: enter/exit log inside critical sections '
                  'with online exclusion oracle; exhaustive sweep of director '
                  'schedules for small programs on the controlled loop, '
                  'cancellation at every point, real threads and forked '
                  'processes for the threading and file locks',
        text='Programs of 2-4 tasks with R/W acquisitions and yields inside '
             'the critical section; all director schedules of small programs '
             'are swept (stateless re-execution), random beyond; one '
             'task.cancel() at every reachable point followed by a W||R||W '
             'follow-up; after every program a fresh writer must acquire '
             'without suspending; the threading lock runs on real threads '
             'with a 10us switch interval, FileLock in virtual time and '
             'across 2-4 forked processes with an O_EXCL marker file as the '
             'clock-free exclusion witness.',
        note='FIFO ready queue, director-owned futures are the only '
             'scheduling freedom; FileLock expiry stealing (600 s) is out of '
             'scope; thread/process tiers are stress-sampled'),
    'C12': dict(
        category='exploration', design='4/C12',
        technique='runtime monitor: before/after ground-truth dump read '
                  'without a consuming SELECT (backend table / maildir '
                  'directory) + tagged conditions + what observers are told',
        text='Programs of message commands (STORE variants, EXPUNGE, UID '
             'EXPUNGE, body FETCHes with implicit \\Seen, MOVE/COPY out, '
             'SEARCH, CLOSE + re-select, CHECK, IDLE, APPEND/COPY/MOVE into '
             'the read-only mailbox) inside EXAMINE (dict, maildir) or inside '
             'the backend-declared read-only mailbox (dict demo data) with '
             '0-2 observers; flags, message set and the unclaimed-\\Recent '
             'bits must be unchanged, STORE/EXPUNGE/MOVE must not answer OK, '
             'CLOSE must answer OK and remove nothing, observers must receive '
             'no untagged data.',
        note='maildir has no backend-declared read-only mailbox; garbage '
             'collection of UID-list records of already expunged messages by '
             'CHECK is not counted as a change'),
    'C04': dict(
        category='exploration', design='4/C04',
        technique='runtime monitor: offline history checker over every '
                  'UID-bearing response with call/return steps, keyed by '
                  '(mailbox lineage, UIDVALIDITY); plus fault enumeration '
                  '(kill before every filesystem operation, restart) on '
                  'maildir',
        text='1-3 sessions on 3 mailboxes issue APPEND/MULTIAPPEND/COPY/MOVE/'
             'expunge-highest-then-append/STATUS/SELECT/RENAME under '
             'randomised schedules on dict and maildir(++/fs); checked: no '
             '(validity, uid) denotes two messages or is assigned twice, '
             'assignments respect real-time order, UIDNEXT is above '
             'everything assigned before and not above anything assigned '
             'later, APPENDUID/COPYUID UIDs are found by UID FETCH with the '
             'expected content in source->destination order; maildir '
             'histories are additionally swept over every crash point and a '
             'post-restart APPEND must exceed every acknowledged UID.'
             ' Histories are kept per (name, UIDVALIDITY) as a client cach'
             'es them; mailboxes are replaced (RENAME away / DELETE, then '
             'CREATE) while other sessions know or have selected them; fil'
             'es are dropped into maildir new/.',
        note='UIDVALIDITY random collisions not searched; real-time order '
             'from loop steps at the client boundary'),
    'C15': dict(
        category='fault_enumeration', design='4/C15',
        technique='fault enumeration with a runtime oracle: fork per crash '
                  'point, os._exit from the audit hook right before every '
                  'mutating filesystem operation (and right after every '
                  'open-for-writing, before its data is flushed), restart a '
                  'new backend, judge its IMAP dump against the acknowledged-'
                  'effects log',
        text='Generated histories of APPEND/MULTIAPPEND/STORE/COPY/MOVE/'
             'EXPUNGE/CREATE/RENAME/SUBSCRIBE/CHECK on a maildir store '
             '(layouts ++ and fs; store on the temp filesystem or on '
             '/dev/shm); EVERY prefix of the filesystem-operation trace is a '
             'crash point (exhaustive per history) plus the clean stop; '
             'after restart every acknowledged message must be served with '
             'identical bytes, acknowledged flags (or the in-flight '
             "command's) and the same UID unless UIDVALIDITY changed, no UID "
             'may name another message, nothing unexplained may appear, '
             'every mailbox must open, acknowledged creations/subscriptions '
             'persist and the next APPEND gets a higher UID.'
             ' Every other CHECK of the histories runs under EXAMINE (mess'
             'ages still unclaimed in new/).',
        note='crash = process death between filesystem operations as seen by '
             'CPython audit events; not power loss / torn writes; stale lock '
             'files are aged before the restart'),
    'C18': dict(
        category='exploration', design='4/C18',
        technique='runtime monitor: metamorphic comparison of sibling wire '
                  'spellings on identically prepared fresh accounts + '
                  'independent modified-UTF-7 round trip of reported names + '
                  'parse/serialise round trips on the real parser classes',
        text='18 command families are sent with every string argument as '
             'atom/quoted/{n}/{n+}, mixed, keyword case variants (extra '
             'spaces and bare LF only as "if accepted then identical"); '
             'responses, follow-up commands and a full state dump from a '
             'fresh connection must be identical; generated Unicode names '
             'must come back from LIST/LSUB/STATUS in a spelling that an '
             'independent strict decoder maps to the same code points; '
             'QuotedString/LiteralString/AString/String.build/SequenceSet/'
             'Flag/DateTime/Mailbox values round-trip with exact tails and a '
             'correct cached raw form.',
        note='object ids, UIDVALIDITY, \\Recent and LIST order are '
             'normalised away'),
    'C14': dict(
        category='fault_enumeration', design='4/C14',
        technique='fault enumeration with runtime oracles: per-step census '
                  'of content ids between event-loop callbacks + post-fault '
                  'dump; faults = task cancellation and EOF at every '
                  'scheduler step, exception from every storage call, ENOSPC '
                  'before every file-creating operation and process kill '
                  'before every filesystem operation (maildir)',
        text='dict: two-session scenarios around a victim MOVE/COPY/'
             'MULTIAPPEND/EXPUNGE; the fault-free run yields S steps and C '
             'storage calls and ALL 2(S+1)+C fault points are executed; a '
             'message being moved must be in source or destination at every '
             'step and in exactly one after OK, a MULTIAPPEND that does not '
             'end in OK must leave none of its messages, NO/BAD must leave '
             'contents unchanged. maildir: histories with MOVE/MULTIAPPEND/'
             'COPY swept over every filesystem operation as failure point and '
             'as kill point, judged after restart.'
             ' Storage calls fail with OSError (answered BYE) and with Tim'
             'eoutError (answered NO); a maildir slice lets a foreign hold'
             'er take the uidlist lock right after the k-th message file w'
             'as written and cancels the waiting command or lets it time o'
             'ut.',
        note='storage-call faults happen instead of the call; filesystem '
             'faults are limited to operations that can fail with ENOSPC; '
             'atomicity of MULTIAPPEND across process death is a known '
             'finding'),
    'C05': dict(
        category='exploration', design='4/C05',
        technique='runtime monitor: 4-state reference automaton judged step '
                  'by step; the state after every prefix is revealed '
                  'black-box by probe commands on cloned runs and cross-'
                  'checked glass-box; exhaustive over all sequences of '
                  'length <= 2 (quick) / <= 3 (thorough), random beyond',
        text='Alphabet of 66 symbols (every built-in command with valid, '
             'invalid-argument, missing-mailbox and bad-credential variants, '
             'SELECT vs EXAMINE of two marked mailboxes, AUTHENTICATE '
             'exchanges, IDLE+DONE, STARTTLS). Every prefix is re-executed '
             'from a fresh environment with a probe suffix (STATUS / FETCH of '
             'the marker header / STORE .SILENT) that reveals authenticated?, '
             'which mailbox is selected, read-only?; each step must be in the '
             "automaton's allowed set, refused commands must leave state and "
             'a full data dump unchanged, LOGOUT must give BYE, OK, close.'
             ' IDLE + DONE + next command are also sent in one segment aft'
             'er every way of having a mailbox selected, and another conne'
             'ction deletes or renames away the selected mailbox before ea'
             'ch of 13 commands.',
        note='bad_command_limit is switched off so five refusals do not end a '
             'trace; pysasl entry-point scan memoised in the worker; TLS '
             'handshake is a no-op on the in-memory transport'),
    'C09': dict(
        category='exploration', design='4/C09',
        technique='runtime monitor: reference authenticator + identity-'
                  'revealing probes (secret marker mailbox / script per '
                  'user) after every attempt + recording wrappers on '
                  'login.authenticate/authorize',
        text='1-7 attempts per connection over LOGIN (all spellings), '
             'AUTHENTICATE PLAIN/LOGIN (about 45 credential and wire '
             'flavours: wrong/empty password, unknown/disabled user, authzid '
             'variants, bad base64, cancel, oversized, 8-bit, NUL), unknown '
             'mechanisms, STARTTLS; configurations tls on/off x local/remote '
             'peer x dict/maildir x IMAP/ManageSieve; after each attempt LIST '
             '(or LISTSCRIPTS) shows whether the connection is authenticated '
             'and as whom; only verified credentials of an existing user may '
             'authenticate, authzid only for admins, never while '
             'LOGINDISABLED, never a change of identity afterwards.',
        note='refusing valid credentials is counted, not a violation; lenient '
             'base64 readings that verify are latitude'),
    'C10': dict(
        category='exploration', design='4/C10',
        technique='runtime monitor: reference mailbox model (a relation where '
                  'the RFC leaves latitude) stepped next to the real server, '
                  'full dump compared after every step',
        text='Single-session programs of 5-25 commands over APPEND (flags, '
             'date-time, {n}/{n+}), STORE [+-]FLAGS[.SILENT], EXPUNGE, UID '
             'EXPUNGE, COPY, MOVE, 27 FETCH items (seen-setting and peeking), '
             'CLOSE, SELECT/EXAMINE and commands that must be refused, with '
             "all sequence-set shapes (*, reversed, out of range, duplicates, "
             'UID sets naming expunged UIDs) and keywords; dict, maildir and '
             'maildir with a keywords file; a quarter of the cases run the '
             'server in a non-UTC zone; after every step condition, untagged '
             'responses and a dump (order, content id, UID stability, size, '
             'date, flags) must match the model.'
             ' Right before one FETCH in five another connection edits fla'
             'gs in the selected mailbox (the model takes the result from '
             'the probe).',
        note='\\Recent and absolute UID values excluded (C17, C04 own them); '
             'latitudes are documented and counted'),
    'C11': dict(
        category='exploration', design='4/C11',
        technique='runtime monitor: reference name set + independent glob '
                  'matcher (dynamic program, no re) + content dumps, compared '
                  'after every step',
        text='Programs of 4-20 CREATE/DELETE/RENAME/SUBSCRIBE/UNSUBSCRIBE/'
             'STATUS/SELECT/APPEND steps over hierarchical, INBOX-variant, '
             'wildcard, quote, newline, non-ASCII names on dict, maildir ++ '
             'and maildir fs; after every step the tagged condition, LIST "" '
             '*, LSUB "" *, three hostile reference/pattern probes, '
             '\\Noselect/\\HasChildren truthfulness and content dumps '
             '(messages, UIDs, UIDVALIDITY across RENAME) are compared with '
             'the model; NO must change nothing.'
             ' Deleted subscribed names are created again; a third of the '
             'programs send 30% of their mutating commands through a secon'
             'd connection of the same user.',
        note="'.' inside a name part on maildir ++ aliases with the on-disk "
             'delimiter and is kept out of generated names; ten RFC '
             'latitudes are allowed sets and counted'),
}

ROUND3 = {
    'C03': ' Copies and the re-created mailbox are read again through a '
           'second, still connected session.',
    'C04': ' Histories contain CHECK; every UID a FETCH lists must have '
           'been announced to that session (EXISTS/APPENDUID/COPYUID) or '
           'provisioned.',
    'C05': ' Slices: another connection deletes/renames the selected '
           'mailbox before each command; maildir SELECT/EXAMINE/LOGOUT '
           'while a foreign holder has the uidlist lock.',
    'C06': ' Slices: 19 commands under a held maildir lock file (virtual '
           'time runs past the retry window); really nested MIME (depth '
           '8-1200); mailbox names of 300-1000 levels; the step budget is '
           'credited per output byte.',
    'C07': ' Hostile SASL replies are delivered inside the exchange; zone '
           'spellings strptime takes; header field names by literal.',
    'C12': ' COPY from the selected read-only mailbox into itself.',
    'C13': ' In a third of the cases the last 2-5 messages arrive from '
           'another connection after SELECT.',
    'C14': ' MOVE into the selected mailbox itself (all backends).',
    'C15': ' After-execution crash points also for rename/replace/link.',
    'C16': " The writers' own views are compared with the truth as well.",
    'C17': ' STATUS (RECENT) pending-count rule around every command.',
    'C19': ' maildir single-script store through two connections; '
           'identical re-uploads; a quarter of the programs use one user '
           'on both connections.',
}

ROUND4 = {
    'C01': ' A slice moves messages out of the watched mailbox and back.',
    'C02': ' Two maildir slices: the backend with its real worker threads '
           '(sampled, not reproducible) and a deterministic external actor '
           'renaming message files in the racing windows.',
    'C03': ' Every part is also fetched as BINARY.PEEK[x] BODY.PEEK[x] in '
           'one command.',
    'C06': ' Every fourth case runs with DEBUG logging; a slice sends '
           'over-limit {n+} literals under a small max_append_len.',
    'C07': ' SEARCH RETURN spellings; quoted names with NUL/8-bit octets.',
    'C08': ' A third user whose directory name extends the attacker\'s.',
    'C09': ' STARTTLS and a login in one plaintext segment; base64 must be '
           'strict.',
    'C10': ' A seventh of the cases has no APPENDLIMIT, bodies up to 9000 '
           'octets; maildir also with --colon.',
    'C11': ' Dots, maildir directory and control-file names, empty levels, '
           'trailing delimiters and line-separator characters are judged; '
           'structured programs.',
    'C12': ' maildir also with --colon.',
    'C13': ' UID SEARCH with sequence numbers while expunges are unreported.',
    'C14': ' The destination is pre-populated.',
    'C15': ' A mailbox half created at the crash is created again.',
    'C16': ' Mover session, floods of single expunges, idled mailbox '
           'deleted or renamed away.',
    'C17': ' Selections also end with the connection lost inside IDLE.',
    'C19': ' The maildir slice also puts other names and deletes the '
           'active script.',
}

ROUND5 = {
    'C05': ' A peer connection holds a mailbox selected read-write while '
           'the connection runs APPEND/COPY/STATUS/NOOP/CHECK/LIST/IDLE: '
           'mailbox and mode of its own selection must not change.',
    'C06': ' A slice runs commands on a maildir folder that another '
           'process is half way through deleting.',
    'C08': ' Names that case-map or normalise to INBOX (U+0131, fullwidth, '
           'combining dot).',
    'C09': ' One run in eight uses the Cleartext password scheme.',
    'C13': ' Words and search strings with characters special to regular '
           'expressions.',
    'C16': ' Arrivals from a connection with nothing selected, then changed '
           'or expunged by an earlier selection as the last event.',
    'C18': ' SEARCH RETURN options in varied case.',
    'C20': ' FileLock with 1-6 retry delays, the holder leaving just before '
           'each re-test (the last included); maildir/io.py with_write over '
           'control files whose read fails.',
}

NOT_YET = 'check not built yet in this round (see DESIGN.md section 4)'


def main() -> None:
    props = [json.loads(line) for line in open(
        os.path.join(os.path.dirname(__file__), 'properties.jsonl'))]
    checks = []
    na = []
    for p in props:
        pid = p['id']
        c = CHECKS.get(pid)
        if c is None:
            na.append({'property_id': pid, 'reason': NOT_YET})
            continue
        checks.append({
            'property_id': pid,
            'quick_cmd': '%s -m vf %s --tier quick' % (PY, pid),
            'thorough_cmd': '%s -m vf %s --tier thorough' % (PY, pid),
            'evidence_file': '/verif/evidence/%s.json' % pid,
            'replay_cmd_template': '%s -m vf %s --replay {path}' % (PY, pid),
            'engine': 'vf',
            'level_claimed': {'category': c['category'],
                              'text': c['text'] + ROUND3.get(pid, '')
                              + ROUND4.get(pid, '')
                              + ROUND5.get(pid, ''),
                              'design_ref': c['design']},
            'level_note': c['note'],
            'technique': c['technique'],
        })
    man = {
        'version': 1,
        'setup_cmd': 'cd /verif && sh setup.sh',
        'hooks': {
            'guard': 'PYMAP_VERIF',
            'enable': 'no source hooks are needed: all observation is at the '
                      'client byte boundary, the event-loop boundary, the OS '
                      'boundary (audit hooks) or through references held by '
                      'the harness; pymap is imported from /repo (editable '
                      'install), so checks always run the current tree',
            'baseline_off_cmd': 'cd /repo && /venv/bin/python -m pytest -q '
                                '-p no:cacheprovider --timeout=900 '
                                '--continue-on-collection-errors',
            'source_commits': [],
            'add_only': True,
        },
        'engines': [{
            'name': 'vf', 'path': '/verif/vf',
            'serves_properties': sorted(CHECKS),
            'kind_free_text': 'runtime monitoring: real pymap servers driven '
                              'in-process on a controlled asyncio loop '
                              '(virtual time, FIFO queue, randomised external '
                              'events), fork-based farm, oracles over client-'
                              'boundary histories',
        }],
        'checks': checks,
        'not_applicable': na,
        'notes': 'exit 0 = held on everything explored (KNOWN-FINDING lines '
                 'possible), 1 = VIOLATION, 2 = INCONCLUSIVE (deciding '
                 'monitor not reached often enough; never on the unchanged '
                 'tree). known_findings.json is read-only at run time.',
    }
    with open(os.path.join(os.path.dirname(__file__), 'MANIFEST.json'),
              'w') as f:
        json.dump(man, f, indent=1)
        f.write('\n')


if __name__ == '__main__':
    main()
