#!/bin/sh
# usage: sh tools_seeded.sh <seeded-id> "<checks>" [seed]
# Runs the given quick checks against a scratch copy of /repo's pymap with
# /verif/seeded/<id>/patch.diff applied (PYTHONPATH shadows the editable
# install); with REPO=1 applies the patch to /repo itself and reverts it.
id=$1; checks=$2; seed=${3:-0}
patch=/verif/seeded/$id/patch.diff
if [ "$REPO" = "1" ]; then
  git -C /repo apply "$patch" || exit 9
  trap 'git -C /repo checkout -- .' EXIT
  export PYTHONPATH=
else
  d=$(mktemp -d /tmp/vf-seeded-XXXXXX)
  trap 'rm -rf "$d"' EXIT
  cp -r /repo/pymap "$d/pymap"
  (cd "$d" && patch -s -p1 < "$patch") || exit 9
  export PYTHONPATH=$d
fi
for c in $checks; do
  out=$(VERIF_SEED=$seed /venv/bin/python -m vf $c --tier quick --no-evidence 2>&1 | grep -v conda)
  echo "$out" | grep -E "^$c tier" | cut -c1-170
  echo "$out" | grep -E "mechanism=|INCONCLUSIVE" | cut -c1-260 | head -6
done
