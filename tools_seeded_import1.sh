#!/bin/sh
# usage: sh tools_seeded_import1.sh <property> <scratch-worktree> <new-id> [checks]
# imports <scratch-worktree>/seeded/1 as /verif/seeded/<new-id>, confirms it in
# the scratch worktree (demo fails with / passes without, suite passes with)
# and runs the owning quick check against it
p=$1; wt=$2; id=$3; checks=${4:-$1}
mkdir -p /verif/seeded/$id
cp $wt/seeded/1/patch.diff $wt/seeded/1/demo.py $wt/seeded/1/notes.md /verif/seeded/$id/ 2>/dev/null
sh /verif/tools_seeded_verify.sh $id $wt
echo "== $id"; sh /verif/tools_seeded.sh $id "$checks"
