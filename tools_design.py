"""Regenerate the generated parts of DESIGN.md (section 5 table from
known_findings.json, section 6.2 table from seeded/*/meta.json) between the
markers <!-- BEGIN:x --> and <!-- END:x -->."""
import glob
import json
import os
import re

ROOT = os.path.dirname(os.path.abspath(__file__))


def findings_table() -> str:
    d = json.load(open(os.path.join(ROOT, 'known_findings.json')))
    rows = ['| Property | Mechanism id | Disposition | What failed |',
            '|---|---|---|---|']
    for e in sorted(d['findings'], key=lambda e: (e['property'],
                                                  e['status'] != 'known',
                                                  e['mechanism'])):
        disp = 'fixed in %s' % e['commit'] if e['status'] == 'fixed' \
            else '**known finding**'
        what = e['what'].replace('|', '\\|').replace('\n', ' ')
        rows.append('| %s | `%s` | %s | %s |' % (
            e['property'], e['mechanism'], disp, what))
    n_fixed = sum(1 for e in d['findings'] if e['status'] == 'fixed')
    n_known = sum(1 for e in d['findings'] if e['status'] == 'known')
    return ('%d entries: %d fixed (each by one unguarded `fix:` commit in '
            '/repo, suite re-run), %d recorded as known findings.\n\n'
            % (len(d['findings']), n_fixed, n_known)) + '\n'.join(rows)


def seeded_table() -> str:
    rows = ['| Seeded change | Breaks | Site / mechanism | Needs | Caught by '
            '(quick tier) |', '|---|---|---|---|---|']
    metas = sorted(glob.glob(os.path.join(ROOT, 'seeded', '*', 'meta.json')))
    for m in metas:
        e = json.load(open(m))
        rows.append('| %s | %s | %s | %s | %s |' % (
            os.path.basename(os.path.dirname(m)), e.get('property', ''),
            e.get('summary', '').replace('|', '\\|'),
            e.get('needs', '').replace('|', '\\|'),
            e.get('caught_by', '').replace('|', '\\|')))
    return '%d seeded changes kept.\n\n' % len(metas) + '\n'.join(rows)


def main() -> None:
    p = os.path.join(ROOT, 'DESIGN.md')
    s = open(p).read()
    for key, fn in (('findings', findings_table), ('seeded', seeded_table)):
        pat = re.compile(r'(<!-- BEGIN:%s -->\n).*?(<!-- END:%s -->)'
                         % (key, key), re.S)
        if pat.search(s):
            s = pat.sub(lambda m: m.group(1) + fn() + '\n' + m.group(2), s)
    open(p, 'w').write(s)


if __name__ == '__main__':
    main()
