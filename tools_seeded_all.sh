#!/bin/sh
# usage: sh tools_seeded_all.sh [ids...]
# Runs the owning quick check against every seeded change (PYTHONPATH-shadowed
# scratch copy of /repo's pymap) and prints one verdict line per change.
ids=${*:-$(ls /verif/seeded)}
for id in $ids; do
  p=$(echo $id | cut -d- -f1)
  out=$(sh /verif/tools_seeded.sh $id $p 2>&1)
  if echo "$out" | grep -q "FAILED\|rejects"; then v=APPLY-FAILED
  elif echo "$out" | grep -q "mechanism="; then v=CAUGHT
  else v=MISSED; fi
  echo "$id $v $(echo "$out" | grep -o 'violations=[0-9]*' | head -1) $(echo "$out" | grep -o 'mechanism=[^ ]*' | head -2 | tr '\n' ' ')"
done
echo SEEDED-ALL-DONE
