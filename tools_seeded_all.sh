#!/bin/sh
# usage: sh tools_seeded_all.sh [ids...]
# Runs, against every seeded change (PYTHONPATH-shadowed scratch copy of
# /repo's pymap), the quick check(s) that meta.json names as catching it
# (the Cnn ids in "caught_by" before any " -- " remark; the owning check if
# there is none) and prints one verdict line per change.
ids=${*:-$(ls /verif/seeded)}
for id in $ids; do
  p=$(echo $id | cut -d- -f1)
  checks=$(python3 - "$id" "$p" <<'PY'
import json,re,sys
m=json.load(open('/verif/seeded/%s/meta.json'%sys.argv[1]))
head=m.get('caught_by','').split(' -- ')[0]
if 'NEUTRALISED' in head: print('NEUTRALISED'); sys.exit()
c=[]
for x in re.findall(r'\bC\d\d\b', head):
    if x not in c: c.append(x)
print(' '.join(c[:2]) or sys.argv[2])
PY
)
  if [ "$checks" = "NEUTRALISED" ]; then echo "$id NEUTRALISED (see meta.json)"; continue; fi
  out=$(sh /verif/tools_seeded.sh $id "$checks" 2>&1)
  if echo "$out" | grep -q "FAILED\|rejects"; then v=APPLY-FAILED
  elif echo "$out" | grep -q "mechanism="; then v=CAUGHT
  else v=MISSED; fi
  echo "$id $v [$checks] $(echo "$out" | grep -o 'violations=[0-9]*' | head -1) $(echo "$out" | grep -o 'mechanism=[^ ]*' | head -2 | tr '\n' ' ')"
done
echo SEEDED-ALL-DONE
