"""vf -- runtime-monitoring machinery for icgood/pymap (see /verif/DESIGN.md).

Everything here observes executions of the real code in /repo's working tree
(pymap is installed editable in /venv, so ``import pymap`` is always the
current tree).
"""

import os
import sys

ROOT = os.path.dirname(os.path.dirname(os.path.abspath(__file__)))
REPO = os.environ.get('VF_REPO', '/repo')
GUARD = 'PYMAP_VERIF'


def ensure_env() -> None:
    """Re-exec with a fixed hash seed so that set/dict iteration over bytes
    keys (flags) is reproducible from the case seed alone."""
    if os.environ.get('PYTHONHASHSEED') != '0':
        os.environ['PYTHONHASHSEED'] = '0'
        os.execv(sys.executable, [sys.executable] + sys.argv)
