import sys, collections, time
from vf.checks.c19 import CHECK
from vf.runner import farm
tier = sys.argv[1] if len(sys.argv) > 1 else 'quick'
seed = int(sys.argv[2]) if len(sys.argv) > 2 else 0
limit = int(sys.argv[3]) if len(sys.argv) > 3 else 0
specs = list(CHECK.cases(tier, seed))
if limit: specs = specs[:limit]
t=time.time()
mech = collections.Counter(); ex = {}; ab = collections.Counter(); cnt = collections.Counter(); he=[]
for rec in farm(CHECK, specs, 600, 2000):
    if 'hung' in rec or 'skipped' in rec: print('HUNG/SKIP', rec); continue
    if rec.get('harness_error'): he.append(rec['harness_error']); continue
    if rec.get('aborted'): ab[rec['aborted']] += 1
    for k, v in rec['counters'].items(): cnt[k] += v
    for v in rec['violations']:
        mech[v['mech']] += 1
        ex.setdefault(v['mech'], (rec['spec'], v))
print('wall %.1f' % (time.time()-t), 'cases', len(specs))
print('aborted', dict(ab))
print('harness errors', len(he)); 
if he: print(he[0])
for m, n in mech.most_common():
    spec, v = ex[m]
    print('==', n, m, spec)
    print('   ', v['detail'][:400])
print(' '.join('%s=%s' % kv for kv in sorted(cnt.items())))
