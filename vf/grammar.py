"""M4: independent strict parser for the server->client direction of IMAP.

Written from RFC 3501 section 9 (formal syntax) plus the extensions pymap
advertises: RFC 4315 (UIDPLUS resp codes), RFC 3516 (BINARY, literal8),
RFC 2971 (ID), RFC 3348 (CHILDREN), RFC 6851 (MOVE), RFC 8474 (OBJECTID),
RFC 7889 (APPENDLIMIT), RFC 2177 (IDLE), RFC 5530 (response codes).
It shares no code with ``pymap.parsing``.

Two layers:

``Framer``   incremental: splits the byte stream into complete responses
             (a response ends at the CRLF that is not a literal introducer).
``parse``    one complete response -> ``Resp`` (kind, tag, cond, code, typed
             data, list of grammar errors).

Every error is a ``(mechanism_id, detail)`` pair; mechanism ids are stable
strings used by the known-findings classifier.
"""

from __future__ import annotations

import re
from dataclasses import dataclass, field
from typing import Any

CRLF = b'\r\n'

_ATOM_SPECIALS = set(b'(){ %*"\\]') | set(range(0, 0x20)) | {0x7f}
_ATOM_CHARS = frozenset(c for c in range(1, 0x80) if c not in _ATOM_SPECIALS)
_ASTRING_CHARS = _ATOM_CHARS | {ord(']')}
_TAG_CHARS = _ASTRING_CHARS - {ord('+')}
_STATUS_CONDS = (b'OK', b'NO', b'BAD', b'BYE', b'PREAUTH')

_lit_tail = re.compile(rb'(~?)\{(\d+)\}\r?\n\Z')
_status_head = re.compile(
    rb'\A(?:\+|\S+ (?:OK|NO|BAD|BYE|PREAUTH)(?: |\r?\n))', re.I)
_date_time = re.compile(
    rb'\A(?: \d|\d\d)-(?:Jan|Feb|Mar|Apr|May|Jun|Jul|Aug|Sep|Oct|Nov|Dec)-'
    rb'\d{4} \d\d:\d\d:\d\d [+-]\d{4}\Z')
_objectid = re.compile(rb'\A[A-Za-z0-9_-]{1,255}\Z')


class Framer:
    """Incremental splitter; tolerant (never raises), anomalies are kept for
    the strict layer."""

    def __init__(self) -> None:
        self.buf = bytearray()
        self.pos = 0        # scan position inside buf
        self.need = 0       # literal bytes still to skip
        self.out: list[bytes] = []
        self.total = 0

    def feed(self, data: bytes) -> list[bytes]:
        self.buf += data
        self.total += len(data)
        done: list[bytes] = []
        while True:
            if self.need:
                avail = len(self.buf) - self.pos
                if avail < self.need:
                    break
                self.pos += self.need
                self.need = 0
            nl = self.buf.find(b'\n', self.pos)
            if nl < 0:
                break
            line_end = nl + 1
            head = bytes(self.buf[:line_end])
            # only what follows the last literal can introduce another one
            # (the literal's own content may end in "{n}")
            m = _lit_tail.search(head, self.pos)
            if m and len(m.group(2)) > 18:
                m = None
            if m and not _is_status_line(head):
                self.need = int(m.group(2))
                self.pos = line_end
                continue
            done.append(head)
            del self.buf[:line_end]
            self.pos = 0
        return done

    @property
    def pending(self) -> bytes:
        return bytes(self.buf)


def _is_status_line(head: bytes) -> bool:
    # the first line of the response decides: status responses and
    # continuation requests carry free text, never literals.
    first = head.split(b'\n', 1)[0] + b'\n'
    if b'\n' in head[:-1]:
        # already inside a multi-line (literal-bearing) data response
        return False
    return bool(_status_head.match(first))


@dataclass
class Resp:
    raw: bytes
    kind: str = '?'              # tagged | untagged | cont
    tag: bytes = b''
    cond: bytes | None = None    # OK NO BAD BYE PREAUTH
    code: bytes | None = None    # response code name (upper)
    code_arg: bytes | None = None
    text: bytes = b''
    typ: bytes | None = None     # EXISTS FETCH LIST ... for data responses
    num: int | None = None       # leading number of message data
    data: Any = None
    errors: list[tuple[str, str]] = field(default_factory=list)

    def err(self, mech: str, detail: str = '') -> None:
        self.errors.append((mech, detail))


class _P:
    """Cursor over one response (without the final CRLF)."""

    def __init__(self, buf: bytes, resp: Resp) -> None:
        self.b = buf
        self.i = 0
        self.r = resp

    def eof(self) -> bool:
        return self.i >= len(self.b)

    def peek(self) -> int:
        return self.b[self.i] if self.i < len(self.b) else -1

    def take(self, lit: bytes) -> bool:
        if self.b.startswith(lit, self.i):
            self.i += len(lit)
            return True
        return False

    def sp(self) -> bool:
        if self.take(b' '):
            if self.peek() == 0x20:
                self.r.err('extra-space', 'at %d' % self.i)
                while self.peek() == 0x20:
                    self.i += 1
            return True
        return False

    def run(self, chars: frozenset[int]) -> bytes:
        j = self.i
        b = self.b
        n = len(b)
        while j < n and b[j] in chars:
            j += 1
        out = b[self.i:j]
        self.i = j
        return out

    def rest(self) -> bytes:
        out = self.b[self.i:]
        self.i = len(self.b)
        return out

    # -- primitives ---------------------------------------------------------

    def number(self) -> int | None:
        j = self.i
        d = self.run(frozenset(b'0123456789'))
        if not d:
            self.i = j
            return None
        return int(d)

    def quoted(self) -> bytes | None:
        if self.peek() != 0x22:
            return None
        j = self.i + 1
        b = self.b
        n = len(b)
        out = bytearray()
        while True:
            if j >= n:
                self.r.err('quoted-unterminated', 'from %d' % self.i)
                self.i = n
                return bytes(out)
            c = b[j]
            if c == 0x22:
                j += 1
                break
            if c == 0x5c:
                if j + 1 < n and b[j + 1] in (0x22, 0x5c):
                    out.append(b[j + 1])
                    j += 2
                    continue
                self.r.err('quoted-bad-escape', 'at %d' % j)
                j += 1
                continue
            if c in (0x0d, 0x0a, 0x00):
                self.r.err('quoted-ctl', 'byte %#x at %d' % (c, j))
            elif c >= 0x80:
                self.r.err('quoted-8bit', 'byte %#x at %d' % (c, j))
            out.append(c)
            j += 1
        self.i = j
        return bytes(out)

    def literal(self) -> tuple[bytes, bool] | None:
        m = re.compile(rb'(~?)\{(\d+)\}(\r?)\n').match(self.b, self.i)
        if not m:
            return None
        if not m.group(3):
            self.r.err('bare-lf', 'literal introducer at %d' % self.i)
        n = int(m.group(2))
        start = m.end()
        if start + n > len(self.b):
            self.r.err('literal-short',
                       'announced %d, have %d' % (n, len(self.b) - start))
            n = len(self.b) - start
        data = self.b[start:start + n]
        self.i = start + n
        return data, bool(m.group(1))

    def string(self) -> tuple[str, bytes] | None:
        q = self.quoted()
        if q is not None:
            return ('quoted', q)
        lit = self.literal()
        if lit is not None:
            return ('literal8' if lit[1] else 'literal', lit[0])
        return None

    def nstring(self) -> tuple[str, bytes | None] | None:
        s = self.string()
        if s is not None:
            return s
        j = self.i
        a = self.run(_ATOM_CHARS)
        if a.upper() == b'NIL':
            return ('nil', None)
        self.i = j
        return None

    def astring(self) -> tuple[str, bytes] | None:
        s = self.string()
        if s is not None:
            return s
        a = self.run(_ASTRING_CHARS)
        if a:
            return ('atom', a)
        return None

    def sexp(self, depth: int = 0) -> Any:
        """Generic value: list | string | atom/number/NIL (with brackets
        allowed inside atoms)."""
        if depth > 200:
            self.r.err('too-deep')
            return None
        if self.peek() == 0x28:
            self.i += 1
            items: list[Any] = []
            if self.take(b')'):
                return ('list', items)
            while True:
                if self.eof():
                    self.r.err('list-unbalanced', 'missing )')
                    return ('list', items)
                v = self.sexp(depth + 1)
                if v is None:
                    self.r.err('list-bad-item', 'at %d: %r' % (
                        self.i, self.b[self.i:self.i + 20]))
                    # resynchronise
                    self.i += 1
                    continue
                items.append(v)
                if self.take(b')'):
                    return ('list', items)
                if not self.sp():
                    if self.peek() == 0x28:
                        # "(a)(b)" is legal for body and address lists
                        continue
                    self.r.err('list-missing-sp', 'at %d' % self.i)
                    if self.eof():
                        self.r.err('list-unbalanced', 'missing )')
                        return ('list', items)
        s = self.string()
        if s is not None:
            return s
        if self.peek() == 0x5c:
            # flag / list attribute: "\" atom  or  "\*"
            self.i += 1
            if self.take(b'*'):
                return ('atom', b'\\*')
            a = self.run(_ATOM_CHARS)
            return ('atom', b'\\' + a)
        a = self.run(_ASTRING_CHARS)
        if a:
            if a.upper() == b'NIL':
                return ('nil', None)
            if a.isdigit():
                return ('num', int(a))
            return ('atom', a)
        return None


def parse(raw: bytes) -> Resp:
    r = Resp(raw)
    if raw.endswith(CRLF):
        body = raw[:-2]
    elif raw.endswith(b'\n'):
        r.err('bare-lf', 'response does not end in CRLF')
        body = raw[:-1]
    else:
        r.err('unterminated', 'no line end')
        body = raw
    p = _P(body, r)
    if p.take(b'+'):
        r.kind = 'cont'
        if not p.eof():
            if not p.take(b' '):
                r.err('cont-missing-sp')
            r.text = p.rest()
            _check_text(r, r.text, allow_empty=True)
        else:
            # RFC 3501: "+" SP (resp-text / base64) CRLF -- the SP is required
            r.err('cont-missing-sp')
        return r
    if p.take(b'*'):
        r.kind = 'untagged'
        r.tag = b'*'
    else:
        tag = p.run(_TAG_CHARS)
        if not tag:
            r.err('bad-tag', repr(body[:20]))
            return r
        r.kind = 'tagged'
        r.tag = tag
    if not p.sp():
        r.err('missing-sp-after-tag')
        return r
    j = p.i
    word = p.run(_ATOM_CHARS)
    uw = word.upper()
    if uw in _STATUS_CONDS:
        r.cond = uw
        _status(p, r)
        return r
    if r.kind == 'tagged':
        r.err('tagged-not-status', repr(word))
        return r
    p.i = j
    _data(p, r)
    return r


def _check_text(r: Resp, text: bytes, allow_empty: bool = False) -> None:
    if not text and not allow_empty:
        r.err('empty-text')
    for c in text:
        if c in (0x0d, 0x0a, 0x00):
            r.err('text-ctl', 'byte %#x' % c)
            break
    for c in text:
        if c >= 0x80:
            r.err('text-8bit', 'byte %#x' % c)
            break


def _status(p: _P, r: Resp) -> None:
    if p.eof():
        # "tag OK" without text: resp-text requires SP 1*TEXT-CHAR
        r.err('empty-text')
        return
    if not p.take(b' '):
        r.err('missing-sp-after-cond')
    if p.peek() == 0x5b:
        end = p.b.find(b']', p.i)
        if end < 0:
            r.err('code-unterminated')
            r.text = p.rest()
            return
        inner = p.b[p.i + 1:end]
        p.i = end + 1
        name, _, arg = inner.partition(b' ')
        r.code = name.upper()
        r.code_arg = arg if _ else None
        _code(r, name, arg if _ else None)
        if p.eof():
            r.err('empty-text', 'after response code')
            return
        if not p.take(b' '):
            r.err('missing-sp-after-code')
    r.text = p.rest()
    _check_text(r, r.text)


def _sub(r: Resp, buf: bytes) -> _P:
    return _P(buf, r)


def _code(r: Resp, name: bytes, arg: bytes | None) -> None:
    un = name.upper()
    if not name or any(c not in _ATOM_CHARS for c in name):
        r.err('code-bad-name', repr(name))
        return
    if un in (b'ALERT', b'PARSE', b'READ-ONLY', b'READ-WRITE', b'TRYCREATE',
              b'UIDNOTSTICKY', b'EXPUNGEISSUED', b'SERVERBUG', b'UNAVAILABLE',
              b'AUTHENTICATIONFAILED', b'AUTHORIZATIONFAILED', b'EXPIRED',
              b'PRIVACYREQUIRED', b'CONTACTADMIN', b'NOPERM', b'INUSE',
              b'OVERQUOTA', b'ALREADYEXISTS', b'NONEXISTENT', b'CLIENTBUG',
              b'CANNOT', b'LIMIT', b'CORRUPTION', b'TIMEOUT', b'TOOBIG',
              b'CLOSED', b'UNKNOWN-CTE'):
        if arg is not None:
            r.err('code-unexpected-arg', repr(name))
        return
    if arg is None:
        if un in (b'UIDNEXT', b'UIDVALIDITY', b'UNSEEN', b'APPENDUID',
                  b'COPYUID', b'PERMANENTFLAGS', b'CAPABILITY', b'MAILBOXID',
                  b'BADCHARSET'):
            if un != b'BADCHARSET':
                r.err('code-missing-arg', repr(name))
        return
    if un in (b'UIDNEXT', b'UIDVALIDITY', b'UNSEEN'):
        if not arg.isdigit() or int(arg) == 0:
            r.err('code-bad-number', repr(arg))
        else:
            r.data = int(arg)
    elif un == b'APPENDUID':
        m = re.match(rb'\A([1-9]\d*) ([0-9:,]+)\Z', arg)
        if not m or not _uid_set_ok(m.group(2)):
            r.err('code-bad-appenduid', repr(arg))
        else:
            r.data = (int(m.group(1)), expand_set(m.group(2)))
    elif un == b'COPYUID':
        m = re.match(rb'\A([1-9]\d*) ([0-9:,]+) ([0-9:,]+)\Z', arg)
        if not m or not _uid_set_ok(m.group(2)) or not _uid_set_ok(m.group(3)):
            r.err('code-bad-copyuid', repr(arg))
        else:
            r.data = (int(m.group(1)), expand_set(m.group(2)),
                      expand_set(m.group(3)))
    elif un == b'PERMANENTFLAGS':
        p = _sub(r, arg)
        v = p.sexp()
        if v is None or v[0] != 'list' or not p.eof():
            r.err('code-bad-permanentflags', repr(arg))
        else:
            r.data = _flag_list(r, v, perm=True)
    elif un == b'CAPABILITY':
        caps = arg.split(b' ')
        for c in caps:
            if not c or any(ch not in _ATOM_CHARS for ch in c):
                r.err('code-bad-capability', repr(c))
        r.data = caps
    elif un == b'MAILBOXID':
        m = re.match(rb'\A\(([^()]*)\)\Z', arg)
        if not m or not _objectid.match(m.group(1)):
            r.err('code-bad-mailboxid', repr(arg))
        else:
            r.data = m.group(1)
    elif un == b'BADCHARSET':
        pass
    else:
        # unknown atom code with free text argument: 1*<any TEXT-CHAR but "]">
        for c in arg:
            if c in (0x0d, 0x0a, 0x00):
                r.err('code-ctl', repr(name))
                break


def _uid_set_ok(s: bytes) -> bool:
    return bool(re.match(rb'\A\d+(?::\d+)?(?:,\d+(?::\d+)?)*\Z', s))


def expand_set(s: bytes) -> list[int]:
    out: list[int] = []
    for part in s.split(b','):
        if b':' in part:
            a, b_ = part.split(b':')
            x, y = int(a), int(b_)
            step = 1 if y >= x else -1
            out.extend(range(x, y + step, step))
        else:
            out.append(int(part))
    return out


_SYS_FLAGS = {b'\\answered', b'\\flagged', b'\\deleted', b'\\seen',
              b'\\draft', b'\\recent'}


def _flag_list(r: Resp, v: Any, perm: bool = False) -> list[bytes]:
    out: list[bytes] = []
    for item in v[1]:
        if item[0] == 'nil':
            item = ('atom', b'NIL')   # NIL is a syntactically valid keyword
        if item[0] != 'atom' and item[0] != 'num':
            r.err('flag-not-atom', repr(item))
            continue
        f = item[1] if item[0] == 'atom' else str(item[1]).encode()
        if f.startswith(b'\\'):
            if f == b'\\*':
                if not perm:
                    r.err('flag-star-outside-permanentflags')
            elif any(c not in _ATOM_CHARS for c in f[1:]) or len(f) < 2:
                r.err('flag-bad', repr(f))
        elif any(c not in _ATOM_CHARS for c in f):
            r.err('flag-bad', repr(f))
        out.append(f)
    return out


def _data(p: _P, r: Resp) -> None:
    n = p.number()
    if n is not None:
        r.num = n
        if not p.sp():
            r.err('data-missing-sp')
            return
        word = p.run(_ATOM_CHARS).upper()
        r.typ = word
        if word in (b'EXISTS', b'RECENT', b'EXPUNGE'):
            if word == b'EXPUNGE' and n == 0:
                r.err('expunge-zero')
            if not p.eof():
                r.err('trailing-garbage', repr(p.rest()[:30]))
            return
        if word == b'FETCH':
            if n == 0:
                r.err('fetch-zero')
            if not p.sp():
                r.err('data-missing-sp')
                return
            r.data = _msg_att(p, r)
            if not p.eof():
                r.err('trailing-garbage', repr(p.rest()[:30]))
            return
        r.err('unknown-message-data', repr(word))
        return
    word = p.run(_ATOM_CHARS).upper()
    r.typ = word
    if word == b'FLAGS':
        if not p.sp():
            r.err('data-missing-sp')
            return
        v = p.sexp()
        if v is None or v[0] != 'list':
            r.err('flags-not-list')
        else:
            r.data = _flag_list(r, v)
    elif word in (b'LIST', b'LSUB'):
        _list(p, r)
    elif word == b'SEARCH':
        nums: list[int] = []
        while not p.eof():
            if not p.sp():
                r.err('search-missing-sp')
                break
            k = p.number()
            if k is None or k == 0:
                r.err('search-bad-number', repr(p.rest()[:20]))
                break
            nums.append(k)
        r.data = nums
    elif word == b'STATUS':
        _status_data(p, r)
    elif word == b'CAPABILITY':
        caps = []
        while not p.eof():
            if not p.sp():
                r.err('capability-missing-sp')
                break
            c = p.run(_ATOM_CHARS)
            if not c:
                r.err('capability-bad-atom', repr(p.rest()[:20]))
                break
            caps.append(c)
        if b'IMAP4REV1' not in [c.upper() for c in caps]:
            r.err('capability-no-imap4rev1')
        r.data = caps
    elif word == b'ID':
        if not p.sp():
            r.err('data-missing-sp')
            return
        v = p.sexp()
        if v is None:
            r.err('id-bad')
        elif v[0] == 'nil':
            r.data = None
        elif v[0] != 'list' or len(v[1]) % 2:
            r.err('id-bad-list')
        else:
            for k, item in enumerate(v[1]):
                if k % 2 == 0 and item[0] not in ('quoted', 'literal'):
                    r.err('id-key-not-string')
                if k % 2 == 1 and item[0] not in ('quoted', 'literal', 'nil'):
                    r.err('id-value-not-nstring')
            r.data = v[1]
    elif word in (b'ESEARCH', b'NAMESPACE', b'ENABLED'):
        while not p.eof():
            if not p.sp():
                r.err('data-missing-sp')
                break
            if p.sexp() is None:
                r.err('generic-bad', repr(p.rest()[:20]))
                break
    else:
        r.err('unknown-data', repr(word))
        return
    if not p.eof():
        r.err('trailing-garbage', repr(p.rest()[:30]))


def _mailbox(p: _P, r: Resp) -> bytes | None:
    a = p.astring()
    if a is None:
        r.err('mailbox-bad', repr(p.b[p.i:p.i + 20]))
        return None
    kind, val = a
    if kind == 'literal8':
        r.err('mailbox-literal8')
    if kind == 'atom' and any(c >= 0x80 for c in val):
        r.err('mailbox-8bit-atom')
    return val


_LIST_ATTR = re.compile(rb'\A\\[A-Za-z0-9-]+\Z')


def _list(p: _P, r: Resp) -> None:
    if not p.sp():
        r.err('data-missing-sp')
        return
    v = p.sexp()
    attrs: list[bytes] = []
    if v is None or v[0] != 'list':
        r.err('list-attrs-not-list')
    else:
        for item in v[1]:
            if item[0] != 'atom' or not _LIST_ATTR.match(item[1]):
                r.err('list-bad-attr', repr(item))
            else:
                attrs.append(item[1])
    if not p.sp():
        r.err('data-missing-sp')
        return
    delim: bytes | None
    q = p.quoted()
    if q is not None:
        if len(q) != 1:
            r.err('list-delim-not-one-char', repr(q))
        delim = q
    else:
        a = p.run(_ATOM_CHARS)
        if a.upper() != b'NIL':
            r.err('list-bad-delim', repr(a))
        delim = None
    if not p.sp():
        r.err('data-missing-sp')
        return
    name = _mailbox(p, r)
    r.data = {'attrs': attrs, 'delim': delim, 'name': name}


_STATUS_ATTS = (b'MESSAGES', b'RECENT', b'UIDNEXT', b'UIDVALIDITY', b'UNSEEN',
                b'MAILBOXID', b'SIZE', b'DELETED', b'HIGHESTMODSEQ',
                b'APPENDLIMIT')


def _status_data(p: _P, r: Resp) -> None:
    if not p.sp():
        r.err('data-missing-sp')
        return
    name = _mailbox(p, r)
    if not p.sp():
        r.err('data-missing-sp')
        return
    v = p.sexp()
    out: dict[bytes, Any] = {}
    if v is None or v[0] != 'list' or len(v[1]) % 2:
        r.err('status-bad-list')
    else:
        items = v[1]
        for k in range(0, len(items), 2):
            key, val = items[k], items[k + 1]
            if key[0] != 'atom' or key[1].upper() not in _STATUS_ATTS:
                r.err('status-bad-att', repr(key))
                continue
            if key[1].upper() == b'MAILBOXID':
                if val[0] != 'list' or len(val[1]) != 1 \
                        or val[1][0][0] not in ('atom', 'num'):
                    r.err('status-bad-mailboxid', repr(val))
                else:
                    out[b'MAILBOXID'] = val[1][0][1]
            elif val[0] != 'num':
                r.err('status-bad-number', repr(val))
            else:
                out[key[1].upper()] = val[1]
    r.data = {'name': name, 'att': out}


_att_name = re.compile(rb'[A-Za-z0-9.]+')


def _msg_att(p: _P, r: Resp) -> dict[bytes, Any]:
    out: dict[bytes, Any] = {}
    if not p.take(b'('):
        r.err('fetch-missing-paren')
        return out
    if p.take(b')'):
        r.err('fetch-empty')
        return out
    while True:
        m = _att_name.match(p.b, p.i)
        if not m:
            r.err('fetch-bad-att-name', repr(p.b[p.i:p.i + 20]))
            return out
        name = m.group(0).upper()
        p.i = m.end()
        section: bytes | None = None
        origin: int | None = None
        if p.peek() == 0x5b:
            end = _section_end(p)
            if end < 0:
                r.err('fetch-section-unterminated')
                return out
            section = p.b[p.i + 1:end]
            p.i = end + 1
            if p.take(b'<'):
                o = p.number()
                if o is None or not p.take(b'>'):
                    r.err('fetch-bad-origin')
                origin = o
        if not p.sp():
            r.err('fetch-missing-sp', 'after %r' % name)
            return out
        key = name
        if section is not None:
            key = name + b'[' + section + b']'
            if origin is not None:
                key += b'<%d>' % origin
        val = _att_value(p, r, name, section)
        if key in out:
            r.err('fetch-duplicate-att', repr(key))
        out[key] = val
        if p.take(b')'):
            return out
        if not p.sp():
            r.err('fetch-missing-sp', 'between atts at %d: %r' % (
                p.i, p.b[p.i:p.i + 20]))
            return out


def _section_end(p: _P) -> int:
    # section may contain a parenthesised header list with astrings
    i = p.i + 1
    b = p.b
    n = len(b)
    depth = 0
    while i < n:
        c = b[i]
        if c == 0x28:
            depth += 1
        elif c == 0x29 and depth:
            depth -= 1
        elif c == 0x5d and not depth:
            # ']' is an ASTRING-CHAR: inside the parenthesised header list it
            # is part of a header field name, not the end of the section
            return i
        if c == 0x22:
            i += 1
            while i < n and b[i] != 0x22:
                if b[i] == 0x5c:
                    i += 1
                i += 1
        i += 1
    return -1


def _att_value(p: _P, r: Resp, name: bytes, section: bytes | None) -> Any:
    if name == b'FLAGS':
        v = p.sexp()
        if v is None or v[0] != 'list':
            r.err('fetch-flags-not-list')
            return []
        return _flag_list(r, v)
    if name in (b'UID', b'RFC822.SIZE', b'MODSEQ'):
        k = p.number()
        if k is None:
            r.err('fetch-bad-number', repr(name))
        elif name == b'UID' and k == 0:
            r.err('fetch-uid-zero')
        return k
    if name == b'BINARY.SIZE':
        k = p.number()
        if k is None:
            r.err('fetch-bad-number', repr(name))
        return k
    if name == b'INTERNALDATE':
        q = p.quoted()
        if q is None:
            r.err('fetch-internaldate-not-quoted')
            p.sexp()
            return None
        if not _date_time.match(q):
            r.err('fetch-bad-date-time', repr(q))
        return q
    if name in (b'RFC822', b'RFC822.HEADER', b'RFC822.TEXT') or \
            (name == b'BODY' and section is not None):
        s = p.nstring()
        if s is None:
            r.err('fetch-not-nstring', repr(name))
            p.sexp()
            return None
        if s[0] == 'literal8':
            r.err('fetch-literal8-outside-binary', repr(name))
        return s[1]
    if name == b'BINARY':
        s = p.nstring()
        if s is None:
            r.err('fetch-not-nstring', repr(name))
            p.sexp()
            return None
        return s[1]
    if name == b'ENVELOPE':
        v = p.sexp()
        _envelope(r, v)
        return v
    if name in (b'BODY', b'BODYSTRUCTURE'):
        v = p.sexp()
        _body(r, v, ext=(name == b'BODYSTRUCTURE'))
        return v
    if name in (b'EMAILID', b'THREADID'):
        v = p.sexp()
        if v is None:
            r.err('fetch-bad-objectid', repr(name))
        elif v[0] == 'nil':
            if name == b'EMAILID':
                r.err('fetch-emailid-nil')
            return None
        elif v[0] != 'list' or len(v[1]) != 1 \
                or v[1][0][0] not in ('atom', 'num'):
            r.err('fetch-bad-objectid', repr(v))
        else:
            oid = v[1][0][1]
            oid = oid if isinstance(oid, bytes) else str(oid).encode()
            if not _objectid.match(oid):
                r.err('fetch-bad-objectid', repr(oid))
            return oid
        return None
    r.err('fetch-unknown-att', repr(name))
    p.sexp()
    return None


def _is_nstring(v: Any) -> bool:
    return v is not None and v[0] in ('quoted', 'literal', 'nil')


def _is_string(v: Any) -> bool:
    return v is not None and v[0] in ('quoted', 'literal')


def _envelope(r: Resp, v: Any) -> None:
    if v is None or v[0] != 'list':
        r.err('envelope-not-list')
        return
    items = v[1]
    if len(items) != 10:
        r.err('envelope-arity', str(len(items)))
        return
    for k in (0, 1, 8, 9):
        if not _is_nstring(items[k]):
            r.err('envelope-field-not-nstring', 'field %d: %r' % (
                k, items[k][0]))
    for k in range(2, 8):
        a = items[k]
        if a[0] == 'nil':
            continue
        if a[0] != 'list' or not a[1]:
            r.err('envelope-addrlist-bad', 'field %d' % k)
            continue
        for addr in a[1]:
            if addr[0] != 'list' or len(addr[1]) != 4 \
                    or not all(_is_nstring(x) for x in addr[1]):
                r.err('envelope-address-bad', 'field %d: %r' % (k, addr))


def _param(r: Resp, v: Any, where: str) -> None:
    if v[0] == 'nil':
        return
    if v[0] != 'list' or not v[1] or len(v[1]) % 2 \
            or not all(_is_string(x) for x in v[1]):
        r.err('body-param-bad', where)


def _body(r: Resp, v: Any, ext: bool, depth: int = 0) -> None:
    if v is None or v[0] != 'list' or not v[1]:
        r.err('body-not-list')
        return
    items = v[1]
    if items[0][0] == 'list':
        # multipart: 1*body SP media-subtype [ext]
        k = 0
        while k < len(items) and items[k][0] == 'list':
            _body(r, items[k], ext, depth + 1)
            k += 1
        if k >= len(items) or not _is_string(items[k]):
            r.err('body-mpart-no-subtype')
            return
        rest = items[k + 1:]
        if rest and not ext:
            r.err('body-ext-in-BODY', 'multipart')
        if rest:
            _param(r, rest[0], 'mpart-ext-param')
            _body_ext_tail(r, rest[1:])
        return
    # single part
    if len(items) < 7:
        r.err('body-1part-arity', str(len(items)))
        return
    if not _is_string(items[0]) or not _is_string(items[1]):
        r.err('body-media-not-string')
        return
    _param(r, items[2], 'body-fld-param')
    if not _is_nstring(items[3]):
        r.err('body-fld-id-bad')
    if not _is_nstring(items[4]):
        r.err('body-fld-desc-bad')
    if not _is_string(items[5]):
        r.err('body-fld-enc-bad', repr(items[5][0]))
    if items[6][0] != 'num':
        r.err('body-fld-octets-bad')
    mtype = (items[0][1] or b'').upper()
    msub = (items[1][1] or b'').upper()
    k = 7
    if mtype == b'MESSAGE' and msub == b'RFC822':
        if len(items) < 10:
            r.err('body-msg-arity', str(len(items)))
            return
        _envelope(r, items[7])
        _body(r, items[8], ext, depth + 1)
        if items[9][0] != 'num':
            r.err('body-fld-lines-bad')
        k = 10
    elif mtype == b'TEXT':
        if len(items) < 8 or items[7][0] != 'num':
            r.err('body-text-lines-missing')
            return
        k = 8
    rest = items[k:]
    if rest and not ext:
        r.err('body-ext-in-BODY', '1part')
    if rest:
        if not _is_nstring(rest[0]):
            r.err('body-fld-md5-bad')
        _body_ext_tail(r, rest[1:])


def _body_ext_tail(r: Resp, rest: list[Any]) -> None:
    # [dsp [lang [loc *ext]]]
    if not rest:
        return
    dsp = rest[0]
    if dsp[0] != 'nil':
        if dsp[0] != 'list' or len(dsp[1]) != 2 or not _is_string(dsp[1][0]):
            r.err('body-fld-dsp-bad')
        else:
            _param(r, dsp[1][1], 'dsp-param')
    if len(rest) > 1:
        lang = rest[1]
        if not (_is_nstring(lang) or (
                lang[0] == 'list' and lang[1]
                and all(_is_string(x) for x in lang[1]))):
            r.err('body-fld-lang-bad')
    if len(rest) > 2:
        if not _is_nstring(rest[2]):
            r.err('body-fld-loc-bad')


def parse_stream(data: bytes) -> tuple[list[Resp], bytes]:
    """Parse a complete transcript; returns responses and unparsed tail."""
    f = Framer()
    out = [parse(raw) for raw in f.feed(data)]
    return out, f.pending
