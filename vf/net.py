"""M2: in-memory transport and an IMAP client that frames independently of
pymap.  Everything is recorded at the client boundary."""

from __future__ import annotations

import asyncio
import random
import re
import socket
from dataclasses import dataclass, field
from typing import Any, Callable

from proxyprotocol.sock import SocketInfoLocal

from . import grammar
from .grammar import Resp


class Sched:
    """Source of external-event timing decisions (all from one PRNG)."""

    def __init__(self, seed: int = 0, max_delay: int = 0,
                 max_drain: int = 0, starve: int | None = None,
                 starve_delay: int = 40) -> None:
        self.rng = random.Random(seed)
        self.max_delay = max_delay
        self.max_drain = max_drain
        self.starve = starve
        self.starve_delay = starve_delay
        self.choices = 0

    def delay(self, conn_id: int) -> int:
        self.choices += 1
        if self.starve is not None and conn_id == self.starve:
            return self.rng.randint(self.starve_delay // 2, self.starve_delay)
        if not self.max_delay:
            return 0
        return self.rng.randint(0, self.max_delay)

    def drain(self, conn_id: int) -> int:
        self.choices += 1
        if self.starve is not None and conn_id == self.starve:
            return self.rng.randint(self.starve_delay // 2, self.starve_delay)
        if not self.max_drain:
            return 0
        # most drains are instantaneous on a real socket
        if self.rng.random() < 0.5:
            return 0
        return self.rng.randint(0, self.max_drain)

    def describe(self) -> dict[str, Any]:
        return {'max_delay': self.max_delay, 'max_drain': self.max_drain,
                'starve': self.starve}


class _Socket:
    def __init__(self, fd: int, family: int) -> None:
        self.fd = fd
        self.family = family

    def fileno(self) -> int:
        return self.fd


class MemWriter:
    """Duck-typed StreamWriter (the seam the repo's own tests use)."""

    def __init__(self, conn: 'Conn') -> None:
        self.conn = conn
        self._closed = False

    #: optional observer of the amount of output (C06 credits its step
    #: budget per byte written: "bounded" is relative to what is produced)
    on_bytes: Any = None

    def write(self, data: bytes) -> None:
        if self._closed:
            self.conn.write_after_close += 1
            return
        hook = MemWriter.on_bytes
        if hook is not None:
            hook(len(data))
        self.conn._on_write(bytes(data))

    def writelines(self, lines: Any) -> None:
        for line in lines:
            self.write(line)

    async def drain(self) -> None:
        conn = self.conn
        if conn.broken:
            raise ConnectionResetError('peer gone')
        n = conn.sched.drain(conn.cid)
        conn.drains += 1
        conn.draining = True
        try:
            for _ in range(n):
                await asyncio.sleep(0)
        finally:
            conn.draining = False
        if conn.broken:
            raise ConnectionResetError('peer gone')

    def close(self) -> None:
        if not self._closed:
            self._closed = True
            self.conn._on_close()

    def is_closing(self) -> bool:
        return self._closed

    async def wait_closed(self) -> None:
        return None

    def can_write_eof(self) -> bool:
        return False

    def get_extra_info(self, name: str, default: Any = None) -> Any:
        conn = self.conn
        if name == 'socket':
            return conn.sock
        if name == 'peername':
            return conn.peername
        if name == 'sockname':
            return conn.sockname
        return default

    async def start_tls(self, ssl_context: Any, **kw: Any) -> None:
        self.conn.tls_started += 1


@dataclass
class Result:
    tag: bytes
    sent: bytes
    tagged: Resp | None = None
    untagged: list[Resp] = field(default_factory=list)
    conts: list[Resp] = field(default_factory=list)
    closed: bool = False
    step_call: int = 0
    step_ret: int = 0

    @property
    def cond(self) -> bytes | None:
        return self.tagged.cond if self.tagged else None

    @property
    def ok(self) -> bool:
        return self.cond == b'OK'


class Conn:
    """One client connection to a server callable running in the loop."""

    _next_fd = 100

    def __init__(self, cid: int, sched: Sched | None = None, *,
                 peer: tuple[str, int] = ('127.0.0.1', 40000),
                 limit: int = 2 ** 16) -> None:
        self.cid = cid
        self.sched = sched or Sched()
        self.loop = asyncio.get_event_loop()
        self.reader = asyncio.StreamReader(limit=limit)
        self.writer = MemWriter(self)
        self._tls_hold: list[bytes] | None = None
        Conn._next_fd += 1
        self.sock = _Socket(Conn._next_fd, socket.AF_INET)
        self.peername = peer
        self.sockname = ('127.0.0.1', 143)
        self.framer = grammar.Framer()
        self.out = bytearray()
        self.sent = bytearray()
        self.transcript: list[tuple[int, str, bytes]] = []
        self.responses: list[Resp] = []
        self.listeners: list[Callable[[Resp], None]] = []
        self.closed = False
        self.broken = False
        self.eof_sent = False
        self.tls_started = 0
        self.drains = 0
        self.draining = False
        self.write_after_close = 0
        self.task: asyncio.Task[None] | None = None
        self.task_exc: BaseException | None = None
        self.task_done = False
        self._tag_waiters: dict[bytes, asyncio.Future[None]] = {}
        self._any_waiter: asyncio.Future[None] | None = None
        self._cursor = 0      # index into responses consumed by the client
        self.in_flight: bytes | None = None   # current command line (first)
        self.in_flight_tag: bytes | None = None
        self._tagn = 0
        self.last_bytes_before_close: bytes = b''
        self.stray: list[Resp] = []

    # -- server side ----------------------------------------------------------

    def start(self, server: Callable[..., Any]) -> None:
        sock_info = SocketInfoLocal(self.writer)
        self.task = self.loop.create_task(
            server(self.reader, self.writer, sock_info))
        self.task.add_done_callback(self._on_task_done)

    def _on_task_done(self, task: 'asyncio.Task[None]') -> None:
        self.task_done = True
        if task.cancelled():
            self.task_exc = asyncio.CancelledError()
        else:
            self.task_exc = task.exception()
        self._wake_all()

    def _on_write(self, data: bytes) -> None:
        step = getattr(self.loop, 'steps', 0)
        self.out += data
        self.transcript.append((step, 'S', data))
        for raw in self.framer.feed(data):
            resp = grammar.parse(raw)
            self.responses.append(resp)
            for fn in self.listeners:
                fn(resp)
        self._wake_all()

    def _on_close(self) -> None:
        self.closed = True
        step = getattr(self.loop, 'steps', 0)
        self.transcript.append((step, 'X', b''))
        self._wake_all()

    def _wake_all(self) -> None:
        w = self._any_waiter
        if w is not None and not w.done():
            w.set_result(None)

    # -- client side ----------------------------------------------------------

    def next_tag(self, prefix: bytes = b't') -> bytes:
        self._tagn += 1
        return b'%s%d.%d' % (prefix, self.cid, self._tagn)

    _STARTTLS = re.compile(rb'(?i)(?:^|\r\n)(?:[^ \r\n]+ )?STARTTLS\r?\n\Z')

    def feed(self, data: bytes) -> None:
        step = getattr(self.loop, 'steps', 0)
        self.sent += data
        self.transcript.append((step, 'C', data))
        if self.eof_sent:
            return
        if self._tls_hold is not None:
            # a TLS handshake is (possibly) under way, see below
            self._tls_hold.append(data)
            return
        self.reader.feed_data(data)
        if self._STARTTLS.search(data):
            # A client that ends a segment with STARTTLS waits for the
            # handshake.  The in-memory handshake is a no-op, but what the
            # client sends next cannot reach the server's *plaintext* reader
            # before the server has called start_tls() - in reality it would
            # be the ClientHello, consumed by the TLS layer.  So it is held
            # until start_tls() has been called or the server is reading
            # again (STARTTLS refused).  Bytes sent in the SAME segment
            # behind STARTTLS are not held: that is the injection attack.
            self._tls_hold = []
            self.loop.create_task(self._release_after_handshake(
                self.tls_started))

    async def _release_after_handshake(self, before: int) -> None:
        for _ in range(10_000):
            await asyncio.sleep(0)
            reading = getattr(self.reader, '_waiter', None) is not None \
                and not getattr(self.reader, '_buffer', b'')
            if self.tls_started > before or reading or self.task_done:
                break
        held, self._tls_hold = self._tls_hold or [], None
        for data in held:
            if not self.eof_sent:
                self.reader.feed_data(data)

    def feed_eof(self) -> None:
        if not self.eof_sent:
            self.eof_sent = True
            step = getattr(self.loop, 'steps', 0)
            self.transcript.append((step, 'E', b''))
            self.reader.feed_eof()

    def hard_reset(self) -> None:
        """Peer vanished: reads fail with EOF, drains raise."""
        self.broken = True
        self.feed_eof()

    async def _wait_activity(self) -> None:
        self._any_waiter = self.loop.create_future()
        await self._any_waiter

    @property
    def dead(self) -> bool:
        return self.closed or self.task_done

    async def yields(self, n: int) -> None:
        for _ in range(n):
            await asyncio.sleep(0)

    async def greeting(self) -> Resp | None:
        while not self.responses and not self.dead:
            await self._wait_activity()
        if self.responses:
            self._cursor = 1
            return self.responses[0]
        return None

    async def command(self, tag: bytes, segments: list[bytes], *,
                      delay: bool = True) -> Result:
        """Send ``segments`` (the first is the command line incl. CRLF or a
        synchronising literal introducer; each later segment is sent after a
        continuation request) and collect everything up to the tagged
        completion with ``tag``."""
        if delay:
            await self.yields(self.sched.delay(self.cid))
        res = Result(tag, b''.join(segments))
        res.step_call = getattr(self.loop, 'steps', 0)
        self.in_flight = segments[0]
        self.in_flight_tag = tag
        seg_i = 0
        self.feed(segments[0])
        seg_i = 1
        while True:
            while self._cursor < len(self.responses):
                resp = self.responses[self._cursor]
                self._cursor += 1
                if resp.kind == 'tagged' and resp.tag == tag:
                    res.tagged = resp
                    res.step_ret = getattr(self.loop, 'steps', 0)
                    self.in_flight = None
                    self.in_flight_tag = None
                    return res
                if resp.kind == 'cont':
                    res.conts.append(resp)
                    if seg_i < len(segments):
                        if delay:
                            await self.yields(self.sched.delay(self.cid))
                        self.feed(segments[seg_i])
                        seg_i += 1
                    continue
                res.untagged.append(resp)
            if self.dead:
                res.closed = True
                res.step_ret = getattr(self.loop, 'steps', 0)
                return res
            await self._wait_activity()

    async def simple(self, rest: bytes, *, delay: bool = True) -> Result:
        tag = self.next_tag()
        return await self.command(tag, [tag + b' ' + rest + b'\r\n'],
                                  delay=delay)

    async def wait_cont(self) -> Resp | None:
        """Wait for the next continuation request (or death)."""
        while True:
            while self._cursor < len(self.responses):
                resp = self.responses[self._cursor]
                self._cursor += 1
                if resp.kind == 'cont':
                    return resp
                self.stray.append(resp)
            if self.dead:
                return None
            await self._wait_activity()

    def drain_new(self) -> list[Resp]:
        """Responses that arrived since the client last looked."""
        out = self.responses[self._cursor:]
        self._cursor = len(self.responses)
        return out

    async def wait_closed(self) -> None:
        while not self.dead:
            await self._wait_activity()
        # let the server task finish unwinding
        while not self.task_done:
            await self._wait_activity()

    def dump(self, limit: int = 4000) -> list[str]:
        out = []
        for step, d, data in self.transcript:
            s = repr(data if len(data) <= 300 else data[:300] + b'...')
            out.append('%6d %s%d %s' % (step, d, self.cid, s))
        return out[-limit:]


def lit(data: bytes, plus: bool = True) -> bytes:
    """Encode ``data`` as a non-synchronising literal."""
    return b'{%d%s}\r\n' % (len(data), b'+' if plus else b'') + data


def quote(data: bytes) -> bytes:
    return b'"' + data.replace(b'\\', b'\\\\').replace(b'"', b'\\"') + b'"'


def astring(data: bytes) -> bytes:
    """A safe client spelling for any byte string."""
    if data and all(c in grammar._ATOM_CHARS for c in data) \
            and data.upper() != b'NIL':
        return data
    if all(0x20 <= c < 0x7f for c in data):
        return quote(data)
    return lit(data)
