from __future__ import annotations

import importlib
import os
import sys


def main() -> int:
    if os.environ.get('PYTHONHASHSEED') != '0':
        os.environ['PYTHONHASHSEED'] = '0'
        os.execv(sys.executable,
                 [sys.executable, '-m', 'vf'] + sys.argv[1:])
    if len(sys.argv) < 2:
        print('usage: python -m vf <C01..C20> [--tier quick|thorough] '
              '[--replay file]')
        return 64
    pid = sys.argv[1].upper()
    # checks may use third-party helpers installed by setup_cmd
    deps = os.path.join(os.path.dirname(os.path.dirname(
        os.path.abspath(__file__))), '.deps')
    if os.path.isdir(deps) and deps not in sys.path:
        sys.path.append(deps)
    mod = importlib.import_module('vf.checks.' + pid.lower())
    from .runner import main as run_main
    return run_main(mod.CHECK, sys.argv[2:])


if __name__ == '__main__':
    sys.exit(main())
