"""Concurrent multi-session workloads on one mailbox, shared by C01, C02,
C16, C17 (and replayed under C06's oracle).

Every session is a harness task that plays an IMAP client: it decides its next
command from its *own* shadow view and its own PRNG, delays its external
events by amounts drawn from the case's ``Sched`` and records everything at the
client boundary.  Messages carry unique content ids (M7)."""

from __future__ import annotations

import asyncio
import random
from typing import Any

from . import net
from .grammar import Resp
from .net import Conn, Result, Sched
from .servers import Env
from .shadow import Shadow

FLAGS = [b'\\Deleted', b'\\Flagged', b'\\Seen', b'\\Answered', b'\\Draft']
ID_ATTRS = b'(UID FLAGS BODY.PEEK[HEADER.FIELDS (X-VF-ID)])'


def make_msg(cid: bytes, extra: bytes = b'', body: bytes | None = None,
             date: bytes = b'Mon, 01 Jan 2024 10:00:00 +0000') -> bytes:
    if body is None:
        body = b'body of ' + cid + b'\r\n'
    return (b'From: sender-' + cid + b'@example.com\r\n'
            b'To: rcpt@example.com\r\n'
            b'Subject: subject ' + cid + b'\r\n'
            b'Date: ' + date + b'\r\n'
            b'X-VF-ID: ' + cid + b'\r\n' + extra +
            b'\r\n' + body)


class History:

    def __init__(self, case_id: str = 'c') -> None:
        self.case_id = case_id
        self.violations: list[dict[str, Any]] = []
        self.owner: dict[tuple[bytes, int | None, int], bytes] = {}
        self.validity_of: dict[bytes, int] = {}
        self.expunged_hint: list[int] = []     # UIDs some session expunged
        self.ncid = 0
        self.events: list[tuple[int, int, str, bytes]] = []
        self.aborted: str | None = None
        self.ops: dict[str, int] = {}
        self.sessions: list['Session'] = []
        self.order: list[tuple[int, bytes]] = []   # (cid, verb) completion

    def report(self, mech: str, detail: str,
               witness: dict[str, Any] | None = None) -> None:
        if len(self.violations) < 20:
            self.violations.append({'mech': mech, 'detail': detail,
                                    'witness': witness or {}})

    def new_cid(self) -> bytes:
        self.ncid += 1
        return b'm%s-%d' % (self.case_id.encode(), self.ncid)

    def _key(self, mbox: bytes, uid: int,
             validity: int | None) -> tuple[bytes, int | None, int]:
        """(name, UIDVALIDITY, UID) as a client caches it; where the caller
        does not know the UIDVALIDITY the one last seen for the name is
        meant (the same thing unless the mailbox was replaced)."""
        name = mbox.upper() if mbox.upper() == b'INBOX' else mbox
        if validity is None:
            validity = self.validity_of.get(name)
        else:
            self.validity_of[name] = validity
        return name, validity, uid

    def learn(self, mbox: bytes, uid: int, cid: bytes, how: str,
              validity: int | None = None) -> None:
        key = self._key(mbox, uid, validity)
        old = self.owner.get(key)
        if old is not None and old != cid:
            self.report('uid-denotes-two-messages',
                        '%r UIDVALIDITY %r uid %d: %r and %r (%s)' % (
                            mbox, key[1], uid, old, cid, how))
        self.owner[key] = cid

    def lookup(self, mbox: bytes, uid: int,
               validity: int | None = None) -> bytes | None:
        return self.owner.get(self._key(mbox, uid, validity))

    def count(self, what: str) -> None:
        self.ops[what] = self.ops.get(what, 0) + 1

    def attach_transcripts(self, limit: int = 120) -> None:
        import os
        limit = int(os.environ.get("VF_TRANSCRIPT", limit))
        """Put the merged, step-ordered wire transcript into the first
        violation's witness (for hand reproduction)."""
        if not self.violations:
            return
        lines: list[tuple[int, int, str]] = []
        for s in self.sessions:
            for k, (step, d, data) in enumerate(s.conn.transcript):
                txt = repr(data if len(data) <= 200 else data[:200] + b'...')
                lines.append((step, k, '%6d %s%d %s' % (
                    step, d, s.conn.cid, txt)))
        lines.sort()
        self.violations[0].setdefault('witness', {})['transcript'] = \
            [t for _, _, t in lines][-limit:]

    def check_labels(self) -> int:
        """Offline: every FETCH that carried a content id must name the
        message that owns that UID."""
        n = 0
        for s in self.sessions:
            for mbox, uid, cid, step, val in s.labels:
                want = self.lookup(mbox, uid, val)
                if want is None:
                    continue
                n += 1
                if want != cid:
                    self.report(
                        'fetch-label-wrong-message',
                        'session %d was given content %r labelled as UID %d '
                        'of %r, which is %r' % (s.conn.cid, cid, uid, mbox,
                                                want),
                        {'step': step, 'conn': s.conn.cid})
        return n


class Session:

    def __init__(self, env: Env, hist: History, cid: int, sched: Sched,
                 seed: int, user: str = 'testuser', *,
                 peer: tuple[str, int] = ('127.0.0.1', 40000)) -> None:
        self.env = env
        self.hist = hist
        self.conn = Conn(cid, sched, peer=peer)
        self.shadow = Shadow(self.conn, hist.report)
        self.rng = random.Random(seed)
        self.rng_sets = random.Random(seed * 7919 + 13)
        self.user = user
        self.labels: list[tuple[bytes, int, bytes, int, int | None]] = []
        self.results: list[Result] = []
        self.failed: str | None = None
        hist.sessions.append(self)

    # -- plumbing -------------------------------------------------------------

    async def start(self) -> bool:
        self.conn.start(self.env.imap)
        g = await self.conn.greeting()
        if g is None or g.cond != b'OK':
            self.failed = 'no-greeting'
            return False
        r = await self.cmd(b'LOGIN %s %s' % (
            self.user.encode(), self.env.users[self.user].encode()))
        if not r.ok:
            self.failed = 'login-failed'
            return False
        return True

    async def cmd(self, rest: bytes, *, sync: list[bytes] | None = None,
                  delay: bool = True) -> Result:
        tag = self.conn.next_tag()
        segs = [tag + b' ' + rest + (b'' if sync else b'\r\n')]
        if sync:
            segs.extend(sync)
        r = await self.conn.command(tag, segs, delay=delay)
        self.results.append(r)
        self._harvest()
        if r.closed or self.shadow.bye:
            if self.failed is None:
                self.failed = 'closed:%s' % (
                    self.shadow.bye_code.decode() if self.shadow.bye_code
                    else 'nobye' if not self.shadow.bye else 'bye')
        _, _, verb = self._verb(rest)
        self.hist.order.append((self.conn.cid, verb))
        return r

    @staticmethod
    def _verb(rest: bytes) -> tuple[bytes, bool, bytes]:
        parts = rest.split(b' ', 2)
        if parts[0].upper() == b'UID' and len(parts) > 1:
            return b'', True, parts[1].upper()
        return b'', False, parts[0].upper()

    def _harvest(self) -> None:
        mbox = self.shadow.mailbox
        if mbox is None:
            self.shadow.labels.clear()
            return
        for uid, cid, step in self.shadow.labels:
            self.labels.append((mbox, uid, cid, step,
                                self.shadow.uidvalidity))
        self.shadow.labels.clear()

    @property
    def alive(self) -> bool:
        return self.failed is None and not self.conn.dead

    # -- commands -------------------------------------------------------------

    async def select(self, mbox: bytes = b'INBOX', examine: bool = False) \
            -> Result:
        self.shadow.begin_select(mbox, examine)
        r = await self.cmd((b'EXAMINE ' if examine else b'SELECT ') + mbox)
        return r

    async def append(self, mbox: bytes = b'INBOX',
                     flags: list[bytes] | None = None,
                     n: int = 1, sync: bool = False,
                     msgs: list[bytes] | None = None) -> Result:
        cids = [self.hist.new_cid() for _ in range(n)]
        if msgs is None:
            msgs = [make_msg(c) for c in cids]
        rest = b'APPEND ' + mbox
        if sync and n == 1:
            fl = b' (' + b' '.join(flags or []) + b')' if flags else b''
            rest += fl + b' {%d}\r\n' % len(msgs[0])
            r = await self.cmd(rest, sync=[msgs[0] + b'\r\n'])
        else:
            for m in msgs:
                fl = b' (' + b' '.join(flags or []) + b')' if flags else b''
                rest += fl + b' ' + net.lit(m)
            r = await self.cmd(rest)
        if r.ok and r.tagged is not None and r.tagged.code == b'APPENDUID' \
                and isinstance(r.tagged.data, tuple):
            uids = r.tagged.data[1]
            if len(uids) != len(cids):
                self.hist.report('appenduid-count',
                                 '%d uids for %d messages' % (
                                     len(uids), len(cids)))
            for uid, cid in zip(uids, cids):
                self.hist.learn(mbox, uid, cid, 'APPENDUID',
                                r.tagged.data[0])
        self.hist.count('append')
        return r

    def _learn_copyuid(self, resps: list[Resp | None], dest: bytes) -> None:
        src_box = self.shadow.mailbox or b'INBOX'
        for resp in resps:
            if resp is None or resp.code != b'COPYUID' \
                    or not isinstance(resp.data, tuple):
                continue
            dval, src, dst = resp.data
            if len(src) != len(dst):
                self.hist.report('copyuid-length-mismatch',
                                 '%r vs %r' % (src, dst))
                continue
            for s, d in zip(src, dst):
                cid = self.hist.lookup(src_box, s, self.shadow.uidvalidity)
                if cid is not None:
                    self.hist.learn(dest, d, cid, 'COPYUID', dval)

    async def copy(self, seqset: bytes, dest: bytes, uid: bool = False,
                   move: bool = False) -> Result:
        verb = b'MOVE' if move else b'COPY'
        r = await self.cmd((b'UID ' if uid else b'') + verb + b' ' + seqset +
                           b' ' + dest)
        if r.ok:
            self._learn_copyuid([r.tagged] + list(r.untagged), dest)
        self.hist.count('move' if move else 'copy')
        return r

    async def store(self, sset: bytes, uid: bool, mode: bytes, silent: bool,
                    flags: list[bytes]) -> Result:
        """STORE with the bookkeeping a real client does for .SILENT: it
        assumes its own change took effect unless the server says otherwise
        in the same response."""
        from . import seqset
        sh = self.shadow
        positions: list[int] = []
        addressed: list[int] = []
        try:
            if uid:
                addressed = seqset.select_uids(sset, sh.known_uids())
            else:
                positions = seqset.select_seqs(sset, sh.count)
        except ValueError:
            pass
        sh.told_in_cmd = set()
        sh.told_pos_in_cmd = set()
        self.hist.count('store')
        r = await self.cmd((b'UID ' if uid else b'') + b'STORE ' + sset +
                           b' ' + mode + (b'.SILENT' if silent else b'') +
                           b' (' + b' '.join(flags) + b')')
        if r.ok and silent and not sh.readonly:
            fl = frozenset(f.lower() for f in flags) - {b'\\recent'}

            def apply(k: int) -> None:
                old = sh.flags[k]
                if old is None:
                    return
                if mode == b'+FLAGS':
                    sh.flags[k] = old | fl
                elif mode == b'-FLAGS':
                    sh.flags[k] = old - fl
                else:
                    sh.flags[k] = fl | (old & {b'\\recent'})

            if uid and b'*' in sset and any(u is None for u in sh.uids):
                # '*' is the highest UID in the view, which this client does
                # not know: it cannot tell what was addressed
                sh.flags = [None] * sh.count
            elif uid:
                for u in addressed:
                    if u in sh.told_in_cmd or u not in sh.uids:
                        continue
                    apply(sh.uids.index(u))
                # positions whose UID the client does not know may or may
                # not have been addressed: their flags become unknown
                for k, u2 in enumerate(sh.uids):
                    if u2 is None:
                        sh.flags[k] = None
            else:
                # no EXPUNGE may arrive during a non-UID STORE, so positions
                # are stable across the command
                for n in positions:
                    if n <= sh.count and n not in sh.told_pos_in_cmd:
                        apply(n - 1)
        return r

    async def fetch_all(self) -> Result:
        self.hist.count('fetch_all')
        return await self.cmd(b'FETCH 1:* ' + ID_ATTRS)

    async def noop(self) -> Result:
        self.hist.count('noop')
        return await self.cmd(b'NOOP')

    async def idle_begin(self) -> bytes | None:
        """Send IDLE and wait for the continuation request."""
        self.hist.count('idle')
        tag = self.conn.next_tag()
        conn = self.conn
        await conn.yields(conn.sched.delay(conn.cid))
        conn.in_flight = tag + b' IDLE\r\n'
        conn.in_flight_tag = tag
        conn.feed(tag + b' IDLE\r\n')
        cont = await conn.wait_cont()
        if cont is None:
            self.failed = 'closed-in-idle'
            return None
        return tag

    async def idle_end(self, tag: bytes, done: bytes = b'DONE\r\n') \
            -> Result:
        conn = self.conn
        # everything from here to the tagged line is collected by command()
        r = await conn.command(tag, [done], delay=False)
        conn.in_flight = None
        self.results.append(r)
        self._harvest()
        if r.closed and self.failed is None:
            self.failed = 'closed-in-idle'
        self.hist.order.append((conn.cid, b'IDLE'))
        return r

    async def idle(self, hold: int = 0, quiesce: bool = False) -> Result:
        """IDLE, wait for the continuation, hold, DONE."""
        tag = await self.idle_begin()
        if tag is None:
            return Result(b'', b'', closed=True)
        if quiesce:
            await self.conn.loop.quiescent()    # type: ignore[attr-defined]
        await self.conn.yields(hold)
        return await self.idle_end(tag)

    # -- random program step --------------------------------------------------

    def _pick_seqset(self) -> tuple[bytes, bool]:
        """A sequence set drawn from this session's own view; returns
        (set, uid?).  One time in six the set is a comma list of two or
        three such sets in the order drawn (not ascending, overlapping)."""
        rng2 = self.rng_sets
        if rng2.random() < 1 / 6:
            parts = [self._pick_simple_seqset() for _ in range(
                rng2.choice([2, 2, 3]))]
            uid = parts[0][1]
            same = [p for p, u in parts if u == uid and p != b'1:*']
            if len(same) >= 2:
                return b','.join(same), uid
            return parts[0]
        return self._pick_simple_seqset()

    def _pick_simple_seqset(self) -> tuple[bytes, bool]:
        rng = self.rng
        sh = self.shadow
        use_uid = rng.random() < 0.45
        if use_uid:
            known = sh.known_uids()
            pool = list(known)
            # bias: address something another session has just expunged
            if self.hist.expunged_hint and rng.random() < 0.4:
                pool.append(rng.choice(self.hist.expunged_hint))
            if not pool:
                return b'1:*', True
            a = rng.choice(pool)
            r = rng.random()
            if r < 0.5:
                return b'%d' % a, True
            if r < 0.8:
                b = rng.choice(pool)
                return b'%d:%d' % (a, b), True
            return b'%d:*' % a, True
        n = sh.count
        if n == 0:
            return b'1:*', False
        a = rng.randint(1, n)
        r = rng.random()
        if r < 0.5:
            return b'%d' % a, False
        if r < 0.8:
            return b'%d:%d' % (a, rng.randint(1, n)), False
        if r < 0.9:
            return b'%d:*' % a, False
        return b'1:*', False

    async def random_step(self, weights: dict[str, float]) -> None:
        rng = self.rng
        names = list(weights)
        op = rng.choices(names, [weights[k] for k in names])[0]
        hist = self.hist
        if op == 'fetch_all':
            await self.fetch_all()
        elif op == 'fetch_some':
            sset, uid = self._pick_seqset()
            attrs = ID_ATTRS if not uid else \
                b'(FLAGS BODY.PEEK[HEADER.FIELDS (X-VF-ID)])'
            hist.count('fetch_some')
            await self.cmd((b'UID ' if uid else b'') + b'FETCH ' + sset +
                           b' ' + attrs)
        elif op == 'fetch_body':
            sset, uid = self._pick_seqset()
            hist.count('fetch_body')
            await self.cmd((b'UID ' if uid else b'') + b'FETCH ' + sset +
                           b' (UID BODY[HEADER.FIELDS (X-VF-ID)])')
        elif op == 'store':
            sset, uid = self._pick_seqset()
            mode = rng.choice([b'+FLAGS', b'+FLAGS', b'-FLAGS', b'FLAGS'])
            silent = rng.random() < 0.4
            k = 1 if rng.random() < 0.7 else 2
            fl = rng.sample(FLAGS, k)
            if rng.random() < 0.5 and b'\\Deleted' not in fl and \
                    mode != b'-FLAGS':
                fl[0] = b'\\Deleted'
            await self.store(sset, uid, mode, silent, fl)
        elif op == 'expunge':
            hist.count('expunge')
            before = set(self.shadow.known_uids())
            await self.cmd(b'EXPUNGE')
            gone = before - set(self.shadow.known_uids())
            hist.expunged_hint.extend(sorted(gone))
        elif op == 'uid_expunge':
            sset, _ = self._pick_seqset()
            if not sset[:1].isdigit():
                sset = b'1:*'
            hist.count('uid_expunge')
            before = set(self.shadow.known_uids())
            await self.cmd(b'UID EXPUNGE ' + sset)
            gone = before - set(self.shadow.known_uids())
            hist.expunged_hint.extend(sorted(gone))
        elif op == 'copy':
            sset, uid = self._pick_seqset()
            dest = rng.choice([b'INBOX', b'Other'])
            await self.copy(sset, dest, uid=uid)
        elif op == 'move':
            sset, uid = self._pick_seqset()
            before = set(self.shadow.known_uids())
            await self.copy(sset, b'Other', uid=uid, move=True)
            gone = before - set(self.shadow.known_uids())
            hist.expunged_hint.extend(sorted(gone))
        elif op == 'append':
            fl = [rng.choice(FLAGS)] if rng.random() < 0.4 else None
            await self.append(b'INBOX', fl, sync=rng.random() < 0.2)
        elif op == 'search':
            q = rng.choice([b'SEARCH DELETED', b'SEARCH ALL',
                            b'UID SEARCH ALL', b'UID SEARCH UNDELETED',
                            b'SEARCH UNSEEN', b'UID SEARCH 1:*',
                            b'SEARCH FLAGGED NOT DELETED'])
            hist.count('search')
            await self.cmd(q)
        elif op == 'noop':
            await self.noop()
        elif op == 'check':
            hist.count('check')
            await self.cmd(b'CHECK')
        elif op == 'idle':
            await self.idle(hold=rng.randint(0, 12),
                            quiesce=rng.random() < 0.3)
        else:  # pragma: no cover
            raise ValueError(op)


DEFAULT_WEIGHTS = {
    'fetch_all': 3, 'fetch_some': 2, 'fetch_body': 1, 'store': 3.5,
    'expunge': 2.5, 'uid_expunge': 1, 'copy': 1, 'move': 0.8, 'append': 2,
    'search': 1, 'noop': 1, 'check': 0.3, 'idle': 0.8,
}


async def provision(env: Env, hist: History, n_msgs: int,
                    rng: random.Random, user: str = 'testuser') -> bool:
    """Initial mailbox content through a throw-away session."""
    s = Session(env, hist, 0, Sched(), 0, user)
    hist.sessions.remove(s)
    if not await s.start():
        hist.aborted = 'provision-login'
        return False
    r = await s.cmd(b'CREATE Other')
    for _ in range(n_msgs):
        fl = [rng.choice(FLAGS)] if rng.random() < 0.3 else None
        r = await s.append(b'INBOX', fl)
        if not r.ok:
            hist.aborted = 'provision-append'
            return False
    await s.cmd(b'LOGOUT')
    await s.conn.wait_closed()
    return True


async def probe_dump(env: Env, hist: History, mbox: bytes = b'INBOX',
                     user: str = 'testuser', cid: int = 99,
                     body: bool = False) \
        -> dict[int, dict[str, Any]] | None:
    """Ground truth through a fresh read-only session (black box)."""
    conn = Conn(cid, Sched())
    conn.start(env.imap)
    if await conn.greeting() is None:
        return None
    r = await conn.simple(b'LOGIN %s %s' % (
        user.encode(), env.users[user].encode()))
    if not r.ok:
        return None
    r = await conn.simple(b'EXAMINE ' + mbox)
    if not r.ok:
        return None
    attrs = b'(UID FLAGS BODY.PEEK[HEADER.FIELDS (X-VF-ID)]' + \
        (b' BODY.PEEK[] INTERNALDATE RFC822.SIZE' if body else b'') + b')'
    r = await conn.simple(b'UID FETCH 1:* ' + attrs)
    if not r.ok:
        return None
    out: dict[int, dict[str, Any]] = {}
    from .shadow import content_id, norm_flags
    for u in r.untagged:
        if u.typ == b'FETCH' and isinstance(u.data, dict) \
                and b'UID' in u.data:
            out[u.data[b'UID']] = {
                'flags': norm_flags(u.data.get(b'FLAGS', [])) - {b'\\recent'},
                'cid': content_id(u.data),
                'seq': u.num,
                'att': u.data if body else None}
    await conn.simple(b'LOGOUT')
    await conn.wait_closed()
    return out
