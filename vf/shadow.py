"""M5: the shadow client -- what a careful IMAP client keeps about the
selected mailbox -- plus the glass-box cross-check against the server's own
view at every tagged line.

The shadow applies untagged responses strictly in arrival order:
``n EXPUNGE`` removes position n, ``n EXISTS`` grows the mailbox,
``n FETCH`` teaches UID / flags / content id of position n.
Anything the RFC forbids is recorded as a violation with a mechanism id.
"""

from __future__ import annotations

import weakref

import re
from typing import Any, Callable

from .grammar import Resp
from .net import Conn

_cmd_re = re.compile(rb'\A(\S+) +(UID +)?([A-Za-z]+)', re.I)
_vfid_re = re.compile(rb'^X-VF-ID:[ \t]*(\S+)', re.I | re.M)

SYSTEM = (b'\\Answered', b'\\Flagged', b'\\Deleted', b'\\Seen', b'\\Draft')


def parse_cmd(line: bytes | None) -> tuple[bytes, bool, bytes]:
    if not line:
        return b'', False, b''
    m = _cmd_re.match(line)
    if not m:
        return b'', False, b''
    return m.group(1), bool(m.group(2)), m.group(3).upper()


def norm_flags(flags: Any) -> frozenset[bytes]:
    return frozenset(f.lower() for f in flags)


def content_id(att: dict[bytes, Any]) -> bytes | None:
    """Extract the harness' unique content id from any body-ish attribute."""
    for k, v in att.items():
        if not isinstance(v, bytes):
            continue
        if k.startswith((b'BODY[', b'RFC822', b'BINARY[')):
            m = _vfid_re.search(v)
            if m:
                return m.group(1)
    return None


class Shadow:

    def __init__(self, conn: Conn,
                 report: Callable[[str, str, dict[str, Any]], None]) -> None:
        self.conn = conn
        self.report = report
        self.selected = False
        self.selecting = False
        self.readonly = False
        self.mailbox: bytes | None = None
        self.uids: list[int | None] = []
        self.flags: list[frozenset[bytes] | None] = []
        self.recent: int | None = None
        self.uidnext: int | None = None
        self.uidvalidity: int | None = None
        # observations for offline checks: (uid, cid, step)
        self.labels: list[tuple[int, bytes, int]] = []
        self.told_recent: set[int] = set()     # uids told \Recent
        self.told_in_cmd: set[int] = set()     # uids whose FLAGS arrived
        self.told_pos_in_cmd: set[int] = set()
        self.counters = {'expunge': 0, 'exists': 0, 'fetch': 0,
                         'fetch_uid_checked': 0, 'search_checked': 0,
                         'glass': 0, 'glass_unavailable': 0}
        self.pending_exists_after_select: int | None = None
        self.dead = False
        self.bye = False
        self.bye_code: bytes | None = None
        conn.listeners.append(self.on_resp)

    # -- helpers --------------------------------------------------------------

    @property
    def count(self) -> int:
        return len(self.uids)

    def known_uids(self) -> list[int]:
        return [u for u in self.uids if u is not None]

    def _v(self, mech: str, detail: str, resp: Resp | None = None) -> None:
        self.report(mech, detail, {
            'conn': self.conn.cid,
            'in_flight': self.conn.in_flight,
            'resp': resp.raw[:300] if resp is not None else None,
            'shadow_uids': list(self.uids)})

    def begin_select(self, mailbox: bytes, readonly: bool) -> None:
        self.selected = False
        self.selecting = True
        self.readonly = readonly
        self.mailbox = mailbox
        self.uids = []
        self.flags = []
        self.recent = None
        self.told_recent = set()

    def deselect(self) -> None:
        self.selected = False
        self.selecting = False
        self.uids = []
        self.flags = []
        self.mailbox = None

    # -- the listener ---------------------------------------------------------

    def on_resp(self, resp: Resp) -> None:
        tag, uid_cmd, verb = parse_cmd(self.conn.in_flight)
        if resp.kind == 'untagged':
            if resp.cond == b'BYE':
                self.bye = True
                self.bye_code = resp.code
                return
            if resp.cond is not None:
                if resp.code == b'UIDNEXT':
                    self.uidnext = resp.data
                elif resp.code == b'UIDVALIDITY':
                    self.uidvalidity = resp.data
                return
            if resp.typ == b'EXISTS':
                self._exists(resp)
            elif resp.typ == b'EXPUNGE':
                self._expunge(resp, uid_cmd, verb)
            elif resp.typ == b'RECENT':
                self.recent = resp.num
            elif resp.typ == b'FETCH':
                self._fetch(resp)
            elif resp.typ == b'SEARCH':
                self._search(resp, uid_cmd, verb)
        elif resp.kind == 'tagged':
            if verb in (b'SELECT', b'EXAMINE') and resp.tag == tag:
                self.selecting = False
                if resp.cond == b'OK':
                    self.selected = True
                else:
                    self.deselect()
            elif verb == b'CLOSE' and resp.tag == tag and resp.cond == b'OK':
                self.deselect()
            if self.selected:
                self.glass_check(resp)

    def _exists(self, resp: Resp) -> None:
        n = resp.num or 0
        self.counters['exists'] += 1
        if not (self.selected or self.selecting):
            self._v('exists-while-not-selected', '%d' % n, resp)
            return
        if n < self.count:
            self._v('exists-shrinks', 'EXISTS %d < count %d' % (n, self.count),
                    resp)
            return
        grow = n - self.count
        self.uids.extend([None] * grow)
        self.flags.extend([None] * grow)

    def _expunge(self, resp: Resp, uid_cmd: bool, verb: bytes) -> None:
        n = resp.num or 0
        self.counters['expunge'] += 1
        if not self.selected:
            self._v('expunge-while-not-selected', '%d' % n, resp)
            return
        if verb in (b'FETCH', b'STORE', b'SEARCH') and not uid_cmd:
            self._v('expunge-during-nonuid-command',
                    'EXPUNGE %d while answering %r' % (
                        n, self.conn.in_flight), resp)
        if not 1 <= n <= self.count:
            self._v('expunge-out-of-range',
                    'EXPUNGE %d with count %d' % (n, self.count), resp)
            return
        del self.uids[n - 1]
        del self.flags[n - 1]

    def _fetch(self, resp: Resp) -> None:
        n = resp.num or 0
        att = resp.data or {}
        self.counters['fetch'] += 1
        if not self.selected:
            self._v('fetch-while-not-selected', '%d' % n, resp)
            return
        if not 1 <= n <= self.count:
            self._v('fetch-out-of-range',
                    'FETCH %d with count %d' % (n, self.count), resp)
            return
        uid = att.get(b'UID')
        cid = content_id(att)
        if uid is not None:
            have = self.uids[n - 1]
            if have is None:
                # learning: UIDs are strictly ascending by position
                self.uids[n - 1] = uid
                self._check_ascending(n, resp)
            else:
                self.counters['fetch_uid_checked'] += 1
                if have != uid:
                    self._v('fetch-uid-mismatch',
                            'position %d is UID %d for the client, response '
                            'says UID %d' % (n, have, uid), resp)
        eff_uid = uid if uid is not None else self.uids[n - 1]
        if cid is not None and eff_uid is not None:
            self.labels.append((eff_uid, cid, getattr(
                self.conn.loop, 'steps', 0)))
        if b'FLAGS' in att:
            fl = norm_flags(att[b'FLAGS'])
            self.flags[n - 1] = fl
            self.told_pos_in_cmd.add(n)
            if eff_uid is not None:
                self.told_in_cmd.add(eff_uid)
            if b'\\recent' in fl and eff_uid is not None:
                self.told_recent.add(eff_uid)

    def _check_ascending(self, n: int, resp: Resp) -> None:
        uid = self.uids[n - 1]
        assert uid is not None
        for k in range(n - 2, -1, -1):
            if self.uids[k] is not None:
                if self.uids[k] >= uid:  # type: ignore[operator]
                    self._v('uids-not-ascending',
                            'pos %d uid %r >= pos %d uid %d' % (
                                k + 1, self.uids[k], n, uid), resp)
                break
        for k in range(n, self.count):
            if self.uids[k] is not None:
                if self.uids[k] <= uid:  # type: ignore[operator]
                    self._v('uids-not-ascending',
                            'pos %d uid %r <= pos %d uid %d' % (
                                k + 1, self.uids[k], n, uid), resp)
                break

    def _search(self, resp: Resp, uid_cmd: bool, verb: bytes) -> None:
        nums = resp.data or []
        if not self.selected:
            return
        self.counters['search_checked'] += 1
        if uid_cmd:
            if all(u is not None for u in self.uids):
                known = set(self.uids)
                for u in nums:
                    if u not in known:
                        self._v('search-uid-not-in-view',
                                'UID SEARCH returned %d, view %r' % (
                                    u, self.uids), resp)
                        break
        else:
            for k in nums:
                if not 1 <= k <= self.count:
                    self._v('search-seq-out-of-range',
                            'SEARCH returned %d with count %d' % (
                                k, self.count), resp)
                    break

    # -- glass box ------------------------------------------------------------

    def glass_check(self, resp: Resp) -> None:
        ref = getattr(self.conn, 'state_ref', None)
        state = ref() if ref is not None else None
        try:
            sel = state._selected
            if sel is None:
                self._v('server-not-selected',
                        'client believes a mailbox is selected', resp)
                return
            srv = list(sel.messages._sorted)
        except AttributeError:
            self.counters['glass_unavailable'] += 1
            return
        self.counters['glass'] += 1
        if len(srv) != self.count:
            self._v('view-count-diverged',
                    'client count %d, server count %d (server %r)' % (
                        self.count, len(srv), srv), resp)
            return
        for k, (mine, theirs) in enumerate(zip(self.uids, srv)):
            if mine is not None and mine != theirs:
                self._v('view-mapping-diverged',
                        'position %d: client UID %d, server UID %d '
                        '(server %r)' % (k + 1, mine, theirs, srv), resp)
                return


def install_glass() -> bool:
    """Rebind ``pymap.imap.ConnectionState`` to a subclass that links each
    instance to the harness connection it serves (no repository edit)."""
    try:
        import pymap.imap as pi
        from pymap.context import socket_info
        base = pi.ConnectionState
        if getattr(base, '_vf_rec', False):
            return True

        class RecState(base):  # type: ignore[misc, valid-type]
            _vf_rec = True

            def __init__(self, *a: Any, **kw: Any) -> None:
                super().__init__(*a, **kw)
                try:
                    writer = socket_info.get()._transport
                    # weak: the harness must not keep the state (and with
                    # it the selection) of a finished connection alive
                    writer.conn.state_ref = weakref.ref(self)
                except Exception:
                    pass

        pi.ConnectionState = RecState
        return True
    except Exception:
        return False
