"""M9: fork-per-crash-point driver for the maildir backend.

A *history* is a list of high-level operations executed by one client over a
real IMAPServer on a maildir store.  The child process

* provisions the store (not monitored),
* starts the audit-hook monitor with ``kill_at=k`` (``os._exit(77)`` right
  before the k-th mutating filesystem operation executes) or ``fail_at=k``
  (that operation raises OSError instead, "did not happen" semantics),
* logs every command start and every acknowledged effect to a log fd opened
  before the monitor (os.write, not buffered, so the log survives the kill).

The parent then forks a *restart* child that builds a brand-new backend on the
same directory, ages stale lock files (models "time passes"), dumps
everything through IMAP and appends one more message per mailbox.

``judge`` compares the dump with the model state after the acknowledged
prefix and the in-flight command."""

from __future__ import annotations

import errno
import hashlib
import json
import os
import random
import signal
import time
from typing import Any

from . import loop as L
from .fsmon import MON
from .net import Conn, Sched, astring, lit
from .servers import make_maildir
from .shadow import content_id
from .workload import make_msg

USER = {'u1': 'pw1'}


def msg_bytes(cid: str, variant: int = 0) -> bytes:
    c = cid.encode()
    if variant % 3 == 1:
        return make_msg(c, body=b'line one\r\nline two of ' + c + b'\r\n')
    if variant % 3 == 2:
        return make_msg(c, extra=b'X-Pad: ' + b'p' * 300 + b'\r\n',
                        body=b'x' * 1500 + b'\r\n')
    return make_msg(c)


def gen_history(rng: random.Random, n: int, *, ops: tuple[str, ...] = (
        'append', 'multiappend', 'store', 'copy', 'move', 'expunge',
        'create', 'rename', 'subscribe', 'check', 'unsubscribe'),
        must: tuple[str, ...] = ()) -> list[dict[str, Any]]:
    """Operations refer to messages by content id; UIDs are resolved at run
    time from what was acknowledged."""
    hist: list[dict[str, Any]] = []
    boxes = ['INBOX']
    known: dict[str, list[str]] = {'INBOX': []}
    ncid = 0
    # always start with something to work on
    plan = ['append', 'append'] + list(must) + \
        [rng.choice(ops) for _ in range(n)]
    for op in plan:
        box = rng.choice(boxes)
        if op == 'append' or (op in ('store', 'copy', 'move', 'expunge')
                              and not known[box]):
            ncid += 1
            cid = 'h%d' % ncid
            hist.append({'op': 'append', 'mbox': box, 'cids': [cid],
                         'flags': rng.sample(['\\Seen', '\\Flagged',
                                              '\\Draft'], rng.randint(0, 2))})
            known[box].append(cid)
        elif op == 'multiappend':
            cids = []
            for _ in range(rng.randint(2, 3)):
                ncid += 1
                cids.append('h%d' % ncid)
            hist.append({'op': 'append', 'mbox': box, 'cids': cids,
                         'flags': []})
            known[box] += cids
        elif op == 'store':
            cids = rng.sample(known[box], rng.randint(1, min(2, len(
                known[box]))))
            hist.append({'op': 'store', 'mbox': box, 'cids': cids,
                         'mode': rng.choice(['+FLAGS', '-FLAGS', 'FLAGS']),
                         'flags': rng.sample(['\\Seen', '\\Flagged',
                                              '\\Answered', '\\Deleted'],
                                             rng.randint(1, 2))})
        elif op in ('copy', 'move'):
            dest = rng.choice(boxes)
            if op == 'move' and dest == box:
                others = [b for b in boxes if b != box]
                if not others:
                    op = 'copy'
                else:
                    dest = rng.choice(others)
            cids = rng.sample(known[box], rng.randint(1, min(3, len(
                known[box]))))
            hist.append({'op': op, 'mbox': box, 'cids': cids, 'dest': dest})
            known[dest] += cids if op == 'copy' or dest != box else []
            if op == 'move':
                for c in cids:
                    if c in known[box] and dest != box:
                        known[box].remove(c)
        elif op == 'expunge':
            cids = rng.sample(known[box], 1)
            hist.append({'op': 'store', 'mbox': box, 'cids': cids,
                         'mode': '+FLAGS', 'flags': ['\\Deleted']})
            hist.append({'op': 'expunge', 'mbox': box})
        elif op == 'create':
            name = rng.choice(['Work', 'Arch', 'Work/Sub', 'Lists', 'Tmp'])
            if name not in boxes:
                hist.append({'op': 'create', 'name': name})
                boxes.append(name)
                known[name] = []
                for par in _parents(name):
                    if par not in boxes:
                        boxes.append(par)
                        known[par] = []
        elif op == 'rename':
            cands = [b for b in boxes if b != 'INBOX' and '/' not in b
                     and not any(x.startswith(b + '/') for x in boxes)]
            if cands:
                a = rng.choice(cands)
                b = a + 'R'
                if b not in boxes:
                    hist.append({'op': 'rename', 'a': a, 'b': b})
                    boxes[boxes.index(a)] = b
                    known[b] = known.pop(a)
        elif op in ('subscribe', 'unsubscribe'):
            hist.append({'op': op, 'name': box})
        elif op == 'check':
            # every other CHECK runs in a read-only selection: messages
            # appended while the mailbox was not selected are then still
            # unclaimed (maildir: in new/) when the housekeeping runs
            hist.append({'op': 'check', 'mbox': box,
                         'examine': (len(hist) + ncid) % 2 == 0})
    return hist


def _parents(name: str) -> list[str]:
    parts = name.split('/')
    return ['/'.join(parts[:k]) for k in range(1, len(parts))]


class Client:
    """Runs a history; resolves content ids to UIDs from acknowledgements."""

    def __init__(self, conn: Conn, logfd: int) -> None:
        self.c = conn
        self.fd = logfd
        self.selected: str | None = None
        # acknowledged view: mailbox -> {cid-instance: uid}
        self.uids: dict[str, list[tuple[str, int]]] = {}
        self.validity: dict[str, int] = {}

    def log(self, rec: dict[str, Any]) -> None:
        os.write(self.fd, (json.dumps(rec) + '\n').encode())

    async def select(self, box: str) -> bool:
        if self.selected == box:
            return True
        r = await self.c.simple(b'SELECT ' + astring(box.encode()))
        self.selected = box if r.ok else None
        for u in r.untagged:
            if u.code == b'UIDVALIDITY':
                self.validity[box] = u.data
        return r.ok

    def uidset(self, box: str, cids: list[str]) -> tuple[bytes, list[int]]:
        have = self.uids.get(box, [])
        out = []
        for cid in cids:
            for c, u in have:
                if c == cid and u not in out:
                    out.append(u)
                    break
        return b','.join(b'%d' % u for u in out), out

    async def run_op(self, i: int, op: dict[str, Any]) -> None:
        kind = op['op']
        rec: dict[str, Any] = {'i': i, 'op': op}
        if kind == 'check' and op.get('examine'):
            r0 = await self.c.simple(b'EXAMINE ' +
                                     astring(op['mbox'].encode()))
            self.selected = None
            if not r0.ok:
                rec['skipped'] = 'select-failed'
                self.log(rec)
                return
        elif kind in ('store', 'copy', 'move', 'expunge', 'check'):
            if not await self.select(op['mbox']):
                rec['skipped'] = 'select-failed'
                self.log(rec)
                return
        if kind in ('store', 'copy', 'move'):
            sset, ulist = self.uidset(op['mbox'], op['cids'])
            if not ulist:
                rec['skipped'] = 'no-uids'
                self.log(rec)
                return
            rec['uids'] = ulist
        if kind == 'append':
            rec['validity_known'] = self.validity.get(op['mbox'])
        self.log(dict(rec, start=True))
        c = self.c
        if kind == 'append':
            rest = b'APPEND ' + astring(op['mbox'].encode())
            for k, cid in enumerate(op['cids']):
                fl = (' (' + ' '.join(op['flags']) + ')').encode() \
                    if op['flags'] else b''
                rest += fl + b' ' + lit(msg_bytes(cid, k))
            r = await c.simple(rest)
            if r.ok and r.tagged is not None and \
                    r.tagged.code == b'APPENDUID' and \
                    isinstance(r.tagged.data, tuple):
                rec['validity'], rec['new_uids'] = r.tagged.data
                self.validity[op['mbox']] = rec['validity']
                for cid, u in zip(op['cids'], rec['new_uids']):
                    self.uids.setdefault(op['mbox'], []).append((cid, u))
        elif kind == 'store':
            r = await c.simple(b'UID STORE ' + sset + b' ' +
                               op['mode'].encode() + b'.SILENT (' +
                               ' '.join(op['flags']).encode() + b')')
        elif kind in ('copy', 'move'):
            verb = b'UID COPY ' if kind == 'copy' else b'UID MOVE '
            r = await c.simple(verb + sset + b' ' +
                               astring(op['dest'].encode()))
            code = None
            for x in [r.tagged] + list(r.untagged):
                if x is not None and x.code == b'COPYUID' and \
                        isinstance(x.data, tuple):
                    code = x.data
            if r.ok and code is not None:
                rec['validity'], rec['src'], rec['dst'] = code
                self.validity[op['dest']] = code[0]
                src_map = dict((u, cid) for cid, u in
                               self.uids.get(op['mbox'], []))
                for s_u, d_u in zip(code[1], code[2]):
                    cid = src_map.get(s_u)
                    if cid is not None:
                        self.uids.setdefault(op['dest'], []).append(
                            (cid, d_u))
            if r.ok and kind == 'move':
                gone = set(rec['uids'])
                self.uids[op['mbox']] = [
                    (cid, u) for cid, u in self.uids.get(op['mbox'], [])
                    if u not in gone or (op['dest'] == op['mbox'])]
        elif kind == 'expunge':
            r = await c.simple(b'EXPUNGE')
        elif kind == 'check':
            r = await c.simple(b'CHECK')
        elif kind == 'create':
            r = await c.simple(b'CREATE ' + astring(op['name'].encode()))
        elif kind == 'rename':
            r = await c.simple(b'RENAME ' + astring(op['a'].encode()) + b' '
                               + astring(op['b'].encode()))
            if r.ok:
                if self.selected == op['a']:
                    self.selected = None
                if op['a'] in self.uids:
                    self.uids[op['b']] = self.uids.pop(op['a'])
                if op['a'] in self.validity:
                    self.validity[op['b']] = self.validity.pop(op['a'])
        elif kind == 'delete':
            r = await c.simple(b'DELETE ' + astring(op['name'].encode()))
        elif kind in ('subscribe', 'unsubscribe'):
            r = await c.simple(kind.upper().encode() + b' ' +
                               astring(op['name'].encode()))
        else:  # pragma: no cover
            raise ValueError(kind)
        rec['cond'] = (r.cond or b'').decode() or (
            'closed' if r.closed else '?')
        if r.tagged is not None and r.tagged.code:
            rec['code'] = r.tagged.code.decode()
        self.log(rec)
        if c.dead:
            self.selected = None


def child_run(root: str, layout: str, history: list[dict[str, Any]],
              logpath: str, kill_at: int | None, fail_at: int | None,
              fail_errno: int = errno.ENOSPC,
              kill_after: int | None = None) -> None:
    """Runs in a forked child; never returns."""
    code = 0
    try:
        fd = os.open(logpath, os.O_WRONLY | os.O_CREAT | os.O_APPEND, 0o600)
        MON.install()
        MON.record = False

        async def main(loop: L.CtlLoop) -> None:
            env = await make_maildir(USER, root=root, layout=layout,
                                     provision=True)
            c = Conn(1, Sched())
            c.start(env.imap)
            await c.greeting()
            await c.simple(b'LOGIN u1 pw1')
            cl = Client(c, fd)
            MON.kill_at = kill_at
            MON.kill_after = kill_after
            MON.kinds = []
            MON.fail_at = fail_at
            MON.fail_errno = fail_errno
            MON.mut_count = 0
            MON.start(root)
            for i, op in enumerate(history):
                if c.dead:
                    # reconnect (a command may have ended the connection)
                    MON.active = False
                    c = Conn(2 + i, Sched())
                    c.start(env.imap)
                    await c.greeting()
                    await c.simple(b'LOGIN u1 pw1')
                    cl.c = c
                    cl.selected = None
                    MON.active = True
                await cl.run_op(i, op)
            MON.active = False
            os.write(fd, (json.dumps({'done': True,
                                      'kinds': MON.kinds,
                                      'mutating_ops': MON.mut_count,
                                      'injected': MON.failed_injected})
                          + '\n').encode())
        L.run(main, max_steps=3_000_000)
    except BaseException as exc:   # pragma: no cover
        try:
            os.write(fd, (json.dumps({'harness_error': repr(exc)})
                          + '\n').encode())
        except Exception:
            pass
        code = 3
    finally:
        os._exit(code)


def child_restart(root: str, layout: str, outpath: str,
                  boxes_hint: list[str]) -> None:
    """Brand-new backend on the crashed directory; dump through IMAP."""
    code = 0
    try:
        now = time.time()
        for dirpath, _, files in os.walk(root):
            for fn in files:
                if fn.endswith('.lock'):
                    p = os.path.join(dirpath, fn)
                    os.utime(p, (now - 100000, now - 100000))
        out: dict[str, Any] = {'boxes': {}, 'errors': []}

        async def main(loop: L.CtlLoop) -> None:
            env = await make_maildir(USER, root=root, layout=layout,
                                     provision=False)
            c = Conn(1, Sched())
            c.start(env.imap)
            await c.greeting()
            r = await c.simple(b'LOGIN u1 pw1')
            if not r.ok:
                out['errors'].append('login: %r' % (
                    r.tagged.raw if r.tagged else 'closed'))
                return
            r = await c.simple(b'LIST "" *')
            if not r.ok:
                out['errors'].append('list failed')
            names = [(u.data or {}).get('name', b'').decode('latin-1')
                     for u in r.untagged if u.typ == b'LIST' and
                     b'\\Noselect' not in (u.data or {}).get('attrs', [])]
            out['list'] = sorted(names)
            r = await c.simple(b'LSUB "" *')
            out['lsub'] = sorted(
                (u.data or {}).get('name', b'').decode('latin-1')
                for u in r.untagged if u.typ == b'LSUB')
            if not r.ok:
                out['errors'].append('lsub failed')
            prev: str | None = None
            for name in sorted(set(names) | set(boxes_hint)):
                if c.dead:
                    # the previous mailbox killed the connection: note it
                    # there and carry on with a fresh connection
                    await c.loop.quiescent()   # type: ignore[attr-defined]
                    if prev is not None:
                        out['boxes'][prev]['killed_connection'] = \
                            repr(c.task_exc)
                    c = Conn(c.cid + 1, Sched())
                    c.start(env.imap)
                    await c.greeting()
                    r = await c.simple(b'LOGIN u1 pw1')
                    if not r.ok:
                        out['errors'].append('re-login failed')
                        break
                prev = name
                box: dict[str, Any] = {}
                wname = astring(name.encode('latin-1'))
                r = await c.simple(b'STATUS ' + wname +
                                   b' (MESSAGES UIDNEXT UIDVALIDITY)')
                box['status_cond'] = (r.cond or b'closed').decode()
                for u in r.untagged:
                    if u.typ == b'STATUS' and u.data:
                        box['status'] = {k.decode(): v for k, v in
                                         u.data['att'].items()}
                r = await c.simple(b'SELECT ' + wname)
                box['select_cond'] = (r.cond or b'closed').decode()
                if r.ok:
                    for u in r.untagged:
                        if u.code == b'UIDVALIDITY':
                            box['validity'] = u.data
                        if u.code == b'UIDNEXT':
                            box['uidnext'] = u.data
                    r = await c.simple(
                        b'UID FETCH 1:* (UID FLAGS BODY.PEEK[])')
                    box['fetch_cond'] = (r.cond or b'closed').decode()
                    msgs = []
                    for u in r.untagged:
                        if u.typ == b'FETCH' and isinstance(u.data, dict) \
                                and b'UID' in u.data:
                            body = u.data.get(b'BODY[]')
                            cidb = content_id(u.data)
                            msgs.append({
                                'uid': u.data[b'UID'],
                                'flags': sorted(
                                    f.decode().lower() for f in
                                    u.data.get(b'FLAGS', [])
                                    if f.lower() != b'\\recent'),
                                'cid': cidb.decode() if cidb else None,
                                'sha': hashlib.sha1(body or b'').hexdigest(),
                                'len': len(body or b'')})
                    box['msgs'] = msgs
                    # one more message: its UID must exceed everything
                    r = await c.simple(b'APPEND ' + wname + b' ' +
                                       lit(msg_bytes('post-restart')))
                    box['append_cond'] = (r.cond or b'closed').decode()
                    if r.ok and r.tagged is not None and \
                            isinstance(r.tagged.data, tuple):
                        box['append_validity'] = r.tagged.data[0]
                        box['append_uid'] = r.tagged.data[1][0]
                out['boxes'][name] = box
            # what a user does with a mailbox that does not open: create it
            # again.  A CREATE that is answered OK is an acknowledged
            # creation, the mailbox must open then.
            for name, box in list(out['boxes'].items()):
                if box.get('select_cond') == 'OK':
                    continue
                if c.dead:
                    await c.loop.quiescent()   # type: ignore[attr-defined]
                    c = Conn(c.cid + 1, Sched())
                    c.start(env.imap)
                    await c.greeting()
                    if not (await c.simple(b'LOGIN u1 pw1')).ok:
                        break
                wname = astring(name.encode('latin-1'))
                r = await c.simple(b'CREATE ' + wname)
                box['recreate_cond'] = (r.cond or b'closed').decode()
                if r.ok:
                    r = await c.simple(b'SELECT ' + wname)
                    box['select_after_recreate'] = (
                        r.cond or b'closed').decode()
            if not c.dead:
                await c.simple(b'LOGOUT')
        try:
            L.run(main, max_steps=3_000_000)
        except BaseException as exc:
            out['errors'].append('restart run: %r' % exc)
        with open(outpath, 'w') as f:
            json.dump(out, f)
    except BaseException:   # pragma: no cover
        code = 3
    finally:
        os._exit(code)


def fork_wait(fn: Any, args: tuple[Any, ...], timeout: float = 60.0) -> int:
    """Fork, run fn(*args) (which must os._exit), wait with a wall-clock
    watchdog.  Returns the exit status (77 = killed at crash point,
    -1 = watchdog)."""
    pid = os.fork()
    if pid == 0:
        fn(*args)
        os._exit(4)     # pragma: no cover
    deadline = time.monotonic() + timeout
    while True:
        done, st = os.waitpid(pid, os.WNOHANG)
        if done:
            return os.waitstatus_to_exitcode(st)
        if time.monotonic() > deadline:
            try:
                os.kill(pid, signal.SIGKILL)
            except ProcessLookupError:
                pass
            os.waitpid(pid, 0)
            return -1
        time.sleep(0.002)


def read_log(path: str) -> list[dict[str, Any]]:
    out = []
    try:
        with open(path) as f:
            for line in f:
                try:
                    out.append(json.loads(line))
                except json.JSONDecodeError:
                    pass    # torn last line
    except FileNotFoundError:
        pass
    return out


# -- the model ----------------------------------------------------------------

class Model:
    """State after the acknowledged prefix + the in-flight command."""

    def __init__(self) -> None:
        # box -> {'validity': int|None, 'msgs': {uid: {'cid','flags'}},
        #         'max_uid': int}
        self.boxes: dict[str, dict[str, Any]] = {
            'INBOX': {'validity': None, 'msgs': {}, 'max_uid': 0}}
        self.subs: set[str] = set()
        self.inflight: dict[str, Any] | None = None
        self.acked = 0

    def box(self, name: str) -> dict[str, Any]:
        return self.boxes.setdefault(
            name, {'validity': None, 'msgs': {}, 'max_uid': 0})

    def apply_log(self, log: list[dict[str, Any]]) -> None:
        started: dict[int, dict[str, Any]] = {}
        for rec in log:
            if 'i' not in rec:
                continue
            if rec.get('start'):
                started[rec['i']] = rec
                continue
            started.pop(rec['i'], None)
            if rec.get('skipped') or rec.get('cond') != 'OK':
                continue
            self.acked += 1
            self._apply(rec)
        if started:
            self.inflight = started[max(started)]

    def _apply(self, rec: dict[str, Any]) -> None:
        op = rec['op']
        kind = op['op']
        if kind == 'append':
            b = self.box(op['mbox'])
            if 'new_uids' in rec:
                b['validity'] = rec['validity']
                for cid, u in zip(op['cids'], rec['new_uids']):
                    b['msgs'][u] = {'cid': cid, 'flags': sorted(
                        f.lower() for f in op['flags'])}
                    b['max_uid'] = max(b['max_uid'], u)
        elif kind == 'store':
            b = self.box(op['mbox'])
            fl = {f.lower() for f in op['flags']}
            for u in rec.get('uids', []):
                m = b['msgs'].get(u)
                if m is None:
                    continue
                cur = set(m['flags'])
                if op['mode'] == '+FLAGS':
                    cur |= fl
                elif op['mode'] == '-FLAGS':
                    cur -= fl
                else:
                    cur = set(fl)
                m['flags'] = sorted(cur)
        elif kind in ('copy', 'move'):
            src = self.box(op['mbox'])
            dst = self.box(op['dest'])
            if 'dst' in rec:
                dst['validity'] = rec['validity']
                for s_u, d_u in zip(rec['src'], rec['dst']):
                    m = src['msgs'].get(s_u)
                    if m is not None:
                        dst['msgs'][d_u] = {'cid': m['cid'],
                                            'flags': list(m['flags'])}
                        dst['max_uid'] = max(dst['max_uid'], d_u)
            if kind == 'move':
                for u in rec.get('src', rec.get('uids', [])):
                    src['msgs'].pop(u, None)
        elif kind == 'expunge':
            b = self.box(op['mbox'])
            for u in [u for u, m in b['msgs'].items()
                      if '\\deleted' in m['flags']]:
                del b['msgs'][u]
        elif kind == 'create':
            self.box(op['name'])
        elif kind == 'rename':
            if op['a'] in self.boxes:
                self.boxes[op['b']] = self.boxes.pop(op['a'])
        elif kind == 'delete':
            self.boxes.pop(op['name'], None)
        elif kind == 'subscribe':
            self.subs.add(op['name'])
        elif kind == 'unsubscribe':
            self.subs.discard(op['name'])


def judge(model: Model, dump: dict[str, Any],
          report: Any, counters: dict[str, int]) -> None:
    """Compare a restart dump with the model (DESIGN 4/C15)."""
    def cnt(k: str, n: int = 1) -> None:
        counters[k] = counters.get(k, 0) + n

    infl = model.inflight
    iop = infl['op'] if infl else None
    ikind = iop['op'] if iop else None
    for err in dump.get('errors', []):
        report('restart-failed', err)
    listed = set(dump.get('list', []))
    # boxes the in-flight command may remove / rename / create
    maybe_gone: set[str] = set()
    maybe_new: set[str] = set()
    if ikind == 'rename':
        maybe_gone.add(iop['a'])
        maybe_new.add(iop['b'])
    elif ikind == 'delete':
        maybe_gone.add(iop['name'])
    elif ikind == 'create':
        maybe_new.add(iop['name'])
        maybe_new.update(_parents(iop['name']))
    for name in sorted(maybe_new - set(model.boxes)):
        # never acknowledged, so nothing is owed - except that a CREATE
        # answered OK after the restart must give a mailbox that opens
        d = dump['boxes'].get(name) or {}
        if d and d.get('select_cond') != 'OK':
            cnt('inflight_mailbox_unusable')
            if d.get('recreate_cond') == 'OK':
                cnt('inflight_mailbox_created_again')
                if d.get('select_after_recreate') != 'OK':
                    report('create-ok-but-mailbox-does-not-open',
                           '%r was half created when the server died; after '
                           'the restart CREATE %r is answered OK and SELECT '
                           '%s' % (name, name,
                                   d.get('select_after_recreate')))
    for name, b in model.boxes.items():
        cnt('mailboxes_checked')
        src_name = name
        if name not in listed:
            if name in maybe_gone and ikind == 'rename' and \
                    iop['b'] in listed:
                src_name = iop['b']     # the rename took effect
            elif name in maybe_gone:
                continue
            else:
                report('acked-mailbox-missing',
                       'mailbox %r does not exist after restart (LIST %r)'
                       % (name, sorted(listed)))
                continue
        d = dump['boxes'].get(src_name) or {}
        if (d.get('select_cond') != 'OK' or d.get('status_cond') != 'OK'
                or d.get('fetch_cond') != 'OK') and (
                    name in maybe_new or src_name in maybe_new):
            # a mailbox whose creation was in flight and never acknowledged
            cnt('inflight_mailbox_unusable')
            if d.get('recreate_cond') == 'OK':
                cnt('inflight_mailbox_created_again')
                if d.get('select_after_recreate') != 'OK':
                    report('create-ok-but-mailbox-does-not-open',
                           '%r was half created when the server died; after '
                           'the restart CREATE %r is answered OK and SELECT '
                           '%s' % (src_name, src_name,
                                   d.get('select_after_recreate')))
            continue
        if d.get('select_cond') != 'OK' or d.get('status_cond') != 'OK' \
                or d.get('fetch_cond') != 'OK':
            report('mailbox-does-not-open',
                   '%r: STATUS %s SELECT %s FETCH %s' % (
                       src_name, d.get('status_cond'), d.get('select_cond'),
                       d.get('fetch_cond')))
            continue
        same_validity = b['validity'] is None or \
            d.get('validity') == b['validity']
        if b['validity'] is not None and not same_validity:
            cnt('uidvalidity_changed')
        by_uid = {m['uid']: m for m in d.get('msgs', [])}
        by_cid: dict[str, list[dict[str, Any]]] = {}
        for m in d.get('msgs', []):
            by_cid.setdefault(m['cid'] or '?', []).append(m)
        if len(by_uid) != len(d.get('msgs', [])):
            report('duplicate-uid-after-restart', '%r: %r' % (
                src_name, [m['uid'] for m in d['msgs']]))
        # 1. acknowledged messages
        removable: set[int] = set()
        restorable: dict[int, set[tuple[str, ...]]] = {}
        if infl and iop.get('mbox') == name:
            if ikind == 'move':
                removable |= set(infl.get('uids', []))
            elif ikind == 'expunge':
                removable |= {u for u, m in b['msgs'].items()
                              if '\\deleted' in m['flags']}
            elif ikind == 'store':
                fl = {f.lower() for f in iop['flags']}
                for u in infl.get('uids', []):
                    m = b['msgs'].get(u)
                    if m is None:
                        continue
                    cur = set(m['flags'])
                    new = cur | fl if iop['mode'] == '+FLAGS' else \
                        cur - fl if iop['mode'] == '-FLAGS' else set(fl)
                    restorable[u] = {tuple(sorted(cur)), tuple(sorted(new))}
        for u, m in b['msgs'].items():
            cnt('acked_messages_checked')
            want = msg_sha(m['cid'])
            got = by_uid.get(u) if same_validity else None
            if got is None and not same_validity:
                cands = by_cid.get(m['cid'], [])
                got = cands[0] if cands else None
            if got is None:
                if u in removable:
                    continue
                # maybe present under another UID (UID not kept)
                cands = by_cid.get(m['cid'], [])
                if cands and same_validity:
                    report('acked-message-changed-uid',
                           '%r: message %s had UID %d, now %r with the same '
                           'UIDVALIDITY' % (src_name, m['cid'], u,
                                            [c['uid'] for c in cands]))
                else:
                    report('acked-message-lost',
                           '%r: message %s (UID %d) acknowledged with OK is '
                           'gone after restart; in flight: %r' % (
                               src_name, m['cid'], u, _short(infl)))
                continue
            if got['cid'] != m['cid']:
                report('uid-names-different-message',
                       '%r: UID %d was %s, is %s after restart' % (
                           src_name, u, m['cid'], got['cid']))
                continue
            if got['sha'] not in want:
                report('acked-message-content-changed',
                       '%r: UID %d (%s) content differs (len %d)' % (
                           src_name, u, m['cid'], got['len']))
            allowed = restorable.get(u, {tuple(m['flags'])})
            if tuple(got['flags']) not in allowed:
                report('acked-flags-lost',
                       '%r: UID %d flags %r, acknowledged %r' % (
                           src_name, u, got['flags'], sorted(allowed)))
        # 2. nothing unexplained
        acked_cids = {(u, m['cid']) for u, m in b['msgs'].items()}
        created: set[str] = set()
        if infl and ikind == 'append' and iop['mbox'] == name:
            created |= set(iop['cids'])
        if infl and ikind in ('copy', 'move') and iop['dest'] == name:
            srcb = model.boxes.get(iop['mbox'], {'msgs': {}})
            created |= {srcb['msgs'][u]['cid'] for u in infl.get('uids', [])
                        if u in srcb['msgs']}
        for m in d.get('msgs', []):
            if same_validity and (m['uid'], m['cid']) in acked_cids:
                continue
            if not same_validity and any(
                    m['cid'] == c for _, c in acked_cids):
                continue
            if m['cid'] in created:
                cnt('inflight_effects_visible')
                continue
            report('phantom-message',
                   '%r: UID %d (%s) exists after restart although no '
                   'acknowledged or in-flight command created it there; in '
                   'flight: %r' % (src_name, m['uid'], m['cid'],
                                   _short(infl)))
        # 3. the next UID
        if d.get('append_cond') == 'OK' and 'append_uid' in d:
            cnt('post_restart_appends')
            if b['validity'] is not None and \
                    d.get('append_validity') == b['validity'] and \
                    d['append_uid'] <= b['max_uid']:
                report('uid-reused-after-restart',
                       '%r: post-restart APPEND got UID %d, but UID %d had '
                       'been acknowledged under the same UIDVALIDITY' % (
                           src_name, d['append_uid'], b['max_uid']))
            seen = [m['uid'] for m in d.get('msgs', [])]
            if seen and d['append_uid'] <= max(seen):
                report('uid-not-increasing-after-restart',
                       '%r: post-restart APPEND got UID %d <= existing %d'
                       % (src_name, d['append_uid'], max(seen)))
            if 'uidnext' in d and d['append_uid'] < d['uidnext']:
                report('uidnext-too-high',
                       '%r: UIDNEXT %d but next UID assigned was %d' % (
                           src_name, d['uidnext'], d['append_uid']))
        elif d.get('append_cond') not in (None, 'OK'):
            report('mailbox-does-not-accept-append',
                   '%r: APPEND after restart: %s' % (
                       src_name, d.get('append_cond')))
    # 4. subscriptions
    lsub = set(dump.get('lsub', []))
    for name in model.subs:
        cnt('subscriptions_checked')
        if infl and ikind == 'unsubscribe' and iop['name'] == name:
            continue
        if name not in lsub and name in listed:
            report('acked-subscription-lost', '%r not in LSUB %r' % (
                name, sorted(lsub)))
    # 5. unexplained mailboxes
    for name in listed:
        if name not in model.boxes and name not in maybe_new and \
                not any(name in _parents(x) for x in
                        list(model.boxes) + list(maybe_new)):
            report('phantom-mailbox', '%r listed after restart' % name)


_SHA_CACHE: dict[str, set[str]] = {}


def msg_sha(cid: str) -> set[str]:
    if cid not in _SHA_CACHE:
        _SHA_CACHE[cid] = {hashlib.sha1(msg_bytes(cid, k)).hexdigest()
                           for k in range(3)}
    return _SHA_CACHE[cid]


def _short(infl: dict[str, Any] | None) -> Any:
    if not infl:
        return None
    return {k: v for k, v in infl.items() if k in ('i', 'op', 'uids')}
