"""C07 -- every response is well-formed IMAP.

Deciding monitor: vf.grammar (an independent strict RFC 3501 response parser)
applied to every byte the server writes while echo channels are driven with
hostile client data: mailbox names -> LIST/LSUB/STATUS, flags/keywords ->
FLAGS/FETCH/PERMANENTFLAGS, APPEND dates -> INTERNALDATE, header values and
MIME shapes -> ENVELOPE/BODYSTRUCTURE/BODY[...], tags and garbage -> BAD
texts, SASL and ID parameters."""

from __future__ import annotations

import hashlib
import random
from typing import Any, Iterable

from .. import gen
from .. import loop as L
from ..net import Conn, Sched, astring, lit, quote
from ..runner import Check
from ..servers import make_env

FETCH_ALL = (b'(UID FLAGS INTERNALDATE RFC822.SIZE ENVELOPE BODYSTRUCTURE '
             b'BODY EMAILID THREADID)')
FETCH_PARTS = [
    b'(BODY.PEEK[])', b'(RFC822)', b'(RFC822.HEADER RFC822.TEXT)',
    b'(BODY.PEEK[HEADER] BODY.PEEK[TEXT])', b'(BODY.PEEK[1] BODY.PEEK[1.MIME])',
    b'(BODY.PEEK[HEADER.FIELDS (Subject From X-Long)])',
    b'(BODY.PEEK[HEADER.FIELDS.NOT (Subject)])', b'(BODY.PEEK[]<0.20>)',
    b'(BODY.PEEK[]<5.1>)', b'(BINARY.PEEK[1])', b'(BINARY.SIZE[1])',
    b'(BODY.PEEK[2] BODY.PEEK[1.1] BODY.PEEK[1.2.MIME])', b'ALL', b'FULL',
    b'FAST', b'(BODY.PEEK[1.HEADER] BODY.PEEK[1.TEXT])',
    b'(BINARY.PEEK[]<0.10>)', b'(BODY.PEEK[TEXT]<100000.5>)',
    # header field names that cannot be echoed as atoms or quoted strings
    b'(BODY.PEEK[HEADER.FIELDS ({3+}\r\nX\rA)])',
    b'(BODY.PEEK[HEADER.FIELDS ({3+}\r\nX\xe9A Subject)])',
    b'(BODY.PEEK[HEADER.FIELDS.NOT ({4+}\r\nX\r\nA {1+}\r\n\x00)])',
    b'(BODY.PEEK[HEADER.FIELDS ("a\\"b" "c\\\\d" {2+}\r\ne]))',
    b'(BODY.PEEK[1.HEADER.FIELDS ({2+}\r\n\n\n)])',
]
KEYWORDS = [b'$Forwarded', b'kw', b'$MDNSent', b'a.b', b'NonJunk', b'k\xc3\xa9',
            b'x]y', b'k[w', b'~k', b'1', b'NIL']
DATES = [b'01-Jan-2024 10:00:00 +0000', b' 1-Jan-2024 10:00:00 +0000',
         b'31-Dec-1999 23:59:59 -1200', b'01-Jan-0999 00:00:00 +0000',
         b'01-Jan-0001 00:00:00 +0000', b'15-Jun-9999 12:00:00 +1400',
         b'29-Feb-2024 00:00:00 +0530', b'01-Jan-1970 00:00:00 +0000',
         b'01-Jan-1969 00:00:00 +0000', b'01-Jan-1900 00:00:00 -0001',
         # zones that strptime('%z') takes and the grammar does not
         b'01-Jan-2024 10:00:00 +010203', b'01-Jan-2024 10:00:00 +01:00',
         b'01-Jan-2024 10:00:00 Z', b'01-Jan-2024 10:00:00 -0330',
         b'01-Jan-2024 10:00:00 +0530', b'01-Jan-2024 10:00:00 -00:30:15']


def pick_name(rng: random.Random) -> str:
    r = rng.random()
    if r < 0.25:
        return gen.tidy_name(rng)
    if r < 0.8:
        return gen.unicode_name(rng, controls=rng.random() < 0.5)
    return gen.unicode_name(rng, controls=True, max_len=120)


class Run:
    def __init__(self) -> None:
        self.conns: list[Conn] = []
        self.counters: dict[str, int] = {}
        self.kinds: set[str] = set()
        self.aborted: str | None = None

    def count(self, k: str, n: int = 1) -> None:
        self.counters[k] = self.counters.get(k, 0) + n


async def drive(spec: dict[str, Any], run: Run) -> None:
    rng = random.Random(spec['seed'])
    env = await make_env(spec['backend'], {'u1': 'pw1'})
    try:
        c = Conn(1, Sched())
        run.conns.append(c)
        c.start(env.imap)
        await c.greeting()

        async def cmd(rest: bytes, kind: str) -> Any:
            if c.dead:
                return None
            r = await c.simple(rest)
            run.count('commands')
            run.kinds.add(kind + ':' + (r.cond or b'closed').decode())
            return r

        async def raw_line(line: bytes) -> None:
            """Feed a hostile line and let the server answer whatever it
            answers (tagged, * BAD, continuation); then resynchronise."""
            if c.dead:
                return
            c.in_flight = line
            c.feed(line)
            run.count('commands')
            for _ in range(4):
                await c.loop.quiescent()      # type: ignore[attr-defined]
                new = c.drain_new()
                if c.dead or not any(r.kind == 'cont' for r in new):
                    break
                c.feed(b'*\r\n')
            c.in_flight = None

        # pre-auth echo channels: tags, SASL, ID
        for _ in range(rng.randint(0, 3)):
            tag = rng.choice([b'a"b', b'\xfftag', b'(t)', b'{1}', b'*', b'+x',
                              b'a\\b', b't]', b'%', b'x' * 300])
            await raw_line(tag + b' NOOP\r\n')
            await cmd(b'NOOP', 'resync')
        if rng.random() < 0.5:
            await cmd(b'ID (' + b' '.join(
                quote(rng.choice([b'name', b'ver"sion', b'a\\b', b'x' * 40]))
                for _ in range(rng.choice([2, 4]))) + b')', 'id')
        if rng.random() < 0.3:
            tag = c.next_tag()
            # the reply goes into the exchange (raw_line would cancel it)
            c.in_flight = tag + b' AUTHENTICATE PLAIN'
            c.feed(tag + b' AUTHENTICATE ' + rng.choice(
                [b'PLAIN', b'LOGIN', b'plain']) + b'\r\n')
            run.count('commands')
            await c.loop.quiescent()          # type: ignore[attr-defined]
            c.drain_new()
            c.in_flight = None
            await raw_line(rng.choice([b'*', b'!!!', b'AGEAYg==',
                                       b'\xff\xfe', b'=', b'abcde', b'a',
                                       b'!!!notbase64', b'YWJj=YQ',
                                       b'AGEAYg=']) + b'\r\n')
            await cmd(b'NOOP', 'resync')
        await cmd(b'LOGIN u1 pw1', 'login')
        # names
        names = [pick_name(rng) for _ in range(rng.randint(1, 4))]
        for nm in names:
            w = gen.wire_mailbox(nm)
            await cmd(b'CREATE ' + w, 'create')
            if rng.random() < 0.7:
                await cmd(b'SUBSCRIBE ' + w, 'subscribe')
            await cmd(b'STATUS ' + w + b' (MESSAGES RECENT UIDNEXT '
                      b'UIDVALIDITY UNSEEN)', 'status')
        if rng.random() < 0.4:
            # octets that may not be in a quoted string, sent in one: the
            # server takes them; it must not hand them back like that
            raw = rng.choice([b'caf\xe9', b'nul\x00box', b'\xff\xfe',
                              b'a\x80b', b'x\x7fy', b'caf\xc3\xa9'])
            await cmd(b'CREATE "' + raw + b'"', 'create-raw')
            await cmd(b'SUBSCRIBE "' + raw + b'"', 'subscribe-raw')
            await cmd(b'STATUS "' + raw + b'" (MESSAGES UIDNEXT)',
                      'status-raw')
        await cmd(b'LIST "" *', 'list')
        await cmd(b'LSUB "" *', 'lsub')
        await cmd(b'LIST "" %', 'list')
        await cmd(b'LIST ' + astring(gen.modutf7_encode(
            rng.choice(names)[:3])) + b' ' + rng.choice([b'*', b'%', b'""']),
            'list-ref')
        if len(names) > 1 and rng.random() < 0.5:
            await cmd(b'RENAME ' + gen.wire_mailbox(names[0]) + b' ' +
                      gen.wire_mailbox(pick_name(rng)), 'rename')
            await cmd(b'LIST "" *', 'list')
        # a non-existent name is echoed in NO texts / TRYCREATE
        await cmd(b'SELECT ' + gen.wire_mailbox(pick_name(rng)), 'select-no')
        # messages
        box = b'INBOX' if rng.random() < 0.7 else gen.wire_mailbox(names[-1])
        nmsg = rng.randint(1, 4)
        for k in range(nmsg):
            msg = gen.hostile_message(rng, b'c07-%d' % k)
            flags = rng.sample([b'\\Seen', b'\\Flagged', b'\\Draft',
                                b'\\Answered', b'\\Deleted'] + KEYWORDS,
                               rng.randint(0, 3))
            rest = b'APPEND ' + box
            if flags:
                rest += b' (' + b' '.join(flags) + b')'
            if rng.random() < 0.6:
                rest += b' "' + rng.choice(DATES) + b'"'
            rest += b' ' + lit(msg)
            await cmd(rest, 'append')
        r = await cmd(b'SELECT ' + box, 'select')
        if r is not None and r.ok:
            await cmd(b'FETCH 1:* ' + FETCH_ALL, 'fetch-all')
            parts = rng.sample(FETCH_PARTS, rng.randint(2, 6))
            late = [p for p in parts if b'BINARY' in p]
            for part in [p for p in parts if p not in late]:
                await cmd(b'FETCH 1:* ' + part, 'fetch-part')
            await cmd(b'STORE 1 +FLAGS (' + b' '.join(rng.sample(
                KEYWORDS, 2)) + b' \\Seen)', 'store')
            await cmd(b'UID SEARCH ALL', 'search')
            await cmd(b'SEARCH SUBJECT x', 'search')
            # RFC 4731 spellings: whatever the server makes of them, what
            # it answers must be a response
            await cmd(rng.choice([b'SEARCH RETURN (COUNT) ALL',
                                  b'UID SEARCH RETURN (MIN MAX) ALL',
                                  b'SEARCH RETURN (ALL) 1:*',
                                  b'SEARCH RETURN () ALL',
                                  b'UID SEARCH RETURN (COUNT MIN) SEEN',
                                  b'SEARCH CHARSET UTF-8 ALL']), 'search-ret')
            await cmd(b'UID FETCH 1:* (FLAGS)', 'fetch-flags')
            if rng.random() < 0.3:
                await cmd(b'COPY 1:* ' + gen.wire_mailbox(names[0]), 'copy')
            if rng.random() < 0.3:
                await cmd(b'EXPUNGE', 'expunge')
            # BINARY of hostile content may hit the known C06 findings
            # (connection dies): issue those last
            for part in late:
                await cmd(b'FETCH 1:* ' + part, 'fetch-part')
        # hostile garbage -> BAD text echoes
        for _ in range(rng.randint(1, 3)):
            line = gen.hostile_line(rng, 'selected')
            if b'\n' in line or len(line) > 60000:
                continue
            await raw_line(c.next_tag() + b' ' + line + b'\r\n')
            await cmd(b'NOOP', 'resync')
        if not c.dead:
            await cmd(b'LOGOUT', 'logout')
            await c.wait_closed()
    finally:
        env.cleanup()


async def script_echo(spec: dict[str, Any], run: Run) -> None:
    """Deterministic trigger: log in, run the given command lines (latin-1,
    may contain {n+} literals), LOGOUT."""
    env = await make_env(spec.get('backend', 'dict'), {'u1': 'pw1'})
    try:
        c = Conn(1, Sched())
        run.conns.append(c)
        c.start(env.imap)
        await c.greeting()
        await c.simple(b'LOGIN u1 pw1')
        for line in spec['cmds']:
            if c.dead:
                break
            await c.simple(line.encode('latin-1'))
            run.count('commands')
        # exchanges on a second, not authenticated connection: [line, reply
        # to the continuation request]
        if spec.get('preauth'):
            c2 = Conn(2, Sched())
            run.conns.append(c2)
            c2.start(env.imap)
            await c2.greeting()
            for line, reply in spec['preauth']:
                c2.feed(c2.next_tag() + b' ' + line.encode('latin-1') +
                        b'\r\n')
                await c2.loop.quiescent()     # type: ignore[attr-defined]
                c2.drain_new()
                c2.feed(reply.encode('latin-1') + b'\r\n')
                await c2.loop.quiescent()     # type: ignore[attr-defined]
                c2.drain_new()
                run.count('commands')
        if not c.dead:
            await c.simple(b'LOGOUT')
    finally:
        env.cleanup()


async def cross(spec: dict[str, Any], run: Run) -> None:
    """Concurrent multi-session workload (the C01 generator with content-
    bearing FETCH attributes) read through the strict grammar: data about
    messages that another session has just expunged is where placeholder or
    half-built values reach the wire."""
    from ..workload import DEFAULT_WEIGHTS, History
    from . import c01
    from .. import workload
    hist = History(str(spec['seed']))
    old_attrs = workload.ID_ATTRS
    workload.ID_ATTRS = (b'(UID FLAGS RFC822.SIZE ENVELOPE BODYSTRUCTURE '
                         b'INTERNALDATE BODY.PEEK[HEADER.FIELDS (X-VF-ID)] '
                         b'BODY.PEEK[TEXT]<0.20>)')
    try:
        await c01.run_sessions(spec, hist, dict(DEFAULT_WEIGHTS,
                                                fetch_all=5, fetch_some=4))
    finally:
        workload.ID_ATTRS = old_attrs
    for s in hist.sessions:
        run.conns.append(s.conn)
        run.count('commands', len(s.results))
    run.count('cross_cases')
    run.kinds.add('cross:%d' % len(hist.order))


async def asyncio_yield(c: Conn) -> None:
    loop = c.loop
    await loop.quiescent()     # type: ignore[attr-defined]


def collect(run: Run) -> list[dict[str, Any]]:
    out: list[dict[str, Any]] = []
    for c in run.conns:
        run.count('responses_parsed', len(c.responses))
        run.count('bytes_parsed', len(c.out))
        for resp in c.responses:
            if resp.typ:
                run.count('typ_' + resp.typ.decode('ascii', 'replace'))
            for k, v in (resp.data.items() if isinstance(resp.data, dict)
                         and resp.typ == b'FETCH' else []):
                if isinstance(v, bytes):
                    run.count('literal_or_string_values')
            if resp.cond == b'BYE' and resp.code in (b'SERVERBUG',):
                run.aborted = 'serverbug'
            for mech, detail in resp.errors:
                typ = (resp.typ or resp.cond or b'?').decode('ascii',
                                                             'replace')
                out.append({'mech': '%s:%s' % (mech, typ),
                            'detail': '%s in %r' % (detail, resp.raw[:200]),
                            'witness': {'raw': resp.raw[:2000],
                                        'errors': resp.errors}})
        tail = c.framer.pending
        if tail and not (run.aborted or c.task_exc):
            out.append({'mech': 'incomplete-response-at-close',
                        'detail': repr(tail[:200]),
                        'witness': {'tail': tail[:2000]}})
        if c.task_exc is not None and run.aborted is None:
            run.aborted = 'task-exception'
    return out


class C07(Check):
    pid = 'C07'
    level = 'exploration'
    rule = ('case = one connection driving echo channels with hostile '
            'client-chosen data (names, flags, dates, headers, MIME shapes, '
            'tags, SASL/ID strings) on dict or maildir; every byte written '
            'by the server is parsed by the independent strict grammar; '
            'distinct = hash of the set of (command kind, condition) pairs '
            'plus response types seen; non-trivial = at least one FETCH or '
            'LIST data response was parsed')
    assumptions = [
        'grammar = RFC 3501 section 9 + advertised extensions as implemented '
        'in vf/grammar.py (independent of pymap.parsing)',
        'ManageSieve output is not IMAP and is covered by C19/C06']
    floors = {'responses_parsed': 20000, 'typ_FETCH': 2000, 'typ_LIST': 1000}

    def cases(self, tier: str, seed: int) -> Iterable[dict[str, Any]]:
        n = 2500 if tier == 'quick' else 60000
        rng = random.Random(seed * 6151 + 7)
        for i in range(n):
            yield {'seed': seed * 1_000_003 + i,
                   'backend': rng.choice(['dict', 'dict', 'dict', 'maildir',
                                          'maildir-fs'])}
        from .c01 import schedule_family
        for i in range(n // 5):
            nsess = rng.choice([2, 3])
            yield {'kind': 'cross', 'seed': seed * 1_000_003 + n + i,
                   'backend': rng.choice(['dict', 'dict', 'maildir']),
                   'nsess': nsess, 'nmsgs': rng.randint(3, 6),
                   'ncmds': rng.randint(3, 8),
                   'sched': schedule_family(rng, nsess),
                   'deliverer': rng.random() < 0.3}

    def run_case(self, spec: dict[str, Any]) -> dict[str, Any]:
        random.seed(spec['seed'])
        run = Run()

        async def main(loop: L.CtlLoop) -> None:
            if 'script' in spec:
                await script_echo(spec, run)
            elif spec.get('kind') == 'cross':
                await cross(spec, run)
            else:
                await drive(spec, run)

        try:
            L.run(main, max_steps=2_000_000)
        except L.Deadlock:
            run.aborted = 'deadlock'
        viol = collect(run)
        # one witness per mechanism per case
        seen: set[str] = set()
        uniq = []
        for v in viol:
            if v['mech'] not in seen:
                seen.add(v['mech'])
                uniq.append(v)
        if uniq and run.conns:
            uniq[0]['witness']['transcript'] = run.conns[0].dump()[-80:]
        sig = hashlib.sha1(repr(sorted(run.kinds)).encode()).hexdigest()[:16]
        return {'violations': uniq, 'counters': run.counters, 'sig': sig,
                'nontrivial': run.counters.get('typ_FETCH', 0) +
                run.counters.get('typ_LIST', 0) > 0,
                'sample': {'spec': spec, 'kinds': sorted(run.kinds)[:30]},
                'aborted': run.aborted}


CHECK = C07()
