"""C01 -- sequence numbers: the client view never diverges from the server.

Deciding monitor: the shadow client (vf.shadow) applied to the byte stream of
every session, the glass-box comparison with the server's own view at every
tagged line, and the offline UID->content label check."""

from __future__ import annotations

import asyncio
import hashlib
import random
from typing import Any, Iterable

from .. import loop as L
from ..net import Sched
from ..runner import Check
from ..servers import make_env
from ..shadow import install_glass
from ..workload import DEFAULT_WEIGHTS, History, Session, provision


def sched_from(spec: dict[str, Any]) -> Sched:
    s = spec.get('sched', {})
    return Sched(spec['seed'], s.get('max_delay', 0), s.get('max_drain', 0),
                 s.get('starve'), s.get('starve_delay', 40))


def schedule_family(rng: random.Random, nsess: int) -> dict[str, Any]:
    r = rng.random()
    if r < 0.12:
        return {'kind': 'asap', 'max_delay': 0, 'max_drain': 0}
    if r < 0.8:
        d = rng.choice([1, 2, 4, 8, 16, 32])
        return {'kind': 'timing', 'max_delay': d,
                'max_drain': rng.choice([0, 1, 3, 8, 20])}
    return {'kind': 'starve', 'max_delay': rng.choice([1, 4]),
            'max_drain': rng.choice([0, 3]),
            'starve': rng.randint(1, nsess),
            'starve_delay': rng.choice([10, 40])}


async def run_sessions(spec: dict[str, Any], hist: History,
                       weights: dict[str, float]) -> Any:
    env = await make_env(spec.get('backend', 'dict'))
    try:
        rng = random.Random(spec['seed'])
        if not await provision(env, hist, spec['nmsgs'], rng):
            return env
        sched = sched_from(spec)
        sessions = [Session(env, hist, i + 1, sched,
                            spec['seed'] * 31 + i)
                    for i in range(spec['nsess'])]

        async def client(s: Session) -> None:
            if not await s.start():
                return
            r = await s.select(b'INBOX')
            if not r.ok:
                s.failed = 'select'
                return
            await s.fetch_all()
            for _ in range(spec['ncmds']):
                if not s.alive:
                    break
                await s.random_step(weights)
            if s.alive:
                await s.fetch_all()

        async def deliverer(s: Session) -> None:
            # authenticated, never has INBOX selected: its deliveries hand
            # \\Recent to *another* session's live selection
            if not await s.start():
                return
            other = False
            for _ in range(spec['ncmds']):
                if not s.alive:
                    break
                r = s.rng.random()
                if r < 0.6:
                    fl = [b'\\Deleted'] if s.rng.random() < 0.5 else None
                    await s.append(b'INBOX', fl)
                elif r < 0.8:
                    await s.append(b'Other', None)
                else:
                    if not other:
                        other = (await s.select(b'Other')).ok
                    if other and s.shadow.count:
                        # messages that clients moved out of INBOX come
                        # back (their flags changed meanwhile): they must be
                        # new messages there, not their old selves
                        await s.copy(b'1:*', b'INBOX',
                                     move=s.rng.random() < 0.5)

        tasks = [client(s) for s in sessions]
        if spec.get('deliverer'):
            d = Session(env, hist, spec['nsess'] + 1, sched,
                        spec['seed'] * 31 + 77)
            tasks.append(deliverer(d))
        await asyncio.gather(*tasks)
        return env
    finally:
        env.cleanup()


async def run_moveback(spec: dict[str, Any], hist: History) -> None:
    """Messages leave the watched mailbox and come back: a watcher that was
    told EXPUNGE can only be given them as NEW messages (EXISTS, at the
    end).  In between their flags change (on maildir: their file names) and
    some are copied, so that whatever the server keys its records by is put
    to the test."""
    env = await make_env(spec.get('backend', 'maildir'))
    try:
        rng = random.Random(spec['seed'])
        if not await provision(env, hist, spec['nmsgs'], rng):
            return
        sched = sched_from(spec)
        w, a, r = (Session(env, hist, i + 1, sched, spec['seed'] * 31 + i)
                   for i in range(3))
        for s in (w, a):
            if not await s.start() or not (await s.select(b'INBOX')).ok:
                return
            await s.fetch_all()
        if not await r.start():
            return
        for _ in range(spec.get('rounds', 2)):
            n = a.shadow.count
            if n < 2:
                break
            k = rng.randint(1, n - 1)       # not the last message
            if rng.random() < 0.7:
                await a.store(b'%d' % k, False, rng.choice(
                    [b'+FLAGS', b'FLAGS']), rng.random() < 0.5,
                    [rng.choice([b'\\Seen', b'\\Flagged', b'\\Answered'])])
            if rng.random() < 0.3:
                await a.copy(b'%d' % k, b'Other')
            await a.copy(b'%d' % k, b'Other', move=True)
            if rng.random() < 0.6:
                await w.noop()
            if not (await r.select(b'Other')).ok:
                return
            await r.fetch_all()
            if r.shadow.count:
                if rng.random() < 0.5:
                    await r.store(b'1', False, b'+FLAGS', True,
                                  [b'\\Draft'])
                await r.copy(b'1:*', b'INBOX', move=rng.random() < 0.8)
            await r.cmd(b'CLOSE')
            for s in (w, a):
                await s.noop()
                await s.fetch_all()
            hist.count('moveback_rounds')
    finally:
        env.cleanup()


async def script_merge_across_expunge(hist: History) -> None:
    """Defect #1: another session expunges UID 101 and flags UID 103; this
    session's UID FETCH 102:103 must still label each line correctly."""
    env = await make_env('dict')
    rng = random.Random(1)
    await provision(env, hist, 3, rng)
    a = Session(env, hist, 1, Sched(), 1)
    b = Session(env, hist, 2, Sched(), 2)
    for s in (a, b):
        await s.start()
        await s.select(b'INBOX')
        await s.fetch_all()
    await b.cmd(b'STORE 1 +FLAGS (\\Deleted)')
    await b.cmd(b'EXPUNGE')
    await b.cmd(b'UID STORE 103 +FLAGS (\\Flagged)')
    await a.cmd(b'UID FETCH 102:103 (UID FLAGS '
                b'BODY.PEEK[HEADER.FIELDS (X-VF-ID)])')
    await a.fetch_all()


SCRIPTS = {'merge-across-expunge': script_merge_across_expunge}


def summarize(hist: History) -> dict[str, Any]:
    counters: dict[str, int] = {}
    for s in hist.sessions:
        for k, v in s.shadow.counters.items():
            counters[k] = counters.get(k, 0) + v
    for k, v in hist.ops.items():
        counters['op_' + k] = v
    counters['commands'] = len(hist.order)
    return counters


class C01(Check):
    pid = 'C01'
    level = 'exploration'
    rule = ('case = random per-session command programs (drawn from each '
            "session's own shadow view) x one external-event schedule "
            '(asap / random delays / starvation, FIFO ready queue); '
            'distinct = hash of the global completion order of (session, '
            'command) pairs; non-trivial = at least one EXPUNGE line was '
            'applied by some shadow and >= 2 sessions completed commands')
    assumptions = [
        'asyncio subsystem (single-threaded cooperative core)',
        'backends: dict and maildir(++) in asyncio mode; redis not runnable',
        'glass-box comparison reads ConnectionState._selected.messages._sorted'
        ' (reported unavailable, not violated, if renamed)']
    floors = {'expunge': 50, 'fetch_uid_checked': 500, 'glass': 500}

    def cases(self, tier: str, seed: int) -> Iterable[dict[str, Any]]:
        n = 1400 if tier == 'quick' else 40000
        rng = random.Random(seed * 7919 + 1)
        for i in range(n):
            nsess = rng.choice([2, 2, 3, 3, 4])
            backend = 'dict' if rng.random() < 0.85 else 'maildir'
            yield {'seed': seed * 1_000_003 + i, 'backend': backend,
                   'nsess': nsess, 'nmsgs': rng.randint(3, 8),
                   'ncmds': rng.randint(3, 12 if backend == 'dict' else 7),
                   'sched': schedule_family(rng, nsess),
                   'deliverer': rng.random() < 0.4}
            if i % 16 == 5:
                yield {'kind': 'moveback', 'seed': seed * 1_000_003 + i,
                       'backend': rng.choice(['dict', 'maildir', 'maildir']),
                       'nmsgs': rng.randint(3, 6), 'rounds': rng.randint(1, 3),
                       'sched': schedule_family(rng, 3)}

    def setup_worker(self) -> None:
        install_glass()

    def run_case(self, spec: dict[str, Any]) -> dict[str, Any]:
        random.seed(spec['seed'])
        hist = History(str(spec['seed']))

        async def main(loop: L.CtlLoop) -> None:
            if 'script' in spec:
                await SCRIPTS[spec['script']](hist)
            elif spec.get('kind') == 'moveback':
                await run_moveback(spec, hist)
            else:
                await run_sessions(spec, hist, DEFAULT_WEIGHTS)

        try:
            L.run(main, max_steps=400_000)
        except L.Deadlock:
            hist.aborted = 'deadlock'
        hist.check_labels()
        counters = summarize(hist)
        aborted = hist.aborted
        for s in hist.sessions:
            if s.failed and aborted is None:
                aborted = 'session-' + s.failed
        hist.attach_transcripts()
        sig = hashlib.sha1(repr(hist.order).encode()).hexdigest()[:16]
        active = len({c for c, _ in hist.order})
        return {'violations': hist.violations, 'counters': counters,
                'sig': sig,
                'nontrivial': counters.get('expunge', 0) > 0 and active >= 2,
                'sample': {'spec': spec, 'order': [
                    '%d:%s' % (c, v.decode()) for c, v in hist.order[:60]]},
                'aborted': aborted}


CHECK = C01()
