"""C12 -- a read-only selection never changes the mailbox.

Deciding monitor: ground-truth dump of the mailbox taken *without* a
consuming SELECT (dict: the backend table incl. the unclaimed-\\Recent bit;
maildir: directory listing of new/ and cur/ with the flag-bearing file
names) before and after a program issued inside EXAMINE / a read-only
mailbox; tagged conditions of the mutating commands; what observers on the
same mailbox are told meanwhile."""

from __future__ import annotations

import hashlib
import os
import random
from typing import Any, Iterable

from .. import loop as L
from ..net import Sched, lit
from ..runner import Check
from ..servers import make_env
from ..workload import FLAGS, History, Session, make_msg


def direct_dump(env: Any, user: str, mbox: str) -> Any:
    """State of a mailbox without going through IMAP (no \\Recent claim)."""
    if env.kind == 'dict':
        mset, _ = env.config.set_cache[user]
        mbx = mset._inbox if mbox.upper() == 'INBOX' else mset._set[mbox]
        return sorted(
            (uid, tuple(sorted(f.value.lower() for f in m.permanent_flags)),
             bool(m.recent)) for uid, m in mbx._messages.items())
    base = os.path.join(env.base_dir, user)
    path = base if mbox.upper() == 'INBOX' else os.path.join(
        base, mbox if env.layout == 'fs' else '.' + mbox.replace('/', '.'))
    out = []
    for sub in ('new', 'cur'):
        d = os.path.join(path, sub)
        for fn in sorted(os.listdir(d)) if os.path.isdir(d) else []:
            out.append((sub, fn))
    # UID-list records of files that still exist (records of already
    # expunged messages may be garbage-collected by CHECK: not observable)
    keys = {fn.split(':')[0] for _, fn in out}
    uidl = os.path.join(path, 'dovecot-uidlist')
    recs = []
    if os.path.exists(uidl):
        with open(uidl) as f:
            lines = f.read().splitlines()
        for ln in lines[1:]:
            uid, _, rest = ln.partition(' ')
            fname = rest.rsplit(':', 1)[-1] if ':' in rest else rest
            if any(k in ln for k in keys):
                recs.append(uid)
    return (out, sorted(recs))


class Ctx:
    def __init__(self) -> None:
        self.counters: dict[str, int] = {}
        self.kinds: list[str] = []

    def count(self, k: str, n: int = 1) -> None:
        self.counters[k] = self.counters.get(k, 0) + n


MUST_REFUSE = ('STORE', 'EXPUNGE', 'UID STORE', 'UID EXPUNGE', 'MOVE',
               'UID MOVE')


async def run_c12(spec: dict[str, Any], hist: History, ctx: Ctx) -> None:
    rng = random.Random(spec['seed'])
    backend = spec['backend']
    demo = backend == 'dict'
    env = await make_env(backend, demo=True) if demo else \
        await make_env(backend)
    try:
        user = 'testuser'
        mode = spec['mode']          # 'examine' | 'readonly-mailbox'
        target = 'Trash' if mode == 'readonly-mailbox' else 'INBOX'
        # provision: messages with flags; some stay unclaimed-\Recent
        prov = Session(env, hist, 0, Sched(), 1)
        await prov.start()
        await prov.cmd(b'CREATE Other')
        if target == 'INBOX':
            for k in range(spec['nmsgs']):
                fl = rng.sample(FLAGS, rng.randint(0, 2))
                await prov.append(b'INBOX', fl or None)
            if rng.random() < 0.5:
                # claim \Recent of what is there, then deliver more
                await prov.select(b'INBOX')
                await prov.cmd(b'CLOSE')
                for k in range(rng.randint(1, 2)):
                    await prov.append(b'INBOX', None)
        await prov.cmd(b'LOGOUT')
        # observers select first (their claim happens before "before")
        observers = [Session(env, hist, 10 + i, Sched(), 10 + i)
                     for i in range(spec['nobs'])]
        for o in observers:
            await o.start()
            await o.select(target.encode(),
                           examine=(rng.random() < 0.5))
            await o.fetch_all()
        before = direct_dump(env, user, target)
        other_before = direct_dump(env, user, 'Other')
        obs_marks = [len(o.conn.responses) for o in observers]

        s = Session(env, hist, 1, Sched(), spec['seed'])
        await s.start()
        r = await s.select(target.encode(), examine=(mode == 'examine'))
        if not r.ok:
            hist.aborted = 'cannot-select'
            return
        if r.tagged is not None and r.tagged.code != b'READ-ONLY':
            hist.report('readonly-select-not-marked-read-only',
                        'tagged response %r' % r.tagged.raw[:80])
        await s.fetch_all()
        n = s.shadow.count
        closed = False
        for _ in range(spec['ncmds']):
            if not s.alive:
                break
            if closed:
                r = await s.select(target.encode(),
                                   examine=(mode == 'examine'))
                closed = False
                if not r.ok:
                    break
                await s.fetch_all()
            sset, uid = s._pick_seqset()
            up = b'UID ' if uid else b''
            k = rng.random()
            if spec.get('cmds'):
                cmd = spec['cmds'].pop(0).encode('latin-1')
            elif k < 0.2:
                cmd = up + b'STORE ' + sset + b' ' + rng.choice(
                    [b'+FLAGS', b'-FLAGS', b'FLAGS', b'+FLAGS.SILENT']) + \
                    b' (' + b' '.join(rng.sample(FLAGS, rng.randint(0, 2))) \
                    + b')'
            elif k < 0.3:
                cmd = b'EXPUNGE'
            elif k < 0.36:
                cmd = b'UID EXPUNGE ' + (sset if uid else b'1:*')
            elif k < 0.5:
                cmd = up + b'FETCH ' + sset + b' ' + rng.choice(
                    [b'(BODY[])', b'(RFC822)', b'(BODY[TEXT])',
                     b'(BINARY[])', b'(RFC822.TEXT)', b'(BODY[HEADER])',
                     b'(FLAGS BODY[1])'])
            elif k < 0.6:
                cmd = up + b'MOVE ' + sset + b' Other'
            elif k < 0.68:
                cmd = up + b'COPY ' + sset + b' Other'
            elif k < 0.74:
                cmd = up + b'SEARCH ' + rng.choice(
                    [b'ALL', b'UNSEEN', b'DELETED', b'TEXT body'])
            elif k < 0.82:
                cmd = b'CLOSE'
            elif k < 0.88:
                cmd = rng.choice([b'NOOP', b'CHECK'])
            elif k < 0.91 and mode == 'readonly-mailbox':
                # into the read-only mailbox by name
                cmd = b'APPEND Trash ' + lit(make_msg(b'x'))
            elif k < 0.94 and mode == 'readonly-mailbox':
                # ... and from the selected read-only mailbox into itself
                cmd = up + b'COPY ' + sset + b' ' + rng.choice(
                    [b'Trash', b'Trash', b'"Trash"', b'{5+}\r\nTrash'])
            else:
                cmd = b'IDLE'
            verb = cmd.split(b' ')[0].decode() if not cmd.startswith(b'UID ') \
                else 'UID ' + cmd.split(b' ')[1].decode()
            ctx.kinds.append(verb)
            ctx.count('commands')
            if cmd == b'IDLE':
                r = await s.idle(hold=2)
            else:
                r = await s.cmd(cmd)
            if not s.alive:
                break
            if verb in MUST_REFUSE:
                ctx.count('mutations_attempted')
                if r.cond == b'OK':
                    hist.report('mutating-command-not-refused:' + verb,
                                '%r answered OK in a read-only selection'
                                % cmd[:80])
            if verb == 'APPEND':
                ctx.count('into_readonly_attempted')
                if r.cond == b'OK':
                    hist.report('append-into-readonly-not-refused',
                                '%r answered OK' % cmd[:60])
            if verb.endswith('COPY') and b'Trash' in cmd \
                    and mode == 'readonly-mailbox':
                ctx.count('into_readonly_attempted')
                if r.cond == b'OK' and s.shadow.count:
                    hist.report('copy-into-readonly-not-refused',
                                '%r answered OK with the read-only mailbox '
                                'itself selected' % cmd[:60])
            if verb == 'CLOSE':
                ctx.count('close_checked')
                closed = r.ok
                if not r.ok:
                    hist.report('close-of-readonly-not-ok',
                                'CLOSE answered %r' % (r.cond,))
            if hist.violations:
                break
        # COPY/MOVE *into* the read-only mailbox from elsewhere
        if mode == 'readonly-mailbox' and s.alive and not hist.violations:
            r = await s.select(b'INBOX')
            if r.ok and s.shadow.count:
                for verb2 in (b'COPY', b'MOVE'):
                    r = await s.cmd(verb2 + b' 1 Trash')
                    ctx.count('into_readonly_attempted')
                    if r.cond == b'OK':
                        hist.report('%s-into-readonly-not-refused'
                                    % verb2.decode().lower(),
                                    '%s 1 Trash answered OK' % verb2.decode())
        after = direct_dump(env, user, target)
        ctx.count('dump_comparisons')
        if after != before:
            hist.report(_classify(before, after, env.kind),
                        'mailbox %s changed under a read-only selection: '
                        'before %r after %r' % (target, before, after))
        # observers: no untagged data about this mailbox
        for o, mark in zip(observers, obs_marks):
            if not o.alive:
                continue
            await o.noop()
            ctx.count('observer_checks')
            news = [x for x in o.conn.responses[mark:]
                    if x.kind == 'untagged' and x.typ in (
                        b'EXISTS', b'EXPUNGE', b'FETCH', b'RECENT')]
            if news:
                hist.report('observer-told-of-change',
                            'observer %d received %r' % (
                                o.conn.cid, news[0].raw[:80]))
        del other_before
    finally:
        env.cleanup()


def _classify(before: Any, after: Any, kind: str) -> str:
    if kind == 'dict':
        b = {u: (f, r) for u, f, r in before}
        a = {u: (f, r) for u, f, r in after}
        if set(a) != set(b):
            return 'readonly-changed-message-set'
        if any(a[u][0] != b[u][0] for u in b):
            flags = {x for u in b for x in set(a[u][0]) ^ set(b[u][0])}
            return 'readonly-changed-flags' + (
                ':seen' if flags == {b'\\seen'} else '')
        return 'readonly-consumed-recent'
    bfiles, brecs = before
    afiles, arecs = after
    bkeys = {fn.split(':')[0] for _, fn in bfiles}
    akeys = {fn.split(':')[0] for _, fn in afiles}
    if bkeys != akeys or brecs != arecs:
        return 'readonly-changed-message-set'
    bnew = {fn for sub, fn in bfiles if sub == 'new'}
    anew = {fn for sub, fn in afiles if sub == 'new'}
    if bnew != anew:
        return 'readonly-consumed-recent'
    return 'readonly-changed-flags'


class C12(Check):
    pid = 'C12'
    level = 'exploration'
    rule = ('case = a program of 3-12 message commands (STORE variants, '
            'EXPUNGE, UID EXPUNGE, body FETCHes, MOVE/COPY out, SEARCH, '
            'CLOSE + re-select, NOOP/CHECK, IDLE, APPEND/COPY/MOVE into the '
            'read-only mailbox) issued inside EXAMINE (dict, maildir) or '
            'inside SELECT of the backend-declared read-only demo mailbox '
            '(dict), with 0-2 observers; distinct = hash of the command '
            'sequence; non-trivial = at least one mutating command was '
            'attempted')
    assumptions = [
        'APPEND/COPY by name into the examined, itself writable mailbox is '
        'not generated: RFC 3501 does not forbid it and the statement lists '
        'what must be refused',
        'ground truth is read directly (dict table / maildir directory), '
        'never through a consuming SELECT']
    floors = {'commands': 5000, 'mutations_attempted': 1500,
              'dump_comparisons': 1000, 'close_checked': 200,
              'into_readonly_attempted': 200}

    def cases(self, tier: str, seed: int) -> Iterable[dict[str, Any]]:
        n = 1500 if tier == 'quick' else 40000
        rng = random.Random(seed * 5413 + 12)
        for i in range(n):
            backend = rng.choice(['dict', 'dict', 'dict', 'maildir',
                                  'maildir-colon'])
            mode = 'examine'
            if backend == 'dict' and rng.random() < 0.4:
                mode = 'readonly-mailbox'
            yield {'seed': seed * 1_000_003 + i, 'backend': backend,
                   'mode': mode, 'nmsgs': rng.randint(1, 5),
                   'ncmds': rng.randint(3, 12), 'nobs': rng.choice([0, 0, 1, 2])}

    def run_case(self, spec: dict[str, Any]) -> dict[str, Any]:
        random.seed(spec['seed'])
        hist = History(str(spec['seed']))
        ctx = Ctx()

        async def main(loop: L.CtlLoop) -> None:
            await run_c12(spec, hist, ctx)

        try:
            L.run(main, max_steps=800_000)
        except L.Deadlock:
            hist.aborted = 'deadlock'
        aborted = hist.aborted
        for s in hist.sessions:
            if s.failed and aborted is None and s.conn.cid == 1:
                aborted = 'session-' + s.failed
        mine = [v for v in hist.violations if v['mech'].startswith((
            'mutating-command-not-refused', 'append-into', 'copy-into',
            'move-into', 'close-of-readonly', 'readonly-', 'observer-'))]
        hist.violations = mine
        hist.attach_transcripts()
        sig = hashlib.sha1(repr((spec['mode'], spec['backend'], ctx.kinds))
                           .encode()).hexdigest()[:16]
        return {'violations': mine, 'counters': ctx.counters, 'sig': sig,
                'nontrivial': ctx.counters.get('mutations_attempted', 0) > 0,
                'sample': {'spec': spec, 'commands': ctx.kinds},
                'aborted': aborted}


CHECK = C12()
