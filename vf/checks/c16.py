"""C16 -- IDLE delivers every change without further stimulus.

Bounded-progress restatement of "after finitely many steps": after the
writers' burst, *no further input is given to anyone*; the loop is run until
nothing is runnable (maildir: plus 3.5 poll periods of virtual time).  At that
instant the idler's shadow view must equal the mailbox contents.  Then DONE
must yield the tagged OK (and garbage must yield BAD)."""

from __future__ import annotations

import asyncio
import hashlib
import random
from typing import Any, Iterable

from .. import loop as L
from ..net import Sched
from ..runner import Check
from ..servers import make_env
from ..shadow import install_glass
from ..workload import FLAGS, History, Session, probe_dump, provision
from .c01 import sched_from, summarize


def idle_schedule(rng: random.Random, nidlers: int) -> dict[str, Any]:
    r = rng.random()
    if r < 0.1:
        return {'kind': 'asap'}
    if r < 0.6:
        return {'kind': 'timing', 'max_delay': rng.choice([1, 2, 4, 8, 16]),
                'max_drain': rng.choice([0, 2, 5, 10, 20, 40])}
    return {'kind': 'starve', 'max_delay': rng.choice([0, 1, 4]),
            'max_drain': rng.choice([0, 3]),
            'starve': rng.randint(1, nidlers),
            'starve_delay': rng.choice([6, 12, 24, 40])}


async def writer_burst(s: Session, n: int, klass: dict[str, int],
                       idlers: list[Session]) -> None:
    rng = s.rng
    for _ in range(n):
        if not s.alive:
            return
        r = rng.random()
        if r < 0.4:
            res = await s.append(b'INBOX', [rng.choice(FLAGS)]
                                 if rng.random() < 0.3 else None)
        elif r < 0.75:
            sset, uid = s._pick_seqset()
            res = await s.store(sset, uid, rng.choice(
                [b'+FLAGS', b'-FLAGS', b'FLAGS']), rng.random() < 0.3,
                [rng.choice(FLAGS)])
        elif r < 0.9:
            sset, uid = s._pick_seqset()
            await s.store(sset, uid, b'+FLAGS', True, [b'\\Deleted'])
            res = await s.cmd(b'EXPUNGE')
        else:
            sset, uid = s._pick_seqset()
            res = await s.copy(sset, b'INBOX', uid=uid)
        if res.ok:
            for i in idlers:
                if not getattr(i, 'idling', False):
                    klass['before_arm'] += 1
                elif i.conn.draining:
                    klass['during_write'] += 1
                else:
                    klass['parked'] += 1


async def settle(env: Any, loop: Any) -> None:
    if env.kind == 'maildir':
        await loop.advance(3.5)
    await loop.quiescent()
    # a second pass: the wake-up of an idler may itself have queued work
    if env.kind == 'maildir':
        await loop.advance(1.5)
    await loop.quiescent()


def compare(hist: History, s: Session, truth: dict[int, dict[str, Any]],
            counters: dict[str, int], where: str) -> None:
    sh = s.shadow
    tu = sorted(truth)
    counters['idle_comparisons'] = counters.get('idle_comparisons', 0) + 1
    if sh.count != len(tu):
        hist.report('idle-change-not-delivered',
                    '%s: idler %d holds %d messages %r while nothing is '
                    'runnable; mailbox has %d %r' % (
                        where, s.conn.cid, sh.count, sh.uids, len(tu), tu),
                    {'conn': s.conn.cid})
        return
    for k, (u, f) in enumerate(zip(sh.uids, sh.flags)):
        if u is not None and u != tu[k]:
            hist.report('idle-view-diverged',
                        '%s: idler %d position %d is UID %d, mailbox has %d'
                        % (where, s.conn.cid, k + 1, u, tu[k]),
                        {'conn': s.conn.cid})
            return
        if f is not None:
            counters['idle_flag_comparisons'] = \
                counters.get('idle_flag_comparisons', 0) + 1
            have = f - {b'\\recent'}
            want = truth[tu[k]]['flags']
            if have != want:
                hist.report('idle-flag-change-not-delivered',
                            '%s: idler %d believes UID %d has %r, mailbox '
                            'has %r' % (where, s.conn.cid, tu[k],
                                        sorted(have), sorted(want)),
                            {'conn': s.conn.cid})
                return


async def run_idle(spec: dict[str, Any], hist: History,
                   counters: dict[str, int]) -> None:
    env = await make_env(spec.get('backend', 'dict'))
    loop = asyncio.get_event_loop()
    try:
        rng = random.Random(spec['seed'])
        if not await provision(env, hist, spec['nmsgs'], rng):
            return
        sched = sched_from(spec)
        nid, nwr = spec['nidlers'], spec['nwriters']
        idlers = [Session(env, hist, i + 1, sched, spec['seed'] * 31 + i)
                  for i in range(nid)]
        writers = [Session(env, hist, nid + i + 1, sched,
                           spec['seed'] * 57 + i) for i in range(nwr)]
        for s in idlers + writers:
            if not await s.start():
                return
            if not (await s.select(b'INBOX')).ok:
                return
            await s.fetch_all()
        klass = {'before_arm': 0, 'during_write': 0, 'parked': 0}
        mover: Session | None = None
        if spec.get('mover'):
            # a session that has ANOTHER mailbox selected and moves or
            # copies messages from there into the idled one
            mover = Session(env, hist, nid + nwr + 1, sched,
                            spec['seed'] * 91 + 5)
            if not await mover.start():
                return
            for _ in range(6):
                await mover.append(b'Other', None)
            if not (await mover.select(b'Other')).ok:
                return
            await mover.fetch_all()

        async def mover_burst(n: int) -> None:
            assert mover is not None
            for _ in range(n):
                if not mover.alive or not mover.shadow.count:
                    return
                res = await mover.copy(b'1', b'INBOX',
                                       move=mover.rng.random() < 0.7)
                counters['moves_into_idled_mailbox'] = counters.get(
                    'moves_into_idled_mailbox', 0) + 1
                if res.ok:
                    for i in idlers:
                        if not getattr(i, 'idling', False):
                            klass['before_arm'] += 1
                        elif i.conn.draining:
                            klass['during_write'] += 1
                        else:
                            klass['parked'] += 1
        outsider: Session | None = None
        if spec.get('outsider'):
            outsider = Session(env, hist, nid + nwr + 2, sched,
                               spec['seed'] * 91 + 7)
            if not await outsider.start():
                return
        for rnd in range(spec['rounds']):
            burst = spec['burst']
            if spec.get('early_done'):
                # DONE arrives at an arbitrary moment, in particular while
                # the idler is in the middle of writing a notification, and
                # the next command follows at once: whatever was pushed
                # during IDLE and whatever follows must form one consistent
                # stream
                async def early_idler(s: Session) -> None:
                    for _ in range(s.rng.randint(1, 3)):
                        tag = await s.idle_begin()
                        if tag is None or not s.alive:
                            return
                        s.idling = True       # type: ignore[attr-defined]
                        await s.conn.yields(
                            s.rng.choice([0, 3, 10, 30, 80]) +
                            s.rng.randint(0, 10))
                        s.idling = False      # type: ignore[attr-defined]
                        k = 'early_done_during_write' if s.conn.draining \
                            else 'early_done_parked'
                        counters[k] = counters.get(k, 0) + 1
                        r = await s.idle_end(tag)
                        if r.closed:
                            return
                        if r.cond != b'OK':
                            hist.report('idle-done-wrong-result',
                                        'sent DONE, got %r' % (r.cond,))
                        if s.rng.random() < 0.7:
                            await s.fetch_all()
                        else:
                            await s.noop()

                async def early_writer(s: Session) -> None:
                    await writer_burst(s, spec['burst'], klass, idlers)

                await asyncio.gather(*(early_idler(s) for s in idlers),
                                     *(early_writer(s) for s in writers))
                await settle(env, loop)
                # the idler's last command before the IDLE that is judged
                # below: a non-UID FETCH may not report expunges, which are
                # then due when IDLE starts; half of the time nothing else
                # happens during that IDLE
                for s in idlers:
                    if s.alive:
                        how = s.rng.choice(['noop', 'fetch', 'fetch', 'none'])
                        if how == 'noop':
                            await s.noop()
                        if how != 'none':
                            await s.fetch_all()
                            counters['idle_after_fetch'] = \
                                counters.get('idle_after_fetch', 0) + 1
                if rng.random() < 0.5:
                    burst = 0
            tags: dict[int, bytes | None] = {}

            async def idler_task(s: Session) -> None:
                s.idling = False          # type: ignore[attr-defined]
                tags[s.conn.cid] = await s.idle_begin()
                s.idling = True           # type: ignore[attr-defined]

            async def writer_task(s: Session) -> None:
                if outsider is not None:
                    # messages arrive from a connection that has nothing
                    # selected (maildir: they stay in new/); once the idlers
                    # had time to learn of them, ONE session that selected
                    # before the arrival changes or expunges the newest one
                    # and nothing else happens afterwards
                    if s is not writers[0]:
                        return
                    for _ in range(rng.choice([1, 1, 2])):
                        if outsider.alive:
                            await outsider.append(b'INBOX', None)
                            counters['outsider_appends'] = counters.get(
                                'outsider_appends', 0) + 1
                    await settle(env, loop)
                    await s.noop()
                    if s.alive and s.shadow.count:
                        top = b'%d' % s.shadow.count
                        if rng.random() < 0.5:
                            res = await s.store(top, False, rng.choice(
                                [b'+FLAGS', b'FLAGS']), False,
                                [rng.choice(FLAGS)])
                        else:
                            await s.store(top, False, b'+FLAGS', True,
                                          [b'\\Deleted'])
                            res = await s.cmd(b'EXPUNGE')
                        if res.ok:
                            counters['changes_to_outsider_arrivals'] = \
                                counters.get(
                                    'changes_to_outsider_arrivals', 0) + 1
                            klass['during_write' if any(
                                i.conn.draining for i in idlers)
                                else 'parked'] += 1
                    return
                if spec.get('flood'):
                    # very many separate changes while the idler cannot
                    # keep up (its client reads slowly): no change log is so
                    # short that the idler may lose some of them
                    uids = [u for u in s.shadow.uids if u is not None]
                    for u in uids[:spec['flood']]:
                        if not s.alive:
                            return
                        await s.store(b'%d' % u, True, b'+FLAGS', True,
                                      [b'\\Deleted'])
                        res = await s.cmd(b'UID EXPUNGE %d' % u)
                        if res.ok:
                            counters['flood_expunges'] = counters.get(
                                'flood_expunges', 0) + 1
                            klass['during_write' if any(
                                i.conn.draining for i in idlers)
                                else 'parked'] += 1
                    return
                await writer_burst(s, burst, klass, idlers)

            extra = [mover_burst(max(1, burst))] if mover is not None \
                and (burst or rng.random() < 0.5) else []
            if mover is not None and rng.random() < 0.4:
                # only the mover acts in this round
                for x in extra:
                    x.close()
                await asyncio.gather(*(idler_task(s) for s in idlers),
                                     mover_burst(max(1, burst)))
            else:
                await asyncio.gather(*(idler_task(s) for s in idlers),
                                     *(writer_task(s) for s in writers),
                                     *extra)
            # from here on: no input to anyone
            await settle(env, loop)
            truth = await probe_dump(env, hist, b'INBOX')
            if truth is None:
                hist.aborted = 'probe-failed'
                return
            for s in idlers:
                if s.alive and tags.get(s.conn.cid):
                    compare(hist, s, truth, counters, 'round %d' % rnd)
            # the writers must have changed the mailbox the idlers (and the
            # probe) look at: their own view after NOOP is that mailbox too
            for s in writers:
                if s.alive and not hist.violations:
                    await s.noop()
                    await s.fetch_all()
                    compare(hist, s, truth, counters,
                            'round %d, writer' % rnd)
            if hist.violations:
                break
            for s in idlers:
                tag = tags.get(s.conn.cid)
                if not s.alive or not tag:
                    continue
                s.idling = False          # type: ignore[attr-defined]
                garbage = rng.random() < 0.15
                before = len(s.conn.responses)
                r = await s.idle_end(
                    tag, b'NOTDONE\r\n' if garbage else b'DONE\r\n')
                counters['done_checked'] = counters.get('done_checked', 0) + 1
                if r.closed:
                    continue
                want = b'BAD' if garbage else b'OK'
                if r.cond != want:
                    hist.report('idle-done-wrong-result',
                                'sent %s, got %r' % (
                                    'garbage' if garbage else 'DONE', r.cond))
                extra = [x for x in s.conn.responses[before:]
                         if x.kind == 'untagged' and x.typ in (
                             b'EXISTS', b'EXPUNGE', b'FETCH')]
                if extra:
                    hist.report('idle-change-delivered-only-on-done',
                                '%d data responses arrived only with DONE: %r'
                                % (len(extra), extra[0].raw[:80]))
        for k, v in klass.items():
            counters['burst_' + k] = counters.get('burst_' + k, 0) + v
    finally:
        env.cleanup()


async def script_change_before_arm(hist: History,
                                   counters: dict[str, int]) -> None:
    """Defect #17: the writer's change lands while the idler is still
    writing '+ Idling.' (drain takes a few iterations), i.e. before the
    wait is armed."""
    spec = {'seed': 3, 'backend': 'dict', 'nmsgs': 3, 'nidlers': 1,
            'nwriters': 1, 'burst': 1, 'rounds': 1,
            'sched': {'kind': 'starve', 'max_delay': 0, 'max_drain': 0,
                      'starve': 1, 'starve_delay': 12}}
    await run_idle(spec, hist, counters)


async def script_lazy_diff(hist: History, counters: dict[str, int]) -> None:
    """The idler is a slow reader (each drain takes 10-20 loop iterations).
    The writer sets \\Seen on three messages (three FETCH lines to write),
    clears it on the third while the idler is still writing the first line,
    and sets it again: the idler must end up knowing \\Seen on all three."""
    env = await make_env('dict')
    loop = asyncio.get_event_loop()
    try:
        await provision(env, hist, 3, random.Random(5))
        idler = Session(env, hist, 1, Sched(1, 0, 0, starve=1,
                                            starve_delay=20), 1)
        w = Session(env, hist, 2, Sched(), 2)
        for s in (idler, w):
            await s.start()
            await s.select(b'INBOX')
            await s.fetch_all()
        tag = await idler.idle_begin()
        await loop.quiescent()              # type: ignore[attr-defined]
        mark = len(idler.conn.responses)

        async def lines(n: int) -> None:
            # wait until the idler has been written n FETCH lines
            for _ in range(2000):
                got = [x for x in idler.conn.responses[mark:]
                       if x.typ == b'FETCH']
                if len(got) >= n:
                    return
                await asyncio.sleep(0)

        await w.store(b'1:3', False, b'+FLAGS', False, [b'\\Seen'])
        await lines(1)      # line 1 is out, the idler drains
        await w.store(b'3', False, b'-FLAGS', False, [b'\\Seen'])
        await lines(3)      # line 3 is out (computed), the idler drains
        await w.cmd(b'STORE 3 +FLAGS (\\Seen)', delay=False)
        await settle(env, loop)
        truth = await probe_dump(env, hist, b'INBOX')
        assert truth is not None and tag is not None
        compare(hist, idler, truth, counters, 'script')
        await idler.idle_end(tag)
    finally:
        env.cleanup()


async def script_hidden_expunge(hist: History,
                                counters: dict[str, int]) -> None:
    """Another session expunges; the idler-to-be issues a non-UID FETCH
    (which may not report the expunge) and then IDLE: the expunge is due
    during that IDLE although nothing else happens."""
    env = await make_env('dict')
    loop = asyncio.get_event_loop()
    try:
        if not await provision(env, hist, 3, random.Random(1)):
            return
        idler = Session(env, hist, 1, Sched(), 1)
        writer = Session(env, hist, 2, Sched(), 2)
        for s in (idler, writer):
            await s.start()
            await s.select(b'INBOX')
            await s.fetch_all()
        await writer.store(b'2', False, b'+FLAGS', True, [b'\\Deleted'])
        await writer.cmd(b'EXPUNGE')
        await idler.fetch_all()
        tag = await idler.idle_begin()
        await settle(env, loop)
        truth = await probe_dump(env, hist, b'INBOX')
        if truth is not None and tag:
            compare(hist, idler, truth, counters, 'hidden expunge')
            await idler.idle_end(tag)
    finally:
        env.cleanup()


async def run_deleted(spec: dict[str, Any], hist: History,
                      counters: dict[str, int]) -> None:
    """The mailbox the idlers have selected is deleted (or renamed away) by
    another session: that is a change too.  Without further stimulus every
    idler must be told, once - the server says BYE and closes - and not over
    and over."""
    rng = random.Random(spec['seed'])
    env = await make_env(spec.get('backend', 'dict'))
    loop = asyncio.get_event_loop()
    try:
        if not await provision(env, hist, 1, rng):
            return
        writer = Session(env, hist, 9, Sched(), 9)
        await writer.start()
        await writer.cmd(b'CREATE Box')
        for _ in range(rng.randint(0, 2)):
            await writer.append(b'Box')
        idlers = [Session(env, hist, i + 1, Sched(spec['seed'] + i,
                                                   max_drain=rng.choice(
                                                       [0, 0, 3])), i + 1)
                  for i in range(spec.get('nidlers', 1))]
        tags = []
        for s in idlers:
            await s.start()
            await s.select(b'Box', examine=rng.random() < 0.3)
            await s.fetch_all()
            tags.append(await s.idle_begin())
        if rng.random() < 0.5:
            await loop.quiescent()      # type: ignore[attr-defined]
        if spec.get('rename'):
            r = await writer.cmd(b'RENAME Box Box2')
        else:
            r = await writer.cmd(b'DELETE Box')
        if not r.ok:
            hist.aborted = 'delete-refused'
            return
        # bounded wait that does not need quiescence (a server that says
        # BYE in a loop never becomes quiescent)
        for _ in range(400):
            await asyncio.sleep(0)
        if env.kind != 'dict':
            # virtual time only passes when nothing is runnable: with a
            # server that says BYE in a loop this never returns, the step
            # limit ends the case and run_case() counts the BYEs
            await loop.advance(3.5)     # type: ignore[attr-defined]
            for _ in range(400):
                await asyncio.sleep(0)
        for s in idlers:
            byes = sum(1 for r in s.conn.responses
                       if r.kind == 'untagged' and r.cond == b'BYE')
            counters['deleted_idlers_judged'] = counters.get(
                'deleted_idlers_judged', 0) + 1
            if byes > 1:
                hist.report('idle-bye-repeated',
                            'idler %d was sent BYE %d times after its '
                            'mailbox was %s, connection %s' % (
                                s.conn.cid, byes,
                                'renamed away' if spec.get('rename')
                                else 'deleted',
                                'closed' if s.conn.dead else 'still open'))
                return
            if byes == 0 and not s.conn.dead:
                hist.report('idle-change-not-delivered:mailbox-deleted',
                            'idler %d has not been told that its mailbox '
                            'was %s' % (s.conn.cid, 'renamed away'
                                        if spec.get('rename') else 'deleted'))
                return
    finally:
        env.cleanup()


async def script_deleted(hist: History, counters: dict[str, int]) -> None:
    await run_deleted({'seed': 3, 'backend': 'dict', 'nidlers': 2}, hist,
                      counters)


async def script_deleted_maildir(hist: History,
                                 counters: dict[str, int]) -> None:
    await run_deleted({'seed': 3, 'backend': 'maildir', 'nidlers': 1}, hist,
                      counters)


SCRIPTS = {'mailbox-deleted': script_deleted,
           'mailbox-deleted-maildir': script_deleted_maildir,
           'change-before-arm': script_change_before_arm,
           'lazy-diff': script_lazy_diff,
           'hidden-expunge': script_hidden_expunge}


class C16(Check):
    pid = 'C16'
    level = 'exploration'
    rule = ('case = 1-2 idling sessions + 1-2 writers issuing bursts of 1-5 '
            'APPEND/STORE/EXPUNGE/COPY x one external-event schedule (random '
            'delays, drain() taking 0-40 loop iterations, starvation of an '
            'idler) x 1-3 rounds; every fourth case instead ends IDLE early: '
            'DONE at an arbitrary moment (also in the middle of a '
            'notification being written), the next command at once, re-IDLE; '
            'distinct = hash of completion order + '
            'burst-landing classes; non-trivial = at least one burst change '
            'landed and one idler comparison was made')
    assumptions = [
        '"after finitely many steps" is decided as: loop quiescent (dict) / '
        '3.5 virtual seconds of polling then quiescent (maildir), with no '
        'input to any connection in between',
        'new messages announced only by EXISTS have unknown flags/UID for the '
        'idler; they are compared by position and count']
    floors = {'idle_comparisons': 300, 'burst_parked': 100,
              'burst_before_arm': 20, 'burst_during_write': 20,
              'early_done_during_write': 20, 'early_done_parked': 50,
              'idle_after_fetch': 100}

    def cases(self, tier: str, seed: int) -> Iterable[dict[str, Any]]:
        n = 1500 if tier == 'quick' else 40000
        rng = random.Random(seed * 15485863 + 16)
        for i in range(n):
            nid = rng.choice([1, 1, 2])
            backend = 'dict' if rng.random() < 0.85 else 'maildir'
            yield {'seed': seed * 1_000_003 + i, 'backend': backend,
                   'nidlers': nid, 'nwriters': rng.choice([1, 1, 2]),
                   'nmsgs': rng.randint(2, 6), 'burst': rng.randint(1, 5),
                   'rounds': rng.randint(1, 3),
                   'sched': idle_schedule(rng, nid),
                   'early_done': i % 4 == 3,
                   'mover': i % 5 == 2,
                   'outsider': i % 4 == 1 or (backend == 'maildir'
                                              and i % 2 == 0)}
            if i % 250 == 77:
                yield {'seed': seed * 1_000_003 + 600_000 + i,
                       'backend': 'dict', 'nidlers': 1, 'nwriters': 1,
                       'nmsgs': rng.choice([140, 150, 270]), 'burst': 1,
                       'rounds': 1, 'flood': rng.choice([129, 135, 260]),
                       'sched': {'kind': 'starve', 'max_delay': 0,
                                 'max_drain': 0, 'starve': 1,
                                 'starve_delay': 3000},
                       'early_done': False}
            if i % 20 == 11:
                yield {'kind': 'deleted', 'seed': seed * 1_000_003 + i,
                       'backend': backend, 'nidlers': nid}

    def setup_worker(self) -> None:
        install_glass()

    def run_case(self, spec: dict[str, Any]) -> dict[str, Any]:
        random.seed(spec.get('seed', 0))
        hist = History(str(spec.get('seed', 0)))
        extra: dict[str, int] = {}

        async def main(loop: L.CtlLoop) -> None:
            if 'script' in spec:
                await SCRIPTS[spec['script']](hist, extra)
            elif spec.get('kind') == 'deleted':
                await run_deleted(spec, hist, extra)
            else:
                await run_idle(spec, hist, extra)

        deleted = spec.get('kind') == 'deleted' or str(
            spec.get('script', '')).startswith('mailbox-deleted')
        try:
            L.run(main, max_steps=80_000 if deleted else 6_000_000
                  if spec.get('flood') else 600_000)
        except L.Deadlock:
            hist.aborted = 'deadlock'
        except L.StepLimit:
            hist.aborted = 'step-limit'
            if deleted:
                for s in hist.sessions:
                    byes = sum(1 for r in s.conn.responses
                               if r.kind == 'untagged' and r.cond == b'BYE')
                    if byes > 1:
                        hist.aborted = None
                        hist.report('idle-bye-repeated',
                                    'idler %d was sent BYE %d times within '
                                    '80000 loop steps after its mailbox '
                                    'was gone' % (s.conn.cid, byes))
                        break
        counters = summarize(hist)
        counters.update(extra)
        aborted = hist.aborted
        for s in hist.sessions:
            if s.failed and aborted is None:
                aborted = 'session-' + s.failed
        hist.attach_transcripts()
        sig = hashlib.sha1(repr((hist.order, sorted(extra.items())))
                           .encode()).hexdigest()[:16]
        landed = sum(v for k, v in extra.items() if k.startswith('burst_'))
        return {'violations': hist.violations, 'counters': counters,
                'sig': sig,
                'nontrivial': landed > 0 and
                extra.get('idle_comparisons', 0) > 0,
                'sample': {'spec': spec, 'order': [
                    '%d:%s' % (c, v.decode()) for c, v in hist.order[:50]]},
                'aborted': aborted}


CHECK = C16()
