"""C06 -- every input is answered: no hang, no internal error, no silent drop.

Deciding monitors: (1) the "answered" oracle at the client boundary after the
loop has become quiescent (tagged completion / * BAD / continuation / BYE for
every complete command line; never BYE [SERVERBUG]; never a close without
BYE; the connection task never ends with an exception); (2) the step budget
(sys.monitoring) that turns a non-terminating command into a deterministic
'hang'; (3) a canary connection whose NOOP must still be answered."""

from __future__ import annotations

import asyncio
import hashlib
import random
import re
import signal
import traceback
from typing import Any, Iterable

from .. import gen
from .. import loop as L
from ..budget import BudgetExceeded, StepBudget
from ..net import Conn, Sched, lit
from ..runner import Check
from ..servers import make_env

BUDGET = StepBudget(5_000_000)
CPU_LIMIT = 25.0     # CPU seconds (ITIMER_VIRTUAL) for one command line


def arm_cpu() -> None:
    """(Re)start the kernel's CPU-time timer for this process.  Its default
    action kills the worker, which the runner reports through
    on_worker_death: a command that burns 25 CPU seconds inside C code (e.g.
    a backtracking regex) never reaches the Python-level step budget.  CPU
    time, unlike wall-clock time, does not depend on machine load."""
    signal.signal(signal.SIGVTALRM, signal.SIG_DFL)
    signal.setitimer(signal.ITIMER_VIRTUAL, CPU_LIMIT)


def disarm_cpu() -> None:
    signal.setitimer(signal.ITIMER_VIRTUAL, 0)
_lit_end = re.compile(rb'\{(\d+)(\+?)\}\r?\n\Z')

FETCH_ATTRS = [
    b'UID', b'FLAGS', b'INTERNALDATE', b'RFC822.SIZE', b'ENVELOPE',
    b'BODYSTRUCTURE', b'BODY', b'BODY[]', b'BODY.PEEK[]', b'BODY[HEADER]',
    b'BODY[TEXT]', b'BODY[1]', b'BODY[1.MIME]', b'BODY[1.1]', b'BODY[2]',
    b'BODY[1.HEADER]', b'BODY[1.TEXT]', b'BODY[HEADER.FIELDS (Subject Date)]',
    b'BODY[HEADER.FIELDS.NOT (Subject)]', b'RFC822', b'RFC822.HEADER',
    b'RFC822.TEXT', b'BINARY[]', b'BINARY[1]', b'BINARY.PEEK[1.1]',
    b'BINARY.SIZE[]', b'BINARY.SIZE[1]', b'BODY[]<0.100>', b'BODY[]<50.1>',
    b'BODY[TEXT]<100000.10>', b'EMAILID', b'THREADID']
SEARCH_KEYS = [
    b'ALL', b'ANSWERED', b'BCC x', b'BEFORE 1-Jan-2030', b'BODY x', b'CC x',
    b'DELETED', b'DRAFT', b'FLAGGED', b'FROM x', b'HEADER Subject x',
    b'HEADER X-None ""', b'KEYWORD k', b'LARGER 10', b'NEW', b'NOT ALL',
    b'OLD', b'ON 1-Jan-2024', b'OR ALL ALL', b'RECENT', b'SEEN',
    b'SENTBEFORE 1-Jan-2030', b'SENTON 1-Jan-2024', b'SENTSINCE 1-Jan-1990',
    b'SINCE 1-Jan-1990', b'SMALLER 100000', b'SUBJECT x', b'TEXT x', b'TO x',
    b'UID 1:*', b'UNANSWERED', b'UNDELETED', b'UNDRAFT', b'UNFLAGGED',
    b'UNKEYWORD k', b'UNSEEN', b'1:*', b'(ALL)', b'CHARSET UTF-8 SUBJECT x',
    b'SUBJECT "\xc3\xa9"', b'CHARSET UTF-8 SUBJECT {2+}\r\n\xc3\xa9']

SIEVE_CMDS = [b'CAPABILITY', b'NOOP', b'NOOP "tag"', b'LOGOUT', b'STARTTLS',
              b'AUTHENTICATE "PLAIN"', b'AUTHENTICATE "PLAIN" "AGEAYg=="',
              b'HAVESPACE "x" 10', b'PUTSCRIPT "x" {5+}\r\nkeep;',
              b'LISTSCRIPTS', b'SETACTIVE "x"', b'SETACTIVE ""',
              b'GETSCRIPT "x"', b'DELETESCRIPT "x"',
              b'RENAMESCRIPT "x" "y"', b'CHECKSCRIPT {5+}\r\nkeep;',
              b'UNAUTHENTICATE',
              # synchronising literals, which ManageSieve does not have
              b'NOOP {5}', b'PUTSCRIPT "x" {7}', b'CHECKSCRIPT {7}',
              b'GETSCRIPT {1}', b'AUTHENTICATE "PLAIN" {4}',
              b'PUTSCRIPT {1} {5+}\r\nkeep;', b'RENAMESCRIPT "x" {1}']


TEASERS = [b'z APPEND INBOX {0+}\r\n', b'z LOGIN {0+}\r\n',
           b'z APPEND INBOX {5+}\r\nab', b'z NOO', b'z LOGIN {3+}\r\nabc',
           b'z APPEND INBOX {6+}\r\na{3+}\r\n', b'z LOGIN a {0+}\r\n',
           b'z SELECT {0+}\r\n', b'z APPEND INBOX {3}\r\n', b'\r\n',
           b'z AUTHENTICATE PLAIN\r\n', b'z IDLE\r\n', b'{0+}\r\n']


class Ctx:
    def __init__(self) -> None:
        self.violations: list[dict[str, Any]] = []
        self.counters: dict[str, int] = {}
        self.kinds: set[str] = set()
        self.max_steps_per_line = 0

    def count(self, k: str, n: int = 1) -> None:
        self.counters[k] = self.counters.get(k, 0) + n

    def report(self, mech: str, detail: str, conn: Conn | None = None,
               **w: Any) -> None:
        if len(self.violations) < 10:
            wit = dict(w)
            if conn is not None:
                wit['transcript'] = conn.dump()[-40:]
            self.violations.append({'mech': mech, 'detail': detail,
                                    'witness': wit})


def exc_mech(exc: BaseException) -> str:
    """Structural id of an internal error: exception class + innermost
    pymap function."""
    where = '?'
    tb = traceback.extract_tb(exc.__traceback__)
    for fr in reversed(tb):
        if '/pymap/' in fr.filename:
            mod = fr.filename.split('/pymap/', 1)[1].rsplit('.', 1)[0]
            where = '%s.%s' % (mod.replace('/', '.'), fr.name)
            break
    mech = '%s@%s' % (type(exc).__name__, where)
    if mech == 'NotImplementedError@mime.cte.of_cte' and exc.args and \
            exc.args[0] in ('7bit', '8bit', 'binary'):
        # RFC 2045 identity encodings are not "unknown"
        mech += ':identity-encoding'
    return mech


def judge_close(ctx: Ctx, conn: Conn, what: str) -> bool:
    """Connection-level verdicts; True if something was reported.  The
    mechanism id names the *cause* (exception class + innermost pymap
    function) when there is one; the symptoms (SERVERBUG BYE, silent close,
    truncated response) go into the detail."""
    exc = conn.task_exc
    if isinstance(exc, BudgetExceeded):
        ctx.report('hang', 'step budget exceeded while serving %s' % what,
                   conn)
        return True
    byes = [r for r in conn.responses if r.cond == b'BYE'
            and r.kind == 'untagged']
    symptoms = []
    if any(r.code == b'SERVERBUG' for r in byes):
        symptoms.append('BYE [SERVERBUG]')
    if conn.closed and not byes and not conn.eof_sent:
        symptoms.append('closed without BYE')
    tail = conn.framer.pending
    if conn.closed and tail:
        symptoms.append('response truncated at %r' % tail[:60])
    if exc is not None and not isinstance(exc, asyncio.CancelledError):
        ctx.report('internal-error:' + exc_mech(exc),
                   '%r (%s) while serving %s' % (
                       exc, ', '.join(symptoms) or 'task ended with the '
                       'exception', what), conn)
        return True
    if symptoms:
        mech = 'serverbug-bye' if 'BYE [SERVERBUG]' in symptoms else \
            'truncated-response' if tail else 'closed-without-bye'
        ctx.report(mech, '%s while serving %s' % (', '.join(symptoms), what),
                   conn)
        return True
    return False


async def send_line(ctx: Ctx, conn: Conn, line: bytes, what: str) -> str:
    """Feed one complete command line and decide whether it was answered.
    Returns 'answered' | 'closed' | 'violation'."""
    loop = conn.loop
    before = len(conn.responses)
    BUDGET.reset()
    arm_cpu()
    conn.feed(line)
    ctx.count('lines')
    pending = line
    rounds = 0
    while True:
        await loop.quiescent()          # type: ignore[attr-defined]
        new = conn.responses[before:]
        steps = BUDGET.reset()
        ctx.max_steps_per_line = max(ctx.max_steps_per_line, steps)
        if conn.dead:
            # let the task finish unwinding
            await loop.quiescent()      # type: ignore[attr-defined]
            if judge_close(ctx, conn, what):
                return 'violation'
            return 'closed'
        if any(r.kind == 'tagged' or r.cond in (b'BAD', b'BYE')
               for r in new):
            ctx.count('answered')
            return 'answered'
        conts = [r for r in new if r.kind == 'cont']
        m = _lit_end.search(pending)
        rounds += 1
        if rounds > 8:
            ctx.report('unanswered-after-continuations',
                       'no completion after 8 continuation rounds for %s'
                       % what, conn)
            return 'violation'
        if conts:
            before = len(conn.responses)
            ctx.count('continuations')
            if m and not m.group(2):
                n = int(m.group(1))
                if n > 100_000:
                    return 'answered'    # legitimately waiting for data
                pending = b'x' * n + b'\r\n'
            else:
                pending = b'*\r\n'
            conn.feed(pending)
            continue
        if m and m.group(2):
            # a non-synchronising literal that the generator left open
            n = int(m.group(1))
            if n > 100_000:
                return 'answered'
            pending = b'y' * n + b'\r\n'
            conn.feed(pending)
            continue
        ctx.report('no-answer',
                   'complete command line got no response and the server '
                   'waits for more input: %s' % what, conn)
        return 'violation'


async def open_conn(env: Any, state: str, cid: int,
                    sieve: bool = False) -> Conn | None:
    c = Conn(cid, Sched())
    c.start(env.sieve if sieve else env.imap)
    await c.loop.quiescent()            # type: ignore[attr-defined]
    if sieve:
        if state != 'nonauth':
            c.feed(b'AUTHENTICATE "PLAIN" "AHRlc3R1c2VyAHRlc3RwYXNz"\r\n')
            await c.loop.quiescent()    # type: ignore[attr-defined]
        return c
    await c.greeting()
    if state in ('auth', 'selected'):
        r = await c.simple(b'LOGIN testuser testpass')
        if not r.ok:
            return None
    if state == 'selected':
        await c.simple(b'APPEND INBOX ' + lit(
            b'From: a@b\r\nSubject: s\r\n\r\nbody\r\n'))
        r = await c.simple(b'SELECT INBOX')
        if not r.ok:
            return None
    return c


async def canary(ctx: Ctx, env: Any) -> None:
    c = await open_conn(env, 'auth', 90)
    if c is None:
        ctx.report('canary-login-failed', 'a fresh connection cannot log in')
        return
    BUDGET.reset()
    r = await c.simple(b'NOOP')
    ctx.count('canary')
    if not r.ok:
        ctx.report('canary-not-served', 'NOOP on a fresh connection: %r'
                   % r.cond, c)
    r = await c.simple(b'STATUS INBOX (MESSAGES)')
    if not r.ok:
        ctx.report('canary-not-served', 'STATUS on a fresh connection: %r'
                   % r.cond, c)
    await c.simple(b'LOGOUT')


async def case_lines(spec: dict[str, Any], ctx: Ctx) -> None:
    rng = random.Random(spec['seed'])
    env = await make_env(spec['backend'], {'testuser': 'testpass'})
    try:
        state = spec['state']
        conn: Conn | None = None
        n = 0
        for k in range(spec['nlines']):
            if conn is None or conn.dead:
                n += 1
                conn = await open_conn(env, state, n)
                if conn is None:
                    ctx.report('setup-failed', 'cannot reach state ' + state)
                    return
            body = gen.hostile_line(rng, state)
            if state != 'nonauth' and k == spec['nlines'] // 2 and \
                    spec['seed'] % 5 == 0:
                # a "pumped" pair: a long name made of one unit, then a
                # pattern of many wildcards that almost matches it
                if rng.random() < 0.6:
                    unit = rng.choice([b'a', b'ab', b'x/', b'a.'])
                    name = unit * rng.choice([30, 60, 120])
                    stars = rng.choice([6, 10, 16, 30])
                    wc = rng.choice([b'*', b'%', b'*%'])
                    body = rng.choice([b'LIST', b'LSUB']) + b' "" "' + \
                        (unit + wc) * stars + b'!"'
                    ctx.count('pumped_patterns')
                else:
                    # ... or a name of hundreds of levels (a listing of n
                    # levels is n^2/2 characters long: 1000 is what fits
                    # the step budget)
                    name = b'/'.join([rng.choice([b'a', b'd'])] *
                                     rng.choice([300, 700, 1000]))
                    body = rng.choice([
                        b'LIST "" *', b'LIST "" %', b'LSUB "" *',
                        b'RENAME a zz', b'DELETE a', b'LIST "" "*/%"',
                        b'STATUS ' + name + b' (MESSAGES)'])
                    ctx.count('deep_names')
                await send_line(ctx, conn, b'p%d CREATE "%s"\r\n' % (k, name),
                                'CREATE of a pumped name')
                if rng.random() < 0.5:
                    await send_line(ctx, conn, b'q%d SUBSCRIBE "%s"\r\n'
                                    % (k, name), 'SUBSCRIBE of a pumped name')
            r = rng.random()
            if r < 0.92:
                tag = b'f%d' % k
            elif r < 0.96:
                tag = rng.choice([b'', b'*', b'+', b'"t"', b'\xff', b'(',
                                  b'{3}', b'a b'.split()[0]])
            else:
                tag = b'T' * rng.choice([100, 5000])
            line = (tag + b' ' + body)[:60000] + b'\r\n'
            ctx.kinds.add(state + ':' + body.split(b' ')[0][:12].decode(
                'latin-1'))
            res = await send_line(ctx, conn, line, repr(line[:300]))
            if res == 'violation':
                break
        if not ctx.violations:
            await canary(ctx, env)
        if conn is not None and not conn.dead:
            # half a command (often an open literal), then the peer goes away
            teaser = rng.choice(TEASERS) if rng.random() < 0.5 else b''
            if 'teaser' in spec:
                teaser = spec['teaser'].encode('latin-1')
            BUDGET.reset()
            if teaser:
                conn.feed(teaser)
                ctx.count('eof_teasers')
            before_eof = len(conn.out)
            conn.feed_eof()
            await conn.loop.quiescent()     # type: ignore[attr-defined]
            if re.search(rb'\* BYE \[SERVERBUG\]',
                         bytes(conn.out[before_eof:])):
                # a client that closes its side in the middle of a command
                # (it can still read) is no server bug
                ctx.report('internal-error-bye-on-client-eof',
                           'after %r + EOF the server says %r' % (
                               teaser, bytes(conn.out[before_eof:])[:80]),
                           conn)
            if isinstance(conn.task_exc, BudgetExceeded):
                ctx.report('hang', 'step budget exceeded after %r + EOF'
                           % teaser, conn)
            elif not conn.task_done:
                ctx.report('connection-task-survives-eof',
                           'after %r + EOF the connection task neither '
                           'ended nor is it runnable' % teaser, conn)
            if conn.task_exc is not None and not isinstance(
                    conn.task_exc, asyncio.CancelledError):
                judge_close(ctx, conn, 'EOF')
    finally:
        env.cleanup()


async def case_sieve(spec: dict[str, Any], ctx: Ctx) -> None:
    rng = random.Random(spec['seed'])
    env = await make_env('dict')
    state = spec['state']
    conn: Conn | None = None
    n = 0
    for k in range(spec['nlines']):
        if conn is None or conn.dead:
            n += 1
            conn = await open_conn(env, state, n, sieve=True)
            assert conn is not None
        base = rng.choice(SIEVE_CMDS)
        r = rng.random()
        if r < 0.3:
            toks = base.split(b' ')
            toks[rng.randrange(len(toks))] = rng.choice(gen.HOSTILE_LEAVES)
            body = b' '.join(toks)
        elif r < 0.6:
            buf = bytearray(base)
            for _ in range(rng.randint(1, 3)):
                pos = rng.randrange(len(buf) + 1)
                buf.insert(pos, rng.choice(b'\x00\xff"\\(){} \x80\r'))
            body = gen.sanitize_literals(bytes(buf).replace(b'\n', b' '))
        elif r < 0.7:
            body = gen.sanitize_literals(bytes(
                rng.randrange(256) for _ in range(rng.randint(1, 300))
            ).replace(b'\n', b' '))
        else:
            body = base
        line = body[:60000] + b'\r\n'
        before = len(conn.out)
        BUDGET.reset()
        arm_cpu()
        conn.feed(line)
        ctx.count('sieve_lines')
        rounds = 0
        while True:
            await conn.loop.quiescent()     # type: ignore[attr-defined]
            new = bytes(conn.out[before:])
            ctx.max_steps_per_line = max(ctx.max_steps_per_line,
                                         BUDGET.reset())
            if conn.dead:
                await conn.loop.quiescent()  # type: ignore[attr-defined]
                exc = conn.task_exc
                if isinstance(exc, BudgetExceeded):
                    ctx.report('hang', 'sieve: %r' % line[:200], conn)
                elif exc is not None:
                    ctx.report('sieve-task-exception:' + exc_mech(exc),
                               'ManageSieve connection died with %r on %r'
                               % (exc, line[:200]), conn)
                elif not re.search(rb'(?mi)^BYE\b', bytes(conn.out)):
                    ctx.report('sieve-closed-without-bye',
                               'on %r' % line[:200], conn)
                break
            if re.search(rb'(?mi)^(OK|NO|BYE)\b', new):
                ctx.count('sieve_answered')
                break
            rounds += 1
            m = _lit_end.search(line)
            if new and rounds < 4:
                # SASL challenge: cancel
                before = len(conn.out)
                line = b'"*"\r\n'
                conn.feed(line)
                continue
            if m and m.group(2) and rounds < 4:
                line = b'z' * min(int(m.group(1)), 100_000) + b'\r\n'
                conn.feed(line)
                continue
            ctx.report('sieve-no-answer', 'no response to %r' % line[:200],
                       conn)
            break
        if ctx.violations:
            break


async def case_message(spec: dict[str, Any], ctx: Ctx) -> None:
    rng = random.Random(spec['seed'])
    env = await make_env(spec['backend'], {'testuser': 'testpass'})
    try:
        conn = await open_conn(env, 'auth', 1)
        assert conn is not None
        msg = gen.hostile_message(rng, b'c06', max_len=rng.choice(
            [500, 4000, 60000]))
        tag = b'ap'
        res = await send_line(ctx, conn, tag + b' APPEND INBOX ' + lit(msg) +
                              b'\r\n', 'APPEND of %r' % msg[:400])
        if res != 'answered':
            return
        ctx.count('messages')
        n = 1
        attrs = rng.sample(FETCH_ATTRS, 12)
        keys = rng.sample(SEARCH_KEYS, 10)
        cmds = [b'SELECT INBOX'] + [b'FETCH 1 (' + a + b')' for a in attrs] \
            + [b'SEARCH ' + k for k in keys] + \
            [b'COPY 1 INBOX', b'FETCH 1:* (ENVELOPE BODYSTRUCTURE)',
             b'STORE 1 +FLAGS (\\Deleted)', b'EXPUNGE']
        for k, body in enumerate(cmds):
            if conn is None or conn.dead:
                n += 1
                conn = await open_conn(env, 'auth', n)
                assert conn is not None
                await conn.simple(b'SELECT INBOX')
            ctx.kinds.add('msg:' + body.split(b'(')[-1][:14].decode('latin-1'))
            res = await send_line(
                ctx, conn, b'm%d ' % k + body + b'\r\n',
                '%r on stored message %r' % (body, msg[:300]))
            if res == 'violation':
                return
            ctx.count('message_commands')
        await canary(ctx, env)
    finally:
        env.cleanup()


LOCKED_CMDS = [b'NOOP', b'CHECK', b'STATUS INBOX (MESSAGES UIDNEXT)',
               b'FETCH 1 (FLAGS)', b'FETCH 1 (BODY[])',
               b'APPEND INBOX {3+}\r\nabc', b'STORE 1 +FLAGS (\\Flagged)',
               b'EXPUNGE', b'SELECT INBOX', b'EXAMINE INBOX', b'COPY 1 INBOX',
               b'LSUB "" *', b'SUBSCRIBE INBOX', b'LIST "" *', b'CLOSE',
               b'CREATE locked-new', b'SEARCH ALL', b'UID FETCH 1:* (FLAGS)',
               b'LOGOUT']


HALFGONE_CMDS = [b'NOOP', b'CHECK', b'STATUS Gone (MESSAGES UIDNEXT)',
                 b'FETCH 1 (FLAGS)', b'FETCH 1 (BODY[])',
                 b'APPEND Gone {3+}\r\nabc', b'STORE 1 +FLAGS (\\Flagged)',
                 b'EXPUNGE', b'SELECT Gone', b'EXAMINE Gone', b'COPY 1 Gone',
                 b'LSUB "" *', b'LIST "" *', b'CLOSE', b'SEARCH ALL',
                 b'UID FETCH 1:* (FLAGS)', b'DELETE Gone',
                 b'RENAME Gone Gone2', b'IDLE', b'LOGOUT']


async def case_halfgone(spec: dict[str, Any], ctx: Ctx) -> None:
    """maildir: another session or process is in the middle of deleting a
    folder (``remove_folder`` removes the files, then cur/new/tmp, then the
    folder): the files and the three sub-directories are gone, the folder
    itself is still there - or, second variant, everything is gone.  Commands
    of a connection that has the folder selected, or names it, must be
    answered (NO is fine) or the connection ended with a BYE that is not an
    internal error."""
    import os
    rng = random.Random(spec['seed'])
    env = await make_env(spec['backend'], {'testuser': 'testpass'})
    try:
        conn = await open_conn(env, 'auth', 1)
        assert conn is not None
        loop = conn.loop
        await conn.simple(b'CREATE Gone')
        await conn.simple(b'APPEND Gone ' + lit(
            b'From: a@b\r\nSubject: s\r\n\r\nbody\r\n'))
        if spec['selected']:
            await conn.simple(b'SELECT Gone')
        else:
            await conn.simple(b'STATUS Gone (MESSAGES)')
        udir = os.path.join(env.base_dir, 'testuser')
        path = os.path.join(udir, 'Gone' if spec['backend'].endswith('fs')
                            else '.Gone')
        if not os.path.isdir(os.path.join(path, 'cur')):
            ctx.aborted = 'halfgone-folder-not-found'
            return
        for root, dirs, files in os.walk(path, topdown=False):
            for e in files:
                os.remove(os.path.join(root, e))
            for e in dirs:
                os.rmdir(os.path.join(root, e))
        if spec['all']:
            os.rmdir(path)
        ctx.count('halfgone_folders')
        n = 1
        for body in rng.sample(HALFGONE_CMDS, 4):
            if conn is None or conn.dead:
                break
            n += 1
            before = len(conn.responses)
            BUDGET.reset()
            line = b'h%d ' % n + body + b'\r\n'
            conn.feed(line)
            if body == b'IDLE':
                await loop.quiescent()      # type: ignore[attr-defined]
                await loop.advance(2.5)     # type: ignore[attr-defined]
                await loop.quiescent()      # type: ignore[attr-defined]
                if not conn.dead:
                    conn.feed(b'DONE\r\n')
            ctx.count('lines')
            ctx.count('halfgone_commands')
            answered = False
            for _ in range(30):
                await loop.quiescent()      # type: ignore[attr-defined]
                new = conn.responses[before:]
                if conn.dead or any(r.kind == 'tagged' or r.cond == b'BYE'
                                    for r in new):
                    answered = True
                    break
                await loop.advance(1.0)     # type: ignore[attr-defined]
            BUDGET.reset()
            what = '%r while the %sfolder Gone is %s' % (
                line, 'selected ' if spec['selected'] else '',
                'gone' if spec['all'] else 'half deleted (files and '
                'cur/new/tmp removed, the folder not yet)')
            if conn.dead:
                await loop.quiescent()      # type: ignore[attr-defined]
                if judge_close(ctx, conn, what):
                    return
                break
            if not answered:
                ctx.report('no-answer:folder-half-deleted',
                           'no answer within 30 virtual seconds to ' + what,
                           conn)
                return
            ctx.count('answered')
        await canary(ctx, env)
    finally:
        env.cleanup()


async def case_oversize(spec: dict[str, Any], ctx: Ctx) -> None:
    """A deployment with a small APPENDLIMIT (``max_append_len``): a message
    over the limit, spelled as a non-synchronising literal - whose octets
    are on the wire whether the server wants them or not - followed by more
    commands in the same segment.  The APPEND may be refused; each command
    line gets exactly one tagged reply, and the refused literal's content is
    data, not commands."""
    rng = random.Random(spec['seed'])
    limit = spec['limit']
    env = await make_env('dict', {'testuser': 'testpass'},
                         max_append_len=limit)
    try:
        conn = await open_conn(env, 'selected', 1)
        if conn is None:
            ctx.report('setup-failed', 'cannot reach state selected')
            return
        over = spec['over']
        lines = [b'x1 CLOSE', b'x2 CREATE Planted', b'x3 DELETE INBOX',
                 b'', b'x4 LOGOUT', b'Subject: s', b'x5 NOOP']
        rng.shuffle(lines)
        body = b'\r\n'.join(lines) + b'\r\n'
        n = limit + over
        body = (body * (n // len(body) + 1))[:n] if n > 0 else b''
        plus = b'+'
        seg = b'a1 APPEND INBOX ' + rng.choice([b'', b'(\\Seen) ']) + \
            b'{%d%s}\r\n' % (n, plus) + body
        if spec.get('multi'):
            seg += b' {5+}\r\nabcde'
        seg += b'\r\na2 NOOP\r\na3 FETCH 1 (UID)\r\n'
        start = len(conn.responses)
        conn.feed(seg)
        ctx.count('oversize_appends')
        await conn.loop.quiescent()     # type: ignore[attr-defined]
        new = conn.responses[start:]
        tags = [r.tag for r in new if r.kind == 'tagged']
        what = 'max_append_len=%d, APPEND {%d+} and two more commands in ' \
            'one segment' % (limit, n)
        extra = [t for t in tags if t not in (b'a1', b'a2', b'a3')]
        stray = [r.raw[:60] for r in new
                 if r.kind == 'untagged' and r.cond == b'BAD']
        if extra:
            ctx.report('literal-content-executed-as-commands',
                       '%s: tagged replies for %r, which were never sent as '
                       'commands' % (what, extra[:4]))
        elif stray:
            ctx.report('refused-literal-not-fully-consumed',
                       '%s: %r' % (what, stray[:2]))
        elif tags != [b'a1', b'a2', b'a3'] and not conn.dead:
            ctx.report('command-unanswered',
                       '%s: tagged replies %r' % (what, tags))
        elif tags == [b'a1', b'a2', b'a3']:
            last = [r for r in new if r.kind == 'tagged'][-1]
            if last.cond != b'OK':
                ctx.report('refused-command-changed-state',
                           '%s: FETCH afterwards answered %r %r' % (
                               what, last.cond, (last.text or b'')[:60]))
        ctx.counters['lines'] = ctx.counters.get('lines', 0) + 3
        if not ctx.violations:
            await canary(ctx, env)
    finally:
        env.cleanup()


async def case_locked(spec: dict[str, Any], ctx: Ctx) -> None:
    """maildir: another process holds one of the store's lock files for
    longer than the server is willing to wait.  Every command must still be
    answered (NO [TIMEOUT] is fine) or the connection ended with BYE; virtual
    time is advanced while waiting."""
    import os
    rng = random.Random(spec['seed'])
    env = await make_env(spec['backend'], {'testuser': 'testpass'})
    try:
        conn = await open_conn(env, 'selected', 1)
        assert conn is not None
        loop = conn.loop
        udir = os.path.join(env.base_dir, 'testuser')
        n = 1
        for body in rng.sample(LOCKED_CMDS, 5):
            if conn is None or conn.dead:
                n += 1
                conn = await open_conn(env, 'selected', n)
                assert conn is not None
            lock = os.path.join(udir, spec['lock'])
            try:
                os.close(os.open(lock, os.O_CREAT | os.O_EXCL | os.O_WRONLY))
            except FileExistsError:
                pass
            before = len(conn.responses)
            BUDGET.reset()
            line = b'k%d ' % n + body + b'\r\n'
            conn.feed(line)
            ctx.count('lines')
            ctx.count('locked_commands')
            answered = False
            for _ in range(60):
                await loop.quiescent()      # type: ignore[attr-defined]
                new = conn.responses[before:]
                if conn.dead or any(r.kind == 'tagged' or r.cond == b'BYE'
                                    for r in new):
                    answered = True
                    break
                await loop.advance(1.0)     # type: ignore[attr-defined]
            BUDGET.reset()
            try:
                os.unlink(lock)
            except FileNotFoundError:
                pass
            what = '%r while %s is held by another process' % (
                line, spec['lock'])
            if conn.dead:
                await loop.quiescent()      # type: ignore[attr-defined]
                if judge_close(ctx, conn, what):
                    return
                continue
            if not answered:
                ctx.report('no-answer:lock-held',
                           'no answer within 60 virtual seconds to ' + what,
                           conn)
                return
            ctx.count('answered')
        await canary(ctx, env)
    finally:
        env.cleanup()


async def case_pump(spec: dict[str, Any], ctx: Ctx) -> None:
    """One header whose value is a pumped string (prefix + unit x n + tail),
    enumerated, not drawn: APPEND, FETCH of what is computed from headers,
    SEARCH over them."""
    env = await make_env(spec['backend'], {'testuser': 'testpass'})
    try:
        conn = await open_conn(env, 'auth', 1)
        assert conn is not None
        if 'deep' in spec:
            msg = gen.deep_mime(spec['deep'], spec['mime'])
        else:
            value = gen.PUMP_PREFIXES[spec['p']] + \
                gen.PUMP_UNITS[spec['u']] * spec['n'] + \
                gen.PUMP_TAILS[spec['t']]
            msg = b'X-VF-ID: c06\r\n' + gen.PUMP_HEADERS[spec['h']] + \
                b': ' + value + b'\r\n\r\nbody\r\n'
        res = await send_line(ctx, conn, b'ap APPEND INBOX ' + lit(msg) +
                              b'\r\n', 'APPEND of %r' % msg[:400])
        if res != 'answered':
            return
        ctx.count('pumped_messages')
        for k, body in enumerate([
                b'SELECT INBOX', b'FETCH 1 (ENVELOPE BODYSTRUCTURE)',
                b'SEARCH SUBJECT x FROM y HEADER ' +
                gen.PUMP_HEADERS[spec.get('h', 0)] + b' z TEXT w'] + ([
                    b'FETCH 1 (BODY)', b'FETCH 1 (BODY.PEEK[1.1.1.1])',
                    b'FETCH 1 (BODY.PEEK[1.1.HEADER] BODY.PEEK[1.MIME])',
                    b'FETCH 1 (BINARY.PEEK[1] RFC822.SIZE)',
                    b'SEARCH BODY leaf', b'COPY 1 INBOX',
                    b'FETCH 1:* (BODYSTRUCTURE)']
                    if 'deep' in spec else [])):
            if conn.dead:
                return
            res = await send_line(
                ctx, conn, b'm%d ' % k + body + b'\r\n',
                '%r on stored message %r' % (body, msg[:300]))
            if res == 'violation':
                return
            ctx.count('message_commands')
    finally:
        env.cleanup()


async def script_lines(spec: dict[str, Any], ctx: Ctx) -> None:
    """Deterministic trigger: the given lines (latin-1) in the given state."""
    env = await make_env(spec.get('backend', 'dict'),
                         {'testuser': 'testpass'})
    try:
        conn = await open_conn(env, spec['state'], 1)
        assert conn is not None
        for line in spec['lines']:
            if conn.dead:
                break
            raw = line.encode('latin-1') + b'\r\n'
            await send_line(ctx, conn, raw, repr(raw[:200]))
        if 'teaser' in spec and not conn.dead:
            BUDGET.reset()
            conn.feed(spec['teaser'].encode('latin-1'))
            conn.feed_eof()
            await conn.loop.quiescent()     # type: ignore[attr-defined]
            if isinstance(conn.task_exc, BudgetExceeded):
                ctx.report('hang', 'step budget exceeded after %r + EOF'
                           % spec['teaser'], conn)
        if not ctx.violations:
            await canary(ctx, env)
    finally:
        env.cleanup()


async def script_message(spec: dict[str, Any], ctx: Ctx) -> None:
    env = await make_env(spec.get('backend', 'dict'),
                         {'testuser': 'testpass'})
    try:
        conn = await open_conn(env, 'auth', 1)
        assert conn is not None
        msg = spec['msg'].encode('latin-1')
        res = await send_line(ctx, conn, b'ap APPEND INBOX ' + lit(msg) +
                              b'\r\n', 'APPEND of %r' % msg[:300])
        if res != 'answered':
            return
        await send_line(ctx, conn, b's SELECT INBOX\r\n', 'SELECT')
        for k, body in enumerate(spec['cmds']):
            if conn.dead:
                break
            await send_line(ctx, conn, b'm%d ' % k + body.encode('latin-1') +
                            b'\r\n', '%r on stored message %r' % (
                                body, msg[:200]))
    finally:
        env.cleanup()


async def case_cross(spec: dict[str, Any], ctx: Ctx) -> None:
    """A concurrent workload of C01/C02 replayed under this oracle."""
    from ..workload import DEFAULT_WEIGHTS, History
    from .c01 import run_sessions
    hist = History(str(spec['seed']))
    await run_sessions(spec, hist, DEFAULT_WEIGHTS)
    for s in hist.sessions:
        ctx.count('cross_commands', len(s.results))
        conn = s.conn
        if conn.dead or conn.task_exc is not None:
            judge_close(ctx, conn, 'concurrent workload (session %d)'
                        % conn.cid)
    ctx.kinds.add('cross:%d' % len(hist.order))


class C06(Check):
    pid = 'C06'
    level = 'exploration'
    rule = ('case = (listener, backend, connection state, class) where class '
            'is a batch of hostile command lines (grammar-derived with '
            'hostile leaves / byte-mutated / raw bytes, < 64 KiB), a hostile '
            'stored message fetched with 12 FETCH attributes and searched '
            'with 10 SEARCH keys, a batch of ManageSieve lines, or a '
            'concurrent C01-style workload; distinct = hash of the set of '
            '(state, command word) pairs; non-trivial = at least 3 lines '
            'were judged')
    assumptions = [
        'bounded steps = 5M JUMP|PY_START monitoring events per command line '
        'plus 400 per byte of output '
        '(observed maximum is recorded in the evidence)',
        'lines are kept below the 64 KiB StreamReader limit; TLS handshake '
        'is a no-op on the in-memory transport']
    floors = {'lines': 3000, 'answered': 2500, 'message_commands': 1000,
              'sieve_lines': 300, 'canary': 100, 'pumped_messages': 1000,
              'halfgone_commands': 100}
    time_cap = {'quick': 90.0, 'thorough': 900.0}

    def cases(self, tier: str, seed: int) -> Iterable[dict[str, Any]]:
        n = 3000 if tier == "quick" else 60000
        rng = random.Random(seed * 7177 + 6)
        # really nested MIME, around and beyond what recursion survives
        for depth in (8, 31, 32, 33, 64, 150, 280, 400, 1200):
            for mime in ('multipart', 'rfc822', 'mixed'):
                for backend in ('dict', 'maildir'):
                    yield {'kind': 'pump', 'deep': depth, 'mime': mime,
                           'backend': backend, 'seed': seed}
        # pumped header values, enumerated (the tail varies with the seed)
        k = 0
        for h in range(len(gen.PUMP_HEADERS)):
            for p in range(len(gen.PUMP_PREFIXES)):
                for u in range(len(gen.PUMP_UNITS)):
                    k += 1
                    for nn in ((40,) if tier == 'quick' else (30, 200)):
                        yield {'kind': 'pump', 'h': h, 'p': p, 'u': u,
                               'n': nn, 't': (k + seed) % len(gen.PUMP_TAILS),
                               'backend': 'maildir' if k % 4 == 0 else 'dict',
                               'seed': seed}
        for i in range(40 if tier == 'quick' else 400):
            yield {'kind': 'oversize', 'seed': seed * 1_000_003 + i,
                   'limit': [64, 200, 1000, 5000, 10000][i % 5],
                   'over': [1, 0, 37, 3000, -1, 20000][i % 6],
                   'multi': i % 7 == 3}
        for i in range(64 if tier == 'quick' else 640):
            yield {'kind': 'halfgone', 'seed': seed * 1_000_003 + i,
                   'backend': 'maildir' if i % 2 else 'maildir-fs',
                   'selected': i % 4 < 2, 'all': i % 8 >= 6}
        for i in range(60 if tier == 'quick' else 600):
            yield {'kind': 'locked', 'seed': seed * 1_000_003 + i,
                   'backend': 'maildir' if i % 2 else 'maildir-fs',
                   'lock': 'dovecot-uidlist.lock' if i % 3
                   else 'subscriptions.lock'}
        for i in range(n):
            r = rng.random()
            s = seed * 1_000_003 + i
            backend = rng.choice(['dict', 'dict', 'dict', 'maildir'])
            if r < 0.55:
                yield {'kind': 'lines', 'seed': s, 'backend': backend,
                       'state': rng.choice(['nonauth', 'auth', 'selected',
                                            'selected']), 'nlines': 8}
            elif r < 0.8:
                yield {'kind': 'message', 'seed': s, 'backend': backend}
            elif r < 0.9:
                yield {'kind': 'sieve', 'seed': s, 'backend': 'dict',
                       'state': rng.choice(['nonauth', 'auth']),
                       'nlines': 8}
            else:
                nsess = rng.choice([2, 3])
                yield {'kind': 'cross', 'seed': s, 'backend': backend,
                       'nsess': nsess, 'nmsgs': rng.randint(2, 5),
                       'ncmds': rng.randint(3, 8),
                       'sched': {'max_delay': rng.choice([0, 2, 8]),
                                 'max_drain': rng.choice([0, 3])},
                       'deliverer': rng.random() < 0.6}

    def setup_worker(self) -> None:
        BUDGET.install()
        # 5M steps per command line plus 400 per byte of output: a listing of
        # a 1000-level name is half a megabyte, encoded character by
        # character in Python
        from ..net import MemWriter
        MemWriter.on_bytes = lambda n: BUDGET.credit(400 * n)

    def on_worker_death(self, rec: dict[str, Any]) -> dict[str, Any] | None:
        if rec.get('status') == -signal.SIGVTALRM:
            return {'mech': 'hang:cpu-time',
                    'detail': 'a single command line consumed more than %d '
                    'CPU seconds without the interpreter making progress '
                    '(no Python-level step budget event): case %r' % (
                        CPU_LIMIT, rec.get('spec')),
                    'witness': {'spec': rec.get('spec')}}
        return None

    def run_case(self, spec: dict[str, Any]) -> dict[str, Any]:
        random.seed(spec['seed'])
        ctx = Ctx()
        fn = {'lines': case_lines, 'message': case_message,
              'sieve': case_sieve, 'cross': case_cross,
              'pump': case_pump, 'locked': case_locked,
              'halfgone': case_halfgone,
              'oversize': case_oversize,
              'script-lines': script_lines,
              'script-message': script_message}[
                  spec.get('kind') or 'script-' + spec['script']]

        async def main(loop: L.CtlLoop) -> None:
            await fn(spec, ctx)

        aborted = None
        # every fourth case runs with --debug logging: the server then
        # formats every line it reads and writes for the log, which is one
        # more consumer of hostile bytes
        import logging
        plog = logging.getLogger('pymap')
        old_level, old_prop = plog.level, plog.propagate
        debug = spec['seed'] % 4 == 1
        if debug:
            if not any(isinstance(h, logging.NullHandler)
                       for h in plog.handlers):
                plog.addHandler(logging.NullHandler())
            plog.setLevel(logging.DEBUG)
            plog.propagate = False
            ctx.counters['cases_with_debug_logging'] = 1
        try:
            arm_cpu()
            L.run(main, max_steps=3_000_000)
        except L.Deadlock:
            ctx.report('deadlock', 'nothing runnable although the harness '
                       'is waiting for a response')
        except BudgetExceeded:
            ctx.report('hang', 'step budget exceeded outside a connection '
                       'task')
        disarm_cpu()
        plog.setLevel(old_level)
        plog.propagate = old_prop
        ctx.counters['max_steps_per_line'] = 0
        sig = hashlib.sha1(repr(sorted(ctx.kinds)).encode()).hexdigest()[:16]
        judged = ctx.counters.get('lines', 0) + \
            ctx.counters.get('sieve_lines', 0) + \
            ctx.counters.get('cross_commands', 0)
        res = {'violations': ctx.violations, 'counters': ctx.counters,
               'sig': sig, 'nontrivial': judged >= 3,
               'sample': {'spec': spec, 'kinds': sorted(ctx.kinds)[:12],
                          'max_steps_per_line': ctx.max_steps_per_line},
               'aborted': aborted}
        res['counters']['max_steps_seen_k'] = ctx.max_steps_per_line // 1000
        return res


CHECK = C06()
