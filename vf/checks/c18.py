"""C18 -- how an argument is spelled does not change what it means.

Three parts, one check (``spec['part']``):

``e2e``     metamorphic, end to end.  One command with string arguments is run
            on a fresh, identically prepared account once per *spelling*
            (every string argument as atom / quoted / ``{n}`` / ``{n+}``,
            letter case of the keywords, extra spaces).  The tagged condition,
            the untagged responses, the follow-up commands on the same
            connection and the resulting account dump (LIST, LSUB, STATUS and
            ``UID FETCH 1:* (UID FLAGS INTERNALDATE RFC822.SIZE BODY.PEEK[])``
            of every mailbox, through a fresh connection) must be equal after
            normalising tags, object ids and UIDVALIDITY values.
``names``   every created Unicode name is reported by LIST, LSUB and STATUS in
            a spelling that an *independent* modified-UTF-7 decoder (written
            from RFC 3501 5.1.3, below) maps back to the same code points.
``inproc``  round trips on the real parser classes, no server.

Latitude (DESIGN 9.1), all counted:

* RFC 3501 allows exactly one SP between arguments and CRLF as line end: a
  variant with extra or trailing spaces, or with bare LF line ends, may be
  refused with BAD (``space_variant_refused`` / ``eol_variant_refused``);
  only if it is accepted must result and effect be identical.
* the server may echo a header list (``BODY[HEADER.FIELDS (...)]``) in any
  spelling and order: the echo is compared as a set of decoded names.
* LIST/LSUB lines are compared as a set; a CREATE that is refused (NO/BAD) is
  not a C18 matter (``names_create_refused``).
* a run that dies (BYE / closed connection) identically under both spellings is
  owned by C06: the case is aborted, not judged.

Kept out of the generators because another property owns them: unterminated
``&`` shifts and bad base64 in mailbox positions (C06: the decoder loops /
raises), control characters, empty names, leading/trailing/doubled delimiters
and ``.``/``..`` components in mailbox names (C08/C11), NUL in literals."""

from __future__ import annotations

import asyncio
import hashlib
import random
import re
import shutil
import signal
from datetime import datetime, timedelta, timezone
from typing import Any, Callable, Iterable

from .. import grammar
from .. import loop as L
from ..grammar import Resp
from ..net import Conn, Result, Sched
from ..runner import Check
from ..servers import make_env, scratch_root

# ---------------------------------------------------------------------------
# independent modified UTF-7 (RFC 3501 section 5.1.3)
# ---------------------------------------------------------------------------

_B64 = b'ABCDEFGHIJKLMNOPQRSTUVWXYZabcdefghijklmnopqrstuvwxyz0123456789+,'



def ascii_upper(s: str) -> str:
    """Upper case of an all-ASCII name; INBOX is case-insensitive in its
    ASCII letters only (str.upper() maps U+0131 to I)."""
    return s.upper() if s.isascii() else s

class MUtf7Error(ValueError):
    pass


def mutf7_encode(name: str) -> bytes:
    out = bytearray()
    units: list[int] = []

    def flush() -> None:
        if not units:
            return
        out.append(0x26)
        bits = nbits = 0
        for u in units:
            for byte in (u >> 8, u & 0xff):
                bits = (bits << 8) | byte
                nbits += 8
                while nbits >= 6:
                    nbits -= 6
                    out.append(_B64[(bits >> nbits) & 0x3f])
                    bits &= (1 << nbits) - 1
        if nbits:
            out.append(_B64[(bits << (6 - nbits)) & 0x3f])
        out.append(0x2d)
        units.clear()

    for ch in name:
        cp = ord(ch)
        if 0x20 <= cp <= 0x7e:
            flush()
            if cp == 0x26:
                out += b'&-'
            else:
                out.append(cp)
        elif cp >= 0x10000:
            cp -= 0x10000
            units.append(0xd800 | (cp >> 10))
            units.append(0xdc00 | (cp & 0x3ff))
        else:
            units.append(cp)
    flush()
    return bytes(out)


def mutf7_decode(raw: bytes) -> str:
    """Strict about everything that makes decoding ambiguous (unterminated
    shift, non-alphabet characters, odd octets, lone surrogates, non-zero
    padding bits, 8-bit octets); tolerant of non-canonical but decodable
    spellings."""
    out: list[str] = []
    i, n = 0, len(raw)
    while i < n:
        c = raw[i]
        if c != 0x26:
            if not 0x20 <= c <= 0x7e:
                raise MUtf7Error('octet %#x at %d is not printable US-ASCII'
                                 % (c, i))
            out.append(chr(c))
            i += 1
            continue
        j = raw.find(b'-', i + 1)
        if j < 0:
            raise MUtf7Error('shift at %d is never terminated' % i)
        chunk = raw[i + 1:j]
        if not chunk:
            out.append('&')
        else:
            bits = nbits = 0
            units: list[int] = []
            for b in chunk:
                k = _B64.find(bytes((b,)))
                if k < 0:
                    raise MUtf7Error('octet %#x in shift at %d is not in the '
                                     'modified base64 alphabet' % (b, i))
                bits = (bits << 6) | k
                nbits += 6
                if nbits >= 16:
                    nbits -= 16
                    units.append((bits >> nbits) & 0xffff)
                    bits &= (1 << nbits) - 1
            if nbits >= 6 or bits:
                raise MUtf7Error('shift at %d leaves %d stray bits' % (
                    i, nbits))
            if not units:
                raise MUtf7Error('shift at %d encodes nothing' % i)
            k = 0
            while k < len(units):
                u = units[k]
                if 0xd800 <= u < 0xdc00:
                    if k + 1 >= len(units) or \
                            not 0xdc00 <= units[k + 1] < 0xe000:
                        raise MUtf7Error('lone high surrogate')
                    out.append(chr(0x10000 + ((u - 0xd800) << 10)
                                   + (units[k + 1] - 0xdc00)))
                    k += 2
                elif 0xdc00 <= u < 0xe000:
                    raise MUtf7Error('lone low surrogate')
                else:
                    out.append(chr(u))
                    k += 1
        i = j + 1
    return ''.join(out)


# ---------------------------------------------------------------------------
# wire spellings (RFC 3501 section 9, RFC 7888)
# ---------------------------------------------------------------------------

_ATOM_SPECIALS = set(b'(){ %*"\\]') | set(range(0x20)) | {0x7f}
ATOM_CH = frozenset(c for c in range(1, 0x80) if c not in _ATOM_SPECIALS)
ASTRING_CH = ATOM_CH | {0x5d}
LIST_CH = ASTRING_CH | {0x25, 0x2a}
KINDS = ('atom', 'quoted', 'sync', 'nonsync')
KIND_NAME = {'atom': 'atom', 'quoted': 'quoted', 'sync': 'sync-literal',
             'nonsync': 'nonsync-literal'}


def quote(v: bytes) -> bytes:
    return b'"' + v.replace(b'\\', b'\\\\').replace(b'"', b'\\"') + b'"'


def kinds_for(v: bytes, pos: str) -> list[str]:
    """The spellings RFC 3501 allows for value ``v`` in position ``pos``."""
    if pos == 'date':
        return ['atom', 'quoted']
    out: list[str] = []
    if pos in ('astring', 'mailbox') and v \
            and all(c in ASTRING_CH for c in v):
        out.append('atom')
    if pos == 'listmbox' and v and all(c in LIST_CH for c in v):
        out.append('atom')
    if pos != 'literal' and all(0 < c < 0x80 and c not in (10, 13)
                                for c in v):
        out.append('quoted')
    if 0 not in v:
        out += ['sync', 'nonsync']
    return out


def canon(v: bytes) -> bytes:
    """Canonical client spelling used by preparation and dumps."""
    if all(0x20 <= c < 0x7f for c in v):
        return quote(v)
    return b'{%d+}\r\n' % len(v) + v


class K:
    """A case-insensitive keyword of the command."""
    __slots__ = ('w', 'cmd')

    def __init__(self, w: bytes, cmd: bool = False) -> None:
        self.w = w
        self.cmd = cmd


class A:
    """A string argument: value and grammatical position."""
    __slots__ = ('v', 'pos')

    def __init__(self, v: bytes, pos: str) -> None:
        self.v = v
        self.pos = pos


class _Sp:
    pass


SP = _Sp()


def C(word: bytes) -> K:
    return K(word, True)


def _recase(k: K, case: str, rng: random.Random) -> bytes:
    if case == 'upper':
        return k.w
    if case == 'lower':
        return k.w.lower()
    if case == 'cmdlower':
        return k.w.lower() if k.cmd else k.w
    if case == 'cmdmixed' and not k.cmd:
        return k.w
    return bytes(c ^ 0x20 if (65 <= c <= 90 or 97 <= c <= 122)
                 and rng.random() < 0.5 else c for c in k.w)


def render(tag: bytes, parts: list[Any], kinds: list[str],
           case: str = 'upper', space: str = 'single',
           seed: int = 0) -> list[bytes]:
    """Wire segments for ``Conn.command``: a new segment starts after every
    synchronising literal introducer."""
    rng = random.Random(seed)
    nl = b'\n' if space == 'bare-lf' else b'\r\n'
    nsp = sum(1 for p in parts if p is SP)
    dbl = rng.randrange(nsp) if nsp and space == 'double-one' else -1
    segs: list[bytes] = []
    cur = bytearray(tag + b' ')
    ai = si = 0
    for p in parts:
        if isinstance(p, bytes):
            cur += p
        elif p is SP:
            cur += b'  ' if space == 'double-all' or si == dbl else b' '
            si += 1
        elif isinstance(p, K):
            cur += _recase(p, case, rng)
        else:
            k = kinds[ai]
            ai += 1
            v = p.v
            if k == 'atom':
                cur += v
            elif k == 'quoted':
                cur += quote(v)
            elif k == 'nonsync':
                # number = 1*DIGIT: leading zeros are legal, any amount
                z = b'0' * (rng.choice([0, 0, 0, 1, 3, 19, 20, 25])
                            if rng is not None else 0)
                cur += b'{%s%d+}' % (z, len(v)) + nl + v
            else:
                z = b'0' * (rng.choice([0, 0, 0, 1, 3, 19, 20, 25])
                            if rng is not None else 0)
                cur += b'{%s%d}' % (z, len(v)) + nl
                segs.append(bytes(cur))
                cur = bytearray(v)
    if space == 'trailing':
        cur += b' '
    cur += nl
    segs.append(bytes(cur))
    return segs


def args_of(parts: list[Any]) -> list[A]:
    return [p for p in parts if isinstance(p, A)]


def plan(rng: random.Random, parts: list[Any]) \
        -> tuple[list[str], list[tuple[str, list[str], str, str]]]:
    """(base kinds, [(label, kinds, case, space)])."""
    args = args_of(parts)
    allowed = [kinds_for(a.v, a.pos) for a in args]
    base = [rng.choice(al) for al in allowed]
    out: list[tuple[str, list[str], str, str]] = []
    for k in KINDS:
        ks = [k if k in al else b for al, b in zip(allowed, base)]
        if ks != base:
            out.append((k, ks, 'upper', 'single'))
    if len(args) > 1 and rng.random() < 0.3:
        ks = [rng.choice(al) for al in allowed]
        if ks != base and all(ks != o[1] for o in out):
            out.append(('mixed', ks, 'upper', 'single'))
    if not args or rng.random() < 0.5:
        out.append(('case', base, rng.choice(
            ['lower', 'mixed', 'cmdlower', 'cmdmixed']), 'single'))
    if not args or rng.random() < 0.5:
        out.append(('space', base, 'upper', rng.choice(
            ['double-one', 'double-all', 'trailing'])))
    if rng.random() < 0.3:
        # not legal either (RFC 3501: CRLF), same conditional rule
        out.append(('eol', base, 'upper', 'bare-lf'))
    return base, out


# ---------------------------------------------------------------------------
# normalisation of what the client saw
# ---------------------------------------------------------------------------

class Renamer:
    """Object ids and UIDVALIDITY values are session/run specific: replace
    them by their order of first appearance."""

    def __init__(self) -> None:
        self.m: dict[tuple[str, Any], str] = {}

    def __call__(self, space: str, val: Any) -> str:
        key = (space, val)
        if key not in self.m:
            self.m[key] = '%s#%d' % (space, 1 + sum(
                1 for k in self.m if k[0] == space))
        return self.m[key]


_key_re = re.compile(rb'\A([A-Za-z0-9.]+)\[(.*)\](<\d+>)?\Z', re.S)
_hf_re = re.compile(rb'\A((?:\d+\.)*)(HEADER\.FIELDS(?:\.NOT)?) \((.*)\)\Z',
                    re.S | re.I)


def norm_fetch_key(key: bytes) -> Any:
    m = _key_re.match(key)
    if not m:
        return key
    name, sec, org = m.groups()
    m2 = _hf_re.match(sec)
    if not m2:
        return (name, sec.upper(), org)
    p = grammar._P(m2.group(3), Resp(b''))
    names: list[bytes] = []
    while True:
        a = p.astring()
        if a is None or p.r.errors:
            return key          # malformed echo: compared raw
        names.append(a[1].upper())
        if p.eof():
            break
        if not p.take(b' '):
            return key
    return (name, m2.group(1), m2.group(2).upper(), tuple(sorted(names)), org)


def norm_resp(r: Resp, ren: Renamer) -> Any:
    errs = tuple(sorted({e[0] for e in r.errors}))
    if r.kind == 'cont':
        return ('cont',)
    if r.cond is not None:
        arg: Any = r.code_arg
        if r.code in (b'UIDVALIDITY',):
            arg = ren('uv', r.code_arg)
        elif r.code == b'APPENDUID' and isinstance(r.data, tuple):
            arg = (ren('uv', b'%d' % r.data[0]), tuple(r.data[1]))
        elif r.code == b'COPYUID' and isinstance(r.data, tuple):
            arg = (ren('uv', b'%d' % r.data[0]), tuple(r.data[1]),
                   tuple(r.data[2]))
        elif r.code == b'MAILBOXID':
            arg = ren('oid', r.data if r.data is not None else r.code_arg)
        return (r.kind, r.cond, r.code, arg, r.text, errs)
    typ = r.typ
    d = r.data
    if typ in (b'LIST', b'LSUB') and isinstance(d, dict):
        return (typ, tuple(sorted(a.lower() for a in d['attrs'])),
                d['delim'], d['name'], errs)
    if typ == b'STATUS' and isinstance(d, dict):
        att = []
        for k, v in sorted(d['att'].items()):
            if k == b'RECENT':
                continue
            if k == b'UIDVALIDITY':
                v = ren('uv', b'%d' % v)
            elif k == b'MAILBOXID':
                v = ren('oid', v if isinstance(v, bytes) else b'%d' % v)
            att.append((k, v))
        return (typ, d['name'], tuple(att), errs)
    if typ == b'FETCH' and isinstance(d, dict):
        items = []
        for k, v in d.items():
            if k in (b'EMAILID', b'THREADID') and v is not None:
                v = ren('oid', v)
            if k == b'FLAGS':
                v = tuple(sorted(set(f.lower() for f in v) - {b'\\recent'}))
            items.append((repr(norm_fetch_key(k)), _plain(v)))
        return (typ, r.num, tuple(sorted(items)), errs)
    if typ == b'SEARCH' and isinstance(d, list):
        return (typ, tuple(sorted(d)), errs)
    if typ == b'FLAGS' and isinstance(d, list):
        return (typ, tuple(sorted(f.lower() for f in d)), errs)
    if typ == b'RECENT':
        return (typ, errs)      # session specific, owned by C17
    if typ in (b'EXISTS', b'EXPUNGE'):
        return (typ, r.num, errs)
    # anything else: the raw line (untagged, so no tag inside)
    return ('raw', r.raw, errs)


def _plain(v: Any) -> Any:
    if isinstance(v, list):
        return tuple(_plain(x) for x in v)
    if isinstance(v, tuple):
        return tuple(_plain(x) for x in v)
    return v


def norm_result(r: Result, ren: Renamer) -> list[Any]:
    # "* n RECENT" is session specific and, on maildir, depends on directory
    # order (C17): neither its value nor its presence is compared
    un = [norm_resp(u, ren) for u in r.untagged if u.typ != b'RECENT']
    if un and all(u[0] in (b'LIST', b'LSUB') for u in un):
        un.sort(key=repr)
    out: list[Any] = un
    if r.tagged is not None:
        t = norm_resp(r.tagged, ren)
        out.append(('tagged',) + tuple(t[1:]))
    else:
        out.append(('no-tagged-response', r.closed))
    return out


# ---------------------------------------------------------------------------
# part (i): one prepared run
# ---------------------------------------------------------------------------

_ENVS: list[Any] = []       # for the watchdog's cleanup


class _Env:
    """A fresh backend whose scratch tree (maildir) is owned here, so that it
    is removed even when building the backend fails half way."""

    def __init__(self) -> None:
        self.env: Any = None
        self.root: str | None = None

    async def make(self, backend: str,
                   users: dict[str, str] | None) -> Any:
        _ENVS.append(self)
        if backend == 'dict':
            self.env = await make_env(backend, users or None)
        else:
            self.root = scratch_root()
            self.env = await make_env(backend, dict(
                {'testuser': 'testpass'}, **(users or {})), root=self.root)
        return self.env

    def cleanup(self) -> None:
        if self.env is not None:
            self.env.cleanup()
        if self.root is not None:
            shutil.rmtree(self.root, ignore_errors=True)
            self.root = None
        if self in _ENVS:
            _ENVS.remove(self)
DUMP_ATTRS = b'(UID FLAGS INTERNALDATE RFC822.SIZE BODY.PEEK[])'
STATUS_ATTRS = b'(MESSAGES UIDNEXT UIDVALIDITY UNSEEN)'


class Died(Exception):
    pass


async def _open(env: Any, cid: int) -> Conn:
    conn = Conn(cid, Sched())
    conn.start(env.imap)
    g = await conn.greeting()
    if g is None or g.cond != b'OK':
        raise Died('no greeting')
    return conn


async def _command(conn: Conn, tag: bytes, segs: list[bytes]) \
        -> Result | None:
    """``conn.command`` that notices when the exchange is stuck: every task
    is blocked (the server waits for input it will never get, the client
    waits for the completion) and virtual time does not help.  Returns None
    then."""
    loop: Any = asyncio.get_event_loop()
    task = loop.create_task(conn.command(tag, segs, delay=False))
    tries = 0
    while not task.done():
        q = loop.quiescent()
        await asyncio.wait([task, q], return_when=asyncio.FIRST_COMPLETED)
        if task.done():
            break
        if tries < 4 and any(not h._cancelled for h in loop._scheduled):
            tries += 1
            await loop.advance(1.0)
            continue
        task.cancel()
        try:
            await task
        except asyncio.CancelledError:
            pass
        return None
    return task.result()


async def _kill(conn: Conn) -> None:
    """End a stuck server task.  Not by EOF: on the unfixed tree
    ``IMAPConnection.readline`` spins forever when EOF follows a line that
    ends in ``{0+}`` (C06's business)."""
    if conn.task is not None and not conn.task.done():
        conn.task.cancel()
    await conn.wait_closed()


async def _must(conn: Conn, line: bytes) -> Result:
    tag = conn.next_tag()
    r = await _command(conn, tag, [tag + b' ' + line + b'\r\n'])
    if r is None:
        await _kill(conn)
        raise Died('no response (server waits for more input) to %r'
                   % line[:60])
    if r.tagged is None:
        raise Died('closed during %r' % line[:60])
    return r


async def dump_account(env: Any, user: str, ren: Renamer) -> list[Any]:
    """LIST, LSUB, and STATUS + content of every selectable mailbox."""
    conn = await _open(env, 9)
    out: list[Any] = []
    r = await _must(conn, b'LOGIN %s %s' % (
        canon(user.encode()), canon(env.users[user].encode())))
    if not r.ok:
        raise Died('dump login refused')
    r = await _must(conn, b'LIST "" *')
    boxes = sorted((u.data['name'], tuple(a.lower() for a in u.data['attrs']))
                   for u in r.untagged
                   if u.typ == b'LIST' and isinstance(u.data, dict)
                   and u.data['name'] is not None)
    out.append(('LIST', norm_result(r, ren)))
    r = await _must(conn, b'LSUB "" *')
    out.append(('LSUB', norm_result(r, ren)))
    for name, attrs in boxes:
        if b'\\noselect' in attrs:
            continue
        try:
            mutf7_decode(name)
        except MUtf7Error:
            # never hand an ill-formed name back to the server (C06 #7)
            out.append(('undecodable-name', name))
            continue
        r = await _must(conn, b'STATUS %s %s' % (canon(name), STATUS_ATTRS))
        out.append(('STATUS', name, norm_result(r, ren)))
        r = await _must(conn, b'EXAMINE ' + canon(name))
        out.append(('EXAMINE', name, norm_result(r, ren)))
        if r.ok:
            r = await _must(conn, b'UID FETCH 1:* ' + DUMP_ATTRS)
            out.append(('FETCH', name, norm_result(r, ren)))
    await conn.simple(b'LOGOUT', delay=False)
    await conn.wait_closed()
    return out


async def run_once(fam: dict[str, Any], backend: str, kinds: list[str],
                   case: str, space: str, vseed: int) -> dict[str, Any]:
    """Fresh account, canonical preparation, the command in one spelling,
    follow-ups, dump."""
    random.seed(fam['seed'])
    users = dict(fam.get('users') or {})
    holder = _Env()
    env = await holder.make(backend, users)
    rec: dict[str, Any] = {'result': None, 'dump': None, 'died': None,
                           'cond': None}
    ren = Renamer()
    user = fam.get('user', 'testuser')
    try:
        try:
            if fam.get('prep'):
                prep = await _open(env, 0)
                r = await _must(prep, b'LOGIN %s %s' % (
                    canon(user.encode()), canon(env.users[user].encode())))
                if not r.ok:
                    raise Died('prep login refused')
                for line in fam['prep']:
                    await _must(prep, line)
                await prep.simple(b'LOGOUT', delay=False)
                await prep.wait_closed()
        except Died as exc:
            rec['died'] = 'prep: %s' % exc
            rec['prep_died'] = True
            return rec
        res: list[Any] = []
        try:
            conn = await _open(env, 1)
            if fam.get('login', True):
                r = await _must(conn, b'LOGIN %s %s' % (
                    canon(user.encode()), canon(env.users[user].encode())))
            for line in fam.get('pre', []):
                await _must(conn, line)
            tag = b'x1'
            segs = render(tag, fam['cmd'], kinds, case, space, vseed)
            rec['wire'] = segs
            r = await _command(conn, tag, segs)
            if r is None:
                rec['cond'] = b'HUNG'
                res.append(('cmd', 'no response: the server waits for more '
                            'input than the command has'))
                await _kill(conn)
                raise Died('hung')
            rec['cond'] = r.cond
            res.append(('cmd', norm_result(r, ren)))
            if r.tagged is None:
                raise Died('closed by the command')
            for line in fam.get('post', []):
                r = await _must(conn, line)
                res.append((line, norm_result(r, ren)))
            await conn.simple(b'LOGOUT', delay=False)
            await conn.wait_closed()
        except Died as exc:
            rec['died'] = str(exc)
        finally:
            rec['result'] = res
        try:
            rec['dump'] = await dump_account(env, fam.get('dump_user', user),
                                             ren)
        except Died as exc:
            rec['dump'] = [('dump-died', str(exc))]
            rec['died'] = rec['died'] or 'dump: %s' % exc
        return rec
    finally:
        holder.cleanup()


def first_diff(a: Any, b: Any, path: str = '') -> tuple[str, Any, Any] | None:
    if a == b:
        return None
    if isinstance(a, (list, tuple)) and isinstance(b, (list, tuple)) \
            and type(a) is type(b):
        for k, (x, y) in enumerate(zip(a, b)):
            d = first_diff(x, y, '%s/%d' % (path, k))
            if d is not None:
                return d
        if len(a) != len(b):
            k = min(len(a), len(b))
            return ('%s/%d' % (path, k), a[k] if len(a) > k else '<absent>',
                    b[k] if len(b) > k else '<absent>')
    return (path, a, b)


def _short(x: Any, n: int = 400) -> str:
    s = repr(x)
    return s if len(s) <= n else s[:n] + '...'


_LITPLUS_TAIL = re.compile(rb'\{\d+\+\}\Z')


def classify(base_mech: str, label: str, fam: dict[str, Any],
             base: dict[str, Any], var: dict[str, Any],
             bkinds: list[str], vkinds: list[str]) -> str:
    """Structural mechanism id, computed from the witness only."""
    args = args_of(fam['cmd'])
    # a legal atom containing '}' refused although other spellings pass
    for side, other, kinds in ((var, base, vkinds), (base, var, bkinds)):
        if side['cond'] == b'BAD' and other['cond'] != b'BAD' and any(
                k == 'atom' and b'}' in a.v for k, a in zip(kinds, args)):
            return 'atom-with-rbrace-refused'
    for side, kinds in ((var, vkinds), (base, bkinds)):
        if label not in ('eol', 'space', 'case') and \
                side['cond'] == b'HUNG' and any(
                k == 'nonsync' and _LITPLUS_TAIL.search(a.v)
                for k, a in zip(kinds, args)):
            # RFC 7888 literal whose *content* ends in "{n+}" right before
            # the CRLF that ends the command line
            return 'nonsync-literal-content-ending-in-literal-plus-misframed'
    if fam.get('hdrlist') and any(
            bk != vk and 'atom' != bk or 'atom' != vk and bk != vk
            for bk, vk in zip(bkinds, vkinds)):
        # a header name spelled as quoted string or literal
        return 'header-list-name-keeps-wire-spelling'
    kind = label
    if label in KINDS:
        kind = KIND_NAME[label]
    return '%s:%s:%s' % (base_mech, kind,
                         fam['word'].decode().replace(' ', '-'))


def compare(fam: dict[str, Any], label: str, base: dict[str, Any],
            var: dict[str, Any], bkinds: list[str], vkinds: list[str],
            counters: dict[str, int]) -> dict[str, Any] | None:
    if label in ('space', 'eol') and var['cond'] == b'BAD' \
            and base['cond'] != b'BAD':
        counters[label + '_variant_refused'] = \
            counters.get(label + '_variant_refused', 0) + 1
        return None
    wit = {'command': fam['word'], 'backend': fam['backend'],
           'values': [a.v for a in args_of(fam['cmd'])],
           'spelling_a': base.get('wire'), 'spelling_b': var.get('wire'),
           'kinds_a': bkinds, 'kinds_b': vkinds, 'variant': label,
           'prep': fam.get('prep'), 'pre': fam.get('pre')}
    d = first_diff(base['result'], var['result'])
    if d is None and base['died'] != var['died']:
        d = ('died', base['died'], var['died'])
    if d is not None:
        mech = classify('spelling-changes-result', label, fam, base, var,
                        bkinds, vkinds)
        wit['diff'] = {'at': d[0], 'a': _short(d[1]), 'b': _short(d[2])}
        return {'mech': mech, 'witness': wit,
                'detail': '%s on %s: %s vs %s: result differs at %s: %s / %s'
                % (fam['word'].decode(), fam['backend'],
                   _short(base.get('wire'), 160), _short(var.get('wire'), 160),
                   d[0], _short(d[1], 200), _short(d[2], 200))}
    d = first_diff(base['dump'], var['dump'])
    if d is not None:
        mech = classify('spelling-changes-effect', label, fam, base, var,
                        bkinds, vkinds)
        wit['diff'] = {'at': d[0], 'a': _short(d[1]), 'b': _short(d[2])}
        return {'mech': mech, 'witness': wit,
                'detail': '%s on %s: %s vs %s: account differs at %s: %s / %s'
                % (fam['word'].decode(), fam['backend'],
                   _short(base.get('wire'), 160), _short(var.get('wire'), 160),
                   d[0], _short(d[1], 200), _short(d[2], 200))}
    return None


async def run_e2e(fam: dict[str, Any], rng: random.Random,
                  counters: dict[str, int], viol: list[dict[str, Any]],
                  variants: list[tuple[str, list[str], str, str]] | None = None,
                  base_kinds: list[str] | None = None) -> str | None:
    """Returns an abort reason or None."""
    backend = fam['backend']
    bkinds, plan_ = plan(rng, fam['cmd'])
    if variants is not None:
        plan_ = variants
        bkinds = base_kinds or bkinds
    base = await run_once(fam, backend, bkinds, 'upper', 'single', 0)
    if base.get('prep_died'):
        return 'other-property:prep-' + str(base['died'])[:40]
    compared = 0
    both_died = 0
    for label, vkinds, case, space in plan_:
        var = await run_once(fam, backend, vkinds, case, space,
                             rng.randrange(1 << 30))
        if var.get('prep_died'):
            return 'other-property:prep-' + str(var['died'])[:40]
        v = compare(fam, label, base, var, bkinds, vkinds, counters)
        compared += 1
        if base['died'] and var['died']:
            both_died += 1
        if label in KINDS or label == 'mixed':
            used = set()
            for bk, vk in zip(bkinds, vkinds):
                if bk != vk:
                    used.add(bk)
                    used.add(vk)
            for k in used:
                key = 'pairs_' + KIND_NAME[k].replace('-', '_')
                counters[key] = counters.get(key, 0) + 1
        else:
            counters['pairs_' + label] = counters.get('pairs_' + label, 0) + 1
        if v is not None:
            viol.append(v)
    counters['commands_compared'] = counters.get('commands_compared', 0) + 1
    counters['spelling_pairs_compared'] = \
        counters.get('spelling_pairs_compared', 0) + compared
    counters['runs'] = counters.get('runs', 0) + compared + 1
    key = 'cond_%s' % (base['cond'] or b'none').decode()
    counters[key] = counters.get(key, 0) + 1
    if base['died'] and both_died == compared and not viol:
        return 'other-property:' + str(base['died'])[:40]
    return None


# ---------------------------------------------------------------------------
# generators: values
# ---------------------------------------------------------------------------

WORDS = [b'foo', b'Trash', b'Sent', b'work', b'a', b'Z9', b'subject', b'm1',
         b'example.com', b'rcpt', b'hello', b'x-y_z', b'Drafts']
UNI_POOLS = ['\u00e9\u00fc\u00f1\u00c5\u00df', '\u03b1\u03b2\u03b3\u03a9',
             '\u0416\u0434\u044f', '\u65e5\u672c\u8a9e\u4e2d', '\u05d0\u05d1',
             '\u00a0\u2028\ufffd\uffee\u0301',
             '\U0001f600\U0001d4b3\U00010000\U0010fffd\U0001f1e9',
             '\u0100\u07ff\u0800\ud7ff\ue000\uffff']
ASCII_NAME = 'abcdefghijklmnopqrstuvwxyzABCXYZ0123456789'
ASCII_ODD = ' &"\\\'()[]{}%*~+,-_=!#$^`|<>?@;:'


def gen_unicode_component(rng: random.Random, maxlen: int,
                          odd: bool = True) -> str:
    n = rng.randint(1, max(1, maxlen))
    out = []
    style = rng.random()
    for _ in range(n):
        r = rng.random()
        if style < 0.15:
            out.append(rng.choice(ASCII_NAME))
        elif r < 0.4:
            out.append(rng.choice(ASCII_NAME))
        elif r < 0.55 and odd:
            out.append(rng.choice(ASCII_ODD))
        elif r < 0.62:
            out.append('&')
        else:
            out.append(rng.choice(rng.choice(UNI_POOLS)))
    s = ''.join(out).strip(' ')
    if not s or s in ('.', '..'):
        s = 'n' + s.replace('.', '_')
    return s


def gen_unicode_name(rng: random.Random, maxlen: int, backend: str) -> str:
    ncomp = rng.choice([1, 1, 1, 2, 2, 3])
    per = max(1, maxlen // ncomp - 1)
    if rng.random() < 0.8:
        per = min(per, 12)
    comps = [gen_unicode_component(rng, per) for _ in range(ncomp)]
    if backend != 'dict':
        # the Maildir++ layout maps '.' to the hierarchy on disk (C11)
        comps = [c.replace('.', '_') for c in comps]
    if ascii_upper(comps[0]) == 'INBOX':
        comps[0] = 'x' + comps[0]
    return '/'.join(comps)


def name_ok(name: str) -> bool:
    """Names this property owns (see module docstring)."""
    if not name or ascii_upper(name) == 'INBOX':
        return False
    comps = name.split('/')
    if ascii_upper(comps[0]) == 'INBOX':
        return False
    for c in comps:
        if not c or c in ('.', '..') or c != c.strip(' '):
            return False
    for ch in name:
        cp = ord(ch)
        if cp < 0x20 or 0x7f <= cp < 0xa0 or 0xd800 <= cp < 0xe000:
            return False
    return True


def mailbox_raw_ok(raw: bytes, backend: str) -> bool:
    try:
        name = mutf7_decode(raw)
    except MUtf7Error:
        return False
    if raw.upper() == b'INBOX':
        return True
    if backend != 'dict' and (len(raw) > 100 or '.' in name):
        return False
    return name_ok(name)


def _rand_printable(rng: random.Random, n: int, alphabet: bytes) -> bytes:
    return bytes(rng.choice(alphabet) for _ in range(n))


_PRINT = bytes(range(0x20, 0x7f))
_ATOMS = bytes(sorted(ATOM_CH - {0x26}))


def gen_value(rng: random.Random, pos: str, backend: str) \
        -> tuple[bytes, str]:
    """(value, class label).  ``pos``: astring | mailbox | string."""
    mbox = pos == 'mailbox'
    maxlen = 2000 if backend == 'dict' or not mbox else 90
    for _ in range(50):
        r = rng.random()
        if r < 0.16:
            v, c = rng.choice(WORDS), 'plain'
        elif r < 0.24:
            v = _rand_printable(rng, rng.randint(1, 14), _ATOMS)
            c = 'atom-chars'
        elif r < 0.28:
            v, c = rng.choice([b'a]b', b']', b'x]', b'[a]']), 'rbracket'
        elif r < 0.31:
            v, c = rng.choice([b'a}b', b'}', b'x}']), 'rbrace'
        elif r < 0.40:
            v = rng.choice([b'two words', b'a  b', b'x y z', b'Sp ace'])
            c = 'space'
        elif r < 0.50:
            v = rng.choice([b'a"b', b'a\\b', b'"', b'\\', b'\\"', b'x\\\\"y',
                            b'"q"', b'end\\', b'say "hi" \\ bye'])
            c = 'quote-backslash'
        elif r < 0.62 and mbox:
            if r < 0.58:
                v = mutf7_encode(gen_unicode_name(rng, 16, backend))
                c = 'mutf7'
            else:
                v, c = rng.choice([b'a&-b', b'&-&-', b'&-x']), 'amp-dash'
        elif r < 0.58:
            v = rng.choice(['caf\u00e9', '\u00c5\u00c4\u00d6', '\u65e5\u672c\u8a9e',
                            'na\u00efve \U0001f600', '\u0416 x']).encode()
            c = '8bit-utf8'
        elif r < 0.62:
            v, c = b'', 'empty'
        elif r < 0.70:
            v = rng.choice([b'abc{3}', b'abc {3+}', b'{3}', b'{0+}',
                            b'x{12}y', b'w {3}', b'{3+}'])
            c = 'literal-lookalike'
        elif r < 0.77:
            v = rng.choice([b'a(b', b'a)b', b'(x)', b'a[b]', b')', b'(',
                            b'(a b)'])
            c = 'parens'
        elif r < 0.80:
            v, c = rng.choice([b'a%b', b'a*b', b'%', b'*x']), 'wildcard'
        elif r < 0.85:
            n = rng.choice([64, 200, 1000, maxlen])
            n = min(n, maxlen)
            v = _rand_printable(rng, n, rng.choice([_ATOMS, _PRINT]))
            if mbox:
                v = v.replace(b'&', b'+').replace(b'/', b'-') \
                    .replace(b'.', b',').strip(b' ') or b'L'
            c = 'long'
        elif r < 0.91:
            v = mutf7_encode(gen_unicode_name(rng, 16, backend))
            c = 'mutf7'
        elif r < 0.94:
            v, c = rng.choice([b'a&-b', b'R&-D', b'&-', b'x &- y']), 'amp-dash'
        elif r < 0.98:
            v = rng.choice([b'NIL', b'nil', b'INBOX', b'inbox', b'InBoX',
                            b'123', b'1:5', b'+', b'UID', b'NOT', b'~a',
                            b'#news', b'ALL'])
            c = 'token'
        elif not mbox:
            v = rng.choice([b'a\r\nb', b'tab\there', b'line\n', b'\r'])
            c = 'ctl-in-literal'
        else:
            continue
        if mbox and not mailbox_raw_ok(v, backend):
            continue
        return v, c
    return b'fallback', 'plain'


# ---------------------------------------------------------------------------
# generators: command families
# ---------------------------------------------------------------------------

DATE = b'"01-Jan-2024 10:00:0%d +0000"'


def mk_msg(i: int, subject: bytes = b'', extra: bytes = b'',
           body: bytes = b'') -> bytes:
    return (b'From: Sender %d <sender%d@example.com>\r\n'
            b'To: rcpt@example.com\r\nCc: carbon%d@example.org\r\n'
            b'Subject: subject m%d %s\r\n'
            b'Date: Mon, 0%d Jan 2024 10:00:00 +0000\r\n'
            b'Message-ID: <m%d@vf>\r\nX-VF-ID: m%d\r\n'
            % (i, i, i, i, subject, i + 1, i, i)
            + extra + b'\r\n' + (body or b'body of m%d hello\r\n' % i))


def append_line(box: bytes, i: int, flags: bytes, msg: bytes) -> bytes:
    return b'APPEND %s (%s) %s {%d+}\r\n%s' % (
        canon(box), flags, DATE % (i % 10), len(msg), msg)


def fixture(rng: random.Random, vboxes: list[bytes], exists: bool,
            embed: list[bytes] = ()) -> list[bytes]:    # type: ignore
    """Canonical preparation program (same bytes for every spelling)."""
    prep = [b'CREATE "Alpha"', b'CREATE "Beta/Gamma"', b'SUBSCRIBE "Alpha"']
    if exists:
        for v in vboxes:
            prep.append(b'CREATE ' + canon(v))
            if rng.random() < 0.5:
                prep.append(b'SUBSCRIBE ' + canon(v))
    flags = [b'\\Seen', b'', b'\\Flagged $Kw']
    for i in range(3):
        subj = body = b''
        for e in embed:
            if i == 1 and e:
                if all(0x20 <= c < 0x7f for c in e):
                    subj += b' ' + e
                body += b'text ' + e + b' end\r\n'
        prep.append(append_line(b'INBOX', i, flags[i], mk_msg(
            i, subj, b'', body)))
    if exists:
        for v in vboxes[:1]:
            prep.append(append_line(v, 5, b'\\Answered', mk_msg(5)))
    return prep


def _mbox(rng: random.Random, backend: str, classes: list[str]) -> bytes:
    v, c = gen_value(rng, 'mailbox', backend)
    classes.append('mailbox:' + c)
    return v


def fam_mailbox1(rng: random.Random, backend: str, word: bytes) \
        -> dict[str, Any]:
    classes: list[str] = []
    v = _mbox(rng, backend, classes)
    exists = rng.random() < (0.3 if word == b'CREATE' else 0.7)
    cmd: list[Any] = [C(word), SP, A(v, 'mailbox')]
    post: list[bytes] = []
    if word == b'STATUS':
        cmd += [SP, b'(', K(b'MESSAGES'), SP, K(b'UIDNEXT'), SP,
                K(b'UIDVALIDITY'), SP, K(b'UNSEEN'), b')']
    if word in (b'SELECT', b'EXAMINE'):
        post = [b'FETCH 1:* (UID FLAGS)', b'STORE 1 +FLAGS (\\Draft)']
    return {'word': word, 'prep': fixture(rng, [v], exists), 'cmd': cmd,
            'post': post, 'classes': classes}


def fam_rename(rng: random.Random, backend: str) -> dict[str, Any]:
    classes: list[str] = []
    v = _mbox(rng, backend, classes)
    w = _mbox(rng, backend, classes)
    return {'word': b'RENAME', 'classes': classes,
            'prep': fixture(rng, [v], rng.random() < 0.8),
            'cmd': [C(b'RENAME'), SP, A(v, 'mailbox'), SP, A(w, 'mailbox')]}


def fam_list(rng: random.Random, backend: str, word: bytes) \
        -> dict[str, Any]:
    classes: list[str] = []
    v = _mbox(rng, backend, classes)
    ref = rng.choice([b'', b'', b'', b'Beta/', b'Beta', b'INBOX', b'inbox',
                      v, v + b'/'])
    r = rng.random()
    if r < 0.35:
        pat = rng.choice([b'*', b'%', b'A*', b'%/%', b'Beta/%', b'*a*',
                          b'Alpha', b'INBOX', b'inbox', b'', b'*/*', b'B%',
                          b'%a', b'Beta/Gamma', b'a]*', b'*}*'])
        classes.append('pattern:wild')
    elif r < 0.6:
        pat = v
        classes.append('pattern:value')
    elif r < 0.8:
        pat = v[:max(1, len(v) // 2)] + rng.choice([b'*', b'%'])
        classes.append('pattern:value-prefix')
    else:
        pat = rng.choice([b'*', b'%']) + v[len(v) // 2:]
        classes.append('pattern:value-suffix')
    try:
        mutf7_decode(pat)
        mutf7_decode(ref)
    except MUtf7Error:          # cut through a shift: keep C06's input out
        pat, ref = b'*', b''
    return {'word': word, 'classes': classes,
            'prep': fixture(rng, [v], True),
            'cmd': [C(word), SP, A(ref, 'mailbox' if ref else 'astring'), SP,
                    A(pat, 'listmbox')]}


def fam_append(rng: random.Random, backend: str) -> dict[str, Any]:
    classes: list[str] = []
    v = _mbox(rng, backend, classes)
    body = rng.choice([b'', b'plain body\r\n', b'8bit \xe9\xff\r\n',
                       b'ends {3}\r\n', b'{5+}\r\nhello', b'x' * 3000,
                       b'ends with {3+}', b'ends with {3}'])
    msg = mk_msg(7, b'appended', b'', body)
    cmd: list[Any] = [C(b'APPEND'), SP, A(v, 'mailbox'), SP]
    if rng.random() < 0.7:
        cmd += [b'(', K(b'\\Seen'), SP, b'$Kw', SP, K(b'\\Deleted'), b')', SP]
    cmd += [b'"', b'02-', K(b'Feb'), b'-2023 11:12:13 +0130', b'"', SP,
            A(msg, 'literal')]
    return {'word': b'APPEND', 'classes': classes,
            'prep': fixture(rng, [v], rng.random() < 0.8), 'cmd': cmd}


def fam_copy(rng: random.Random, backend: str, word: bytes) \
        -> dict[str, Any]:
    classes: list[str] = []
    v = _mbox(rng, backend, classes)
    uid = rng.random() < 0.4
    sset = rng.choice([b'1', b'1:2', b'2:*', b'*', b'1,3', b'3:1']) \
        if not uid else rng.choice([b'101', b'101:102', b'102:*', b'*',
                                    b'1:*'])
    cmd: list[Any] = ([C(b'UID'), SP] if uid else []) + \
        [C(word), SP, sset, SP, A(v, 'mailbox')]
    return {'word': (b'UID ' if uid else b'') + word, 'classes': classes,
            'prep': fixture(rng, [v], rng.random() < 0.8),
            'pre': [b'SELECT INBOX'], 'cmd': cmd,
            'post': [b'FETCH 1:* (UID FLAGS)']}


SEARCH_SNIPPETS = [b'subject', b'm1', b'Sender 2', b'sender1@example.com',
                   b'example', b'rcpt', b'carbon0', b'hello', b'body of m2',
                   b'nomatch-zzz', b'M1', b'SUBJECT M']


def fam_search(rng: random.Random, backend: str) -> dict[str, Any]:
    classes: list[str] = []
    embed: list[bytes] = []
    uid = rng.random() < 0.3
    cmd: list[Any] = ([C(b'UID'), SP] if uid else []) + [C(b'SEARCH')]
    keys: list[list[Any]] = []
    eightbit = False

    def sval() -> bytes:
        nonlocal eightbit
        r = rng.random()
        if r < 0.35:
            classes.append('search:snippet')
            return rng.choice(SEARCH_SNIPPETS)
        v, c = gen_value(rng, 'astring', backend)
        if r < 0.47:
            v, c = rng.choice(['caf\u00e9', '\u65e5\u672c', 'na\u00efve',
                               '\u0416 x']).encode(), '8bit-utf8'
        if c == 'ctl-in-literal':
            v, c = b'two words', 'space'
        classes.append('search:' + c)
        if any(x >= 0x80 for x in v):
            eightbit = True
        embed.append(v)
        return v

    for _ in range(rng.choice([1, 1, 2])):
        r = rng.random()
        neg: list[Any] = [K(b'NOT'), SP] if rng.random() < 0.15 else []
        if r < 0.55:
            k = rng.choice([b'SUBJECT', b'FROM', b'TO', b'CC', b'BCC',
                            b'BODY', b'TEXT', b'SUBJECT', b'BODY'])
            keys.append(neg + [K(k), SP, A(sval(), 'astring')])
        elif r < 0.75:
            name = rng.choice([b'Subject', b'X-VF-ID', b'x-vf-id', b'From',
                               b'Message-ID', b'X-Missing', b'Cc'])
            val = rng.choice([b'', b'm1', b'm']) if rng.random() < 0.5 \
                else sval()
            classes.append('search:header')
            keys.append(neg + [K(b'HEADER'), SP, A(name, 'astring'), SP,
                               A(val, 'astring')])
        elif r < 0.87:
            classes.append('search:or')
            keys.append(neg + [K(b'OR'), SP, K(b'SUBJECT'), SP,
                               A(sval(), 'astring'), SP, K(b'FROM'), SP,
                               A(sval(), 'astring')])
        else:
            classes.append('search:date')
            k = rng.choice([b'SINCE', b'BEFORE', b'ON', b'SENTSINCE',
                            b'SENTBEFORE', b'SENTON'])
            d = rng.choice([b'1-Jan-2024', b'02-Jan-2024', b'3-Jan-2024',
                            b'31-Dec-2023'])
            keys.append(neg + [K(k), SP, A(d, 'date')])
    if rng.random() < 0.2:
        # search return options (the word RETURN and the option names are
        # case-insensitive like every other keyword)
        opts = rng.sample([b'MIN', b'MAX', b'COUNT', b'ALL'],
                          rng.choice([0, 1, 1, 2]))
        cmd += [SP, K(b'RETURN'), SP, b'(']
        for j, o in enumerate(opts):
            cmd += ([SP] if j else []) + [K(o)]
        cmd += [b')']
        classes.append('search:return')
    if eightbit or rng.random() < 0.15:
        cs = b'UTF-8' if eightbit else rng.choice([b'UTF-8', b'US-ASCII',
                                                    b'utf-8'])
        cmd += [SP, K(b'CHARSET'), SP, A(cs, 'astring')]
        classes.append('search:charset')
    for k in keys:
        cmd += [SP] + k
    return {'word': (b'UID ' if uid else b'') + b'SEARCH',
            'classes': classes, 'prep': fixture(rng, [], False, embed),
            'pre': [b'SELECT INBOX'], 'cmd': cmd}


HDR_NAMES = [b'Subject', b'From', b'To', b'Date', b'X-VF-ID', b'Message-ID',
             b'X-Missing', b'subject', b'SUBJECT', b'cc']


def fam_fetchhdr(rng: random.Random, backend: str) -> dict[str, Any]:
    classes: list[str] = ['fetch:header-list']
    uid = rng.random() < 0.3
    names = rng.sample(HDR_NAMES, rng.choice([1, 1, 2, 3]))
    if rng.random() < 0.15:
        names.append(rng.choice([b'X-Odd]Name', b'x}y', b'X.Dot', b'']))
        classes.append('fetch:odd-header-name')
    spec = rng.choice([b'HEADER.FIELDS', b'HEADER.FIELDS',
                       b'HEADER.FIELDS.NOT'])
    att = rng.choice([b'BODY.PEEK', b'BODY'])
    cmd: list[Any] = ([C(b'UID'), SP] if uid else []) + \
        [C(b'FETCH'), SP, b'101:*' if uid else b'1:*', SP, b'(', K(b'UID'),
         SP, K(att), b'[', K(spec), SP, b'(']
    for k, n in enumerate(names):
        if k:
            cmd.append(SP)
        cmd.append(A(n, 'astring'))
    cmd += [b')]', b')']
    return {'word': (b'UID ' if uid else b'') + b'FETCH', 'hdrlist': True,
            'classes': classes, 'prep': fixture(rng, [], False),
            'pre': [b'SELECT INBOX'], 'cmd': cmd}


def fam_login(rng: random.Random, backend: str) -> dict[str, Any]:
    classes: list[str] = []

    def cred(simple: bool) -> bytes:
        while True:
            if simple:
                return _rand_printable(rng, rng.randint(1, 8),
                                       ASCII_NAME.encode())
            v, c = gen_value(rng, 'astring', backend)
            try:
                from pysasl.prep import saslprep
                if saslprep(v.decode('utf-8')) != v.decode('utf-8'):
                    continue
            except (UnicodeDecodeError, ValueError):
                continue
            classes.append('login:' + c)
            return v
    user = cred(backend != 'dict')
    pw = cred(False)
    good = rng.random() < 0.6
    sent_user = user if good or rng.random() < 0.5 else cred(backend != 'dict')
    sent_pw = pw if good else cred(False)
    return {'word': b'LOGIN', 'classes': classes, 'login': False,
            'users': {user.decode(): pw.decode()}, 'dump_user': 'testuser',
            'prep': [],
            'cmd': [C(b'LOGIN'), SP, A(sent_user, 'astring'), SP,
                    A(sent_pw, 'astring')],
            'post': [b'LIST "" *', b'STATUS INBOX (MESSAGES)']}


def fam_id(rng: random.Random, backend: str) -> dict[str, Any]:
    classes: list[str] = []
    cmd: list[Any] = [C(b'ID'), SP]
    if rng.random() < 0.2:
        cmd.append(K(b'NIL'))
        classes.append('id:nil')
    else:
        cmd.append(b'(')
        for k in range(rng.choice([1, 2, 3])):
            if k:
                cmd.append(SP)
            key = rng.choice([b'name', b'version', b'os', b'vendor'])
            v, c = gen_value(rng, 'string', backend)
            classes.append('id:' + c)
            cmd += [A(key, 'string'), SP]
            cmd.append(K(b'NIL') if rng.random() < 0.15 else A(v, 'string'))
        cmd.append(b')')
    return {'word': b'ID', 'classes': classes, 'prep': [],
            'login': rng.random() < 0.5, 'cmd': cmd, 'post': [b'NOOP']}


def fam_nostring(rng: random.Random, backend: str) -> dict[str, Any]:
    """Commands without string arguments: keyword case and spacing only."""
    uid = rng.random() < 0.4
    u: list[Any] = [C(b'UID'), SP] if uid else []
    sset = rng.choice([b'1', b'1:2', b'2:*', b'*', b'1,3']) if not uid \
        else rng.choice([b'101', b'101:102', b'102:*', b'*', b'1:*'])
    r = rng.random()
    pre = [b'SELECT INBOX']
    post = [b'FETCH 1:* (UID FLAGS)']
    if r < 0.3:
        word = b'STORE'
        item = rng.choice([b'+FLAGS', b'-FLAGS', b'FLAGS', b'+FLAGS.SILENT',
                           b'FLAGS.SILENT'])
        cmd = u + [C(b'STORE'), SP, sset, SP, K(item), SP, b'(',
                   K(rng.choice([b'\\Seen', b'\\Deleted', b'\\Answered'])),
                   SP, b'$Kw2', SP, K(b'\\Flagged'), b')']
    elif r < 0.6:
        word = b'FETCH'
        atts = rng.sample([b'FLAGS', b'UID', b'RFC822.SIZE', b'INTERNALDATE',
                           b'ENVELOPE', b'BODY.PEEK[HEADER]', b'BODY[TEXT]',
                           b'BODYSTRUCTURE', b'RFC822.HEADER',
                           b'BODY.PEEK[]<0.20>'], rng.randint(1, 4))
        cmd = u + [C(b'FETCH'), SP, sset, SP, b'(']
        for k, a in enumerate(atts):
            cmd += ([SP] if k else []) + [K(a)]
        cmd.append(b')')
    elif r < 0.72:
        word = b'SEARCH'
        cmd = u + [C(b'SEARCH'), SP, K(rng.choice(
            [b'ALL', b'SEEN', b'UNSEEN', b'FLAGGED', b'NEW'])), SP,
            K(b'KEYWORD'), SP, b'$Kw', SP, K(b'LARGER'), SP, b'10']
    elif r < 0.8:
        word = b'EXPUNGE'
        pre = [b'SELECT INBOX', b'STORE 2 +FLAGS (\\Deleted)']
        cmd = ([C(b'UID'), SP, C(b'EXPUNGE'), SP, b'1:*'] if uid
               else [C(b'EXPUNGE')])
    else:
        word = rng.choice([b'NOOP', b'CHECK', b'CLOSE', b'CAPABILITY',
                           b'LSUB', b'IDLE-less'])
        if word == b'LSUB':
            cmd = [C(b'LSUB'), SP, b'""', SP, b'*']
        elif word == b'IDLE-less':
            word = b'STATUS'
            cmd = [C(b'STATUS'), SP, K(b'INBOX'), SP, b'(', K(b'MESSAGES'),
                   SP, K(b'RECENT'), SP, K(b'UIDNEXT'), b')']
        else:
            cmd = [C(word)]
            if word == b'CLOSE':
                pre = [b'SELECT INBOX', b'STORE 1 +FLAGS (\\Deleted)']
                post = [b'NOOP']
        uid = False
    return {'word': (b'UID ' if uid else b'') + word,
            'classes': ['nostring:' + word.decode()],
            'prep': fixture(rng, [], False), 'pre': pre, 'cmd': cmd,
            'post': post}


FAMILIES: list[tuple[str, float, Callable[..., dict[str, Any]]]] = [
    ('LOGIN', 1.0, fam_login),
    ('SELECT', 0.6, lambda r, b: fam_mailbox1(r, b, b'SELECT')),
    ('EXAMINE', 0.4, lambda r, b: fam_mailbox1(r, b, b'EXAMINE')),
    ('CREATE', 0.8, lambda r, b: fam_mailbox1(r, b, b'CREATE')),
    ('DELETE', 0.6, lambda r, b: fam_mailbox1(r, b, b'DELETE')),
    ('SUBSCRIBE', 0.4, lambda r, b: fam_mailbox1(r, b, b'SUBSCRIBE')),
    ('UNSUBSCRIBE', 0.4, lambda r, b: fam_mailbox1(r, b, b'UNSUBSCRIBE')),
    ('STATUS', 0.7, lambda r, b: fam_mailbox1(r, b, b'STATUS')),
    ('RENAME', 0.8, fam_rename),
    ('LIST', 1.2, lambda r, b: fam_list(r, b, b'LIST')),
    ('LSUB', 0.4, lambda r, b: fam_list(r, b, b'LSUB')),
    ('APPEND', 1.0, fam_append),
    ('COPY', 0.5, lambda r, b: fam_copy(r, b, b'COPY')),
    ('MOVE', 0.4, lambda r, b: fam_copy(r, b, b'MOVE')),
    ('SEARCH', 1.6, fam_search),
    ('FETCHHDR', 0.8, fam_fetchhdr),
    ('ID', 0.4, fam_id),
    ('NOSTRING', 0.9, fam_nostring),
]
FAM_BY_NAME = {n: f for n, _, f in FAMILIES}


def build_family(spec: dict[str, Any]) -> tuple[dict[str, Any],
                                                random.Random]:
    rng = random.Random(spec['seed'])
    fam = FAM_BY_NAME[spec['family']](rng, spec['backend'])
    fam['backend'] = spec['backend']
    fam['seed'] = spec['seed']
    return fam, rng


# ---------------------------------------------------------------------------
# part (ii): names round trip through CREATE / LIST / LSUB / STATUS
# ---------------------------------------------------------------------------

_BARE_AMP = re.compile(rb'&[A-Za-z0-9+,]+-&(?!-)')


def _undecodable_kind(raw: bytes, exc: Exception) -> str:
    if _BARE_AMP.search(raw):
        # the '&' that follows the end of a shifted run is not spelled '&-'
        return 'bare-amp-after-shift'
    if b'&' in raw and not re.search(rb'&[A-Za-z0-9+,]*-', raw):
        return 'bare-amp'
    msg = str(exc)
    for key, kind in (('never terminated', 'unterminated-shift'),
                      ('alphabet', 'bad-base64'), ('stray', 'stray-bits'),
                      ('surrogate', 'lone-surrogate'),
                      ('printable', 'octet-not-printable-ascii')):
        if key in msg:
            return kind
    return 'other'


async def run_names(spec: dict[str, Any], counters: dict[str, int],
                    viol: list[dict[str, Any]]) -> str | None:
    rng = random.Random(spec['seed'])
    backend = spec['backend']
    names: list[str] = list(spec.get('names') or [])
    if not names:
        maxlen = 300 if backend == 'dict' else 40
        while len(names) < spec.get('n', 8):
            long_ = rng.random() < 0.1
            nm = gen_unicode_name(rng, maxlen if long_ else 24, backend)
            if name_ok(nm) and nm not in names and \
                    (backend == 'dict' or len(nm.encode()) < 120):
                names.append(nm)
    random.seed(spec['seed'])
    holder = _Env()
    env = await holder.make(backend, None)

    def cnt(k: str, n: int = 1) -> None:
        counters[k] = counters.get(k, 0) + n

    def report(mech: str, name: str, detail: str, **w: Any) -> None:
        viol.append({'mech': mech, 'detail': '%s: name %s (sent as %r): %s' % (
            backend, ascii(name), mutf7_encode(name), detail),
            'witness': dict(w, backend=backend, name=ascii(name),
                            codepoints=[ord(c) for c in name],
                            sent=mutf7_encode(name))})
    try:
        conn = await _open(env, 1)
        r = await _must(conn, b'LOGIN testuser testpass')
        created: list[str] = []
        for nm in names:
            enc = mutf7_encode(nm)
            assert mutf7_decode(enc) == nm
            kind = rng.choice(kinds_for(enc, 'mailbox'))
            r = await _command(conn, b'c1', render(
                b'c1', [C(b'CREATE'), SP, A(enc, 'mailbox')], [kind]))
            if r is None or r.tagged is None:
                raise Died('closed by CREATE')
            if not r.ok:
                cnt('names_create_refused')
                continue
            created.append(nm)
            if rng.random() < 0.5:
                await _must(conn, b'SUBSCRIBE ' + canon(enc))
        for verb in (b'LIST', b'LSUB'):
            r = await _must(conn, verb + b' "" *')
            decoded: dict[str, bytes] = {}
            undecodable = 0
            for u in r.untagged:
                if u.typ != verb or not isinstance(u.data, dict) \
                        or u.data['name'] is None:
                    continue
                raw = u.data['name']
                try:
                    decoded[mutf7_decode(raw)] = raw
                except MUtf7Error as exc:
                    cnt('names_undecodable')
                    undecodable += 1
                    viol.append({
                        'mech': 'name-undecodable:' +
                        _undecodable_kind(raw, exc),
                        'detail': '%s: %s reports %r, which is not modified '
                        'UTF-7 (%s); names created: %s' % (
                            backend, verb.decode(), raw, exc,
                            [ascii(n) for n in created][:8]),
                        'witness': {'backend': backend, 'reported': raw,
                                    'verb': verb, 'created': [
                                        (ascii(n), mutf7_encode(n))
                                        for n in created]}})
            if verb == b'LIST':
                for nm in created:
                    cnt('names_roundtripped')
                    if nm not in decoded and undecodable > 0:
                        # presumably one of the undecodable lines above
                        undecodable -= 1
                        continue
                    if nm not in decoded:
                        near = [ascii(d) for d in decoded
                                if d[:2] == nm[:2]][:4]
                        report('name-roundtrip-changed', nm,
                               'created OK but LIST reports no spelling that '
                               'decodes to it (nearby: %s)' % near,
                               listed=sorted(decoded.values())[:40])
            else:
                cnt('names_lsub_checked', len(decoded))
        for nm in created:
            enc = mutf7_encode(nm)
            kind = rng.choice(kinds_for(enc, 'mailbox'))
            r = await _command(conn, b's1', render(
                b's1', [C(b'STATUS'), SP, A(enc, 'mailbox'), SP,
                        b'(MESSAGES)'], [kind]))
            if r is None or r.tagged is None:
                raise Died('closed by STATUS')
            if not r.ok:
                cnt('names_status_refused')
                continue
            got = [u.data['name'] for u in r.untagged
                   if u.typ == b'STATUS' and isinstance(u.data, dict)]
            cnt('names_status_checked')
            if len(got) != 1 or got[0] is None:
                report('name-status-missing', nm, 'STATUS OK without exactly '
                       'one STATUS line: %r' % got)
                continue
            try:
                back = mutf7_decode(got[0])
            except MUtf7Error as exc:
                report('name-undecodable:' +
                       _undecodable_kind(got[0], exc), nm,
                       'STATUS reports %r: %s' % (got[0], exc),
                       reported=got[0])
                continue
            if back != nm:
                report('name-roundtrip-changed', nm, 'STATUS reports %r = %s'
                       % (got[0], ascii(back)), reported=got[0])
        await conn.simple(b'LOGOUT', delay=False)
        await conn.wait_closed()
    except Died as exc:
        return 'other-property:names-%s' % str(exc)[:40]
    finally:
        holder.cleanup()
    return None


# ---------------------------------------------------------------------------
# part (iii): in-process round trips on the real parser classes
# ---------------------------------------------------------------------------

TAILS = [b'', b' next', b')', b'\r\n', b' {3}\r\nabc']
_LITPLUS = re.compile(rb'\{(\d+)\+\}\r?\n\Z')


class Fed:
    """Feeds a byte string to a ``parse`` classmethod the way a connection
    does (RFC 3501 7.5 / RFC 7888): one line at a time, ``{n+}`` literals
    follow their line immediately, ``{n}`` literals arrive only when the
    parser asks for a continuation."""

    def __init__(self, wire: bytes) -> None:
        self.wire = wire
        self.pos = 0

    def readline(self) -> bytes:
        start = self.pos
        w = self.wire
        while True:
            nl = w.find(b'\n', self.pos)
            if nl < 0:
                self.pos = len(w)
                return w[start:]
            self.pos = nl + 1
            m = _LITPLUS.search(w[start:self.pos])
            if not m:
                return w[start:self.pos]
            self.pos = min(len(w), self.pos + int(m.group(1)))

    def read(self, n: int) -> bytes:
        out = self.wire[self.pos:self.pos + n]
        self.pos += len(out)
        return out


def fed_parse(cls: Any, wire: bytes, **pkw: Any) -> tuple[Any, bytes]:
    """(object, everything not consumed)."""
    from pymap.parsing import Params
    from pymap.parsing.state import ParsingInterrupt, ParsingState
    fed = Fed(wire)
    line = fed.readline()
    conts: list[memoryview] = []
    for _ in range(20):
        params = Params(ParsingState(continuations=conts), **pkw)
        try:
            obj, rest = cls.parse(memoryview(line), params)
        except ParsingInterrupt as intr:
            n = intr.expected.literal_length
            conts.append(memoryview(fed.read(n) + fed.readline()))
            continue
        return obj, bytes(rest) + wire[fed.pos:]
    raise RuntimeError('continuation loop')


def _atomic(w: bytes) -> bool:
    return bool(w) and all(c in ASTRING_CH or c == 0x5c for c in w)


def _days_in(y: int, m: int) -> int:
    if m == 12:
        return 31
    return (datetime(y, m + 1, 1) - datetime(y, m, 1)).days


MONTHS = [b'Jan', b'Feb', b'Mar', b'Apr', b'May', b'Jun', b'Jul', b'Aug',
          b'Sep', b'Oct', b'Nov', b'Dec']


def gen_string_value(rng: random.Random, quotable: bool) -> bytes:
    r = rng.random()
    if r < 0.1:
        return b''
    if r < 0.3:
        return _rand_printable(rng, rng.randint(1, 12), _ATOMS)
    if r < 0.5:
        return _rand_printable(rng, rng.randint(1, 30), _PRINT)
    if r < 0.62:
        return _rand_printable(rng, rng.randint(1, 10), b'"\\ a"\\')
    if r < 0.7:
        return rng.choice([b'abc{3}', b'abc {3+}', b'{3}', b'{0+}', b'(', b')',
                           b'a]b', b'a}b', b'NIL', b'%', b'*', b'a b'])
    if r < 0.8:
        return bytes(rng.randrange(0x80, 0x100)
                     for _ in range(rng.randint(1, 12)))
    if r < 0.88:
        return _rand_printable(rng, rng.choice([63, 64, 65, 500, 2000]),
                               _PRINT)
    if quotable:
        return bytes(rng.choice([9, 1, 0x7f, 0x20, 0x41, 0x22, 0x5c, 0xe9])
                     for _ in range(rng.randint(1, 8)))
    return bytes(rng.choice([13, 10, 0, 9, 0x41, 0x22, 0x5c, 0x7b, 0x7d, 0x2b])
                 for _ in range(rng.randint(1, 10)))


def _unframe_astring(w: bytes) -> bytes:
    """The value inside the astring framing pymap chose: atom, quoted or
    (for 64 octets and more) literal."""
    m = re.match(rb'\{(\d{1,9})\}\r\n', w)
    if m and len(w) - m.end() == int(m.group(1)):
        return w[m.end():]
    if w.startswith(b'"') and w.endswith(b'"') and len(w) >= 2:
        return w[1:-1].replace(b'\\"', b'"').replace(b'\\\\', b'\\')
    return w


def run_inproc(spec: dict[str, Any], counters: dict[str, int],
               viol: list[dict[str, Any]]) -> None:
    from pymap.parsing.exceptions import NotParseable
    from pymap.parsing.primitives import (LiteralString, QuotedString,
                                          String)
    from pymap.parsing.specials import (AString, DateTime, Flag, Mailbox,
                                        SequenceSet)
    from pymap.parsing.specials.sequenceset import MaxValue
    rng = random.Random(spec['seed'])
    cname = spec['cls']
    seen: set[str] = set()

    def cnt(k: str, n: int = 1) -> None:
        counters[k] = counters.get(k, 0) + n

    def report(mech: str, detail: str, **w: Any) -> None:
        mech = '%s:%s' % (mech, w.pop('label', None) or cname)
        wire = w.get('wire') or w.get('serialised') or b''
        if w.pop('atomic', False) and b'}' in wire and (
                mech.split(':')[0] in ('legal-spelling-unparseable',
                                       'roundtrip-unparseable')
                or (mech.split(':')[0] in ('parse-consumes-wrong-length',
                                           'roundtrip-consumes-wrong-length')
                    and w.get('left', b'')[:1] == b'}')):
            # a legal atom containing '}' (an ATOM-CHAR) is cut short
            mech = 'atom-with-rbrace-refused'
        if mech in seen:
            return
        seen.add(mech)
        viol.append({'mech': mech, 'detail': detail,
                     'witness': dict(w, cls=cname)})

    def roundtrip(cls: Any, obj: Any, same: Callable[[Any, Any], bool],
                  origin: str, pkw: dict[str, Any]) -> None:
        """bytes(obj) re-parses (with any tail) to an equal object consuming
        exactly its own bytes."""
        try:
            w = bytes(obj)
        except Exception as exc:
            report('serialise-raises', '%s: bytes() of %s object raised %r'
                   % (cname, origin, exc), origin=origin)
            return
        for tail in TAILS:
            cnt('rt_' + cname)
            try:
                obj2, rest = fed_parse(cls, w + tail, **pkw)
            except NotParseable:
                report('built-quoted-string-contains-cr'
                       if w[:1] == b'"' and b'\r' in w
                       else 'roundtrip-unparseable',
                       '%s: bytes(%s object) = %r does not parse again '
                       '(tail %r)' % (cname, origin, w[:80], tail),
                       serialised=w[:300], tail=tail, origin=origin,
                       atomic=_atomic(w))
                return
            if rest != tail:
                report('roundtrip-consumes-wrong-length',
                       '%s: bytes(%s object) = %r followed by %r: parser '
                       'left %r' % (cname, origin, w[:80], tail, rest[:80]),
                       serialised=w[:300], tail=tail, left=rest[:300],
                       origin=origin, atomic=_atomic(w))
                return
            if not same(obj, obj2):
                report('roundtrip-value-changed',
                       '%s: bytes(%s object) = %r re-parses to a different '
                       'value %r' % (cname, origin, w[:80],
                                     bytes(obj2)[:80]),
                       serialised=w[:300], tail=tail, origin=origin)
                return

    def from_wire(cls: Any, wire: bytes, expect: Callable[[Any], bool],
                  same: Callable[[Any, Any], bool], raw_cached: bool,
                  pkw: dict[str, Any], what: Any,
                  raw_label: str | None = None) -> None:
        """parse(wire + tail) yields the value and leaves exactly tail; the
        parsed object then serialises to something that round-trips."""
        for tail in TAILS:
            cnt('rt_' + cname)
            try:
                obj, rest = fed_parse(cls, wire + tail, **pkw)
            except NotParseable:
                report('legal-spelling-unparseable',
                       '%s: legal spelling %r (tail %r) is refused'
                       % (cname, wire[:80], tail), wire=wire[:300], tail=tail,
                       atomic=_atomic(wire))
                return
            if rest != tail:
                report('parse-consumes-wrong-length',
                       '%s: %r followed by %r: parser left %r'
                       % (cname, wire[:80], tail, rest[:80]),
                       wire=wire[:300], tail=tail, left=rest[:300],
                       atomic=_atomic(wire))
                return
            if not expect(obj):
                report('parse-value-wrong',
                       '%s: %r parsed to %r, expected %r'
                       % (cname, wire[:80], bytes(obj)[:80], what),
                       wire=wire[:300], tail=tail)
                return
            if raw_cached:
                cnt('raw_cache_checked')
                cached = bytes(obj)
                if cached != wire:
                    report('raw-cache-wrong',
                           '%s: parsed from %r (followed by %r) but caches '
                           '%r as its own raw form' % (
                               cname, wire[:80], tail, cached[:80]),
                           wire=wire[:300], tail=tail, cached=cached[:300],
                           label=raw_label)
                    return
            roundtrip(cls, obj, same, 'parsed', pkw)

    def same_val(a: Any, b: Any) -> bool:
        return a.value == b.value and (a == b)

    explicit = [x.encode('latin-1') if cname != 'Mailbox' else x
                for x in spec.get('values') or []]
    n = len(explicit) or spec['n']

    def pick(gen: Callable[[], Any]) -> Any:
        return explicit.pop(0) if explicit else gen()
    if cname in ('QuotedString', 'LiteralString', 'AString', 'String',
                 'StringBuild'):
        for _ in range(n):
            if cname == 'QuotedString':
                v = pick(lambda: gen_string_value(rng, True))
                if any(c in (0, 10, 13) for c in v):
                    continue
                from_wire(QuotedString, quote(v), lambda o: o.value == v,
                          same_val, True, {}, v)
                roundtrip(QuotedString, QuotedString(v), same_val, 'built',
                          {})
            elif cname == 'LiteralString':
                v = pick(lambda: gen_string_value(rng, False)) \
                    .replace(b'\x00', b'\x01')
                for wire in (b'{%d}\r\n' % len(v) + v,
                             b'{%d+}\r\n' % len(v) + v):
                    from_wire(LiteralString, wire, lambda o: o.value == v,
                              same_val, False, {}, v)
                roundtrip(LiteralString, LiteralString(v), same_val, 'built',
                          {})
            elif cname in ('AString', 'String'):
                cls = AString if cname == 'AString' else String
                v = pick(lambda: gen_string_value(rng, rng.random() < 0.5)) \
                    .replace(b'\x00', b'\x01')
                pos = 'astring' if cname == 'AString' else 'string'
                for k in kinds_for(v, pos):
                    wire = render(b'', [A(v, pos)], [k])
                    w = b''.join(wire)[1:-2]
                    from_wire(cls, w, lambda o: o.value == v, same_val,
                              k in ('atom', 'quoted'), {}, v,
                              'QuotedString' if k == 'quoted' else None)
                if cname == 'AString' and not any(c in (0, 10, 13)
                                                  for c in v):
                    roundtrip(AString, AString(v), same_val, 'built', {})
            else:
                v = pick(lambda: gen_string_value(rng, rng.random() < 0.5))
                obj = String.build(v, binary=False)
                if not v:
                    continue
                if obj.value != v:
                    report('build-value-wrong', 'String.build(%r).value = %r'
                           % (v[:80], obj.value[:80]), value=v[:300])
                roundtrip(String, obj, same_val, 'String.build', {})
    elif cname == 'SequenceSet':
        star = MaxValue()

        def idx() -> Any:
            r = rng.random()
            if r < 0.15:
                return '*'
            if r < 0.7:
                return rng.randint(1, 30)
            return rng.choice([1, 4294967295, 2147483648, 99999,
                               rng.randint(1, 10 ** 9)])

        def ev(model: list[Any], mx: int) -> frozenset[int]:
            out: set[int] = set()
            for e in model:
                a, b = e if isinstance(e, tuple) else (e, e)
                a = mx if a == '*' else a
                b = mx if b == '*' else b
                lo, hi = min(a, b), max(a, b)
                out.update(range(lo, min(hi, mx) + 1))
            return frozenset(out)

        for _ in range(n):
            ln = rng.choice([1, 1, 2, 3, 5, 40, 300]) \
                if rng.random() < 0.9 else 1
            model: list[Any] = []
            for _ in range(ln):
                if rng.random() < 0.5:
                    model.append(idx())
                else:
                    model.append((idx(), idx()))
                if model and rng.random() < 0.1:
                    model.append(model[rng.randrange(len(model))])

            def sp(x: Any) -> bytes:
                return b'*' if x == '*' else b'%d' % x
            wire = b','.join(sp(e[0]) + b':' + sp(e[1])
                             if isinstance(e, tuple) else sp(e)
                             for e in model)
            uid = rng.random() < 0.5
            maxes = (1, 7, 300)

            def expect(o: Any) -> bool:
                return o.uid == uid and all(
                    o.flatten(m) == ev(model, m) for m in maxes)

            def same_seq(a: Any, b: Any) -> bool:
                return a == b and all(a.flatten(m) == b.flatten(m)
                                      for m in maxes)
            from_wire(SequenceSet, wire, expect, same_seq, False,
                      {'uid': uid}, wire[:80])
            seqs = [(star if x == '*' else x) if not isinstance(x, tuple)
                    else tuple(star if y == '*' else y for y in x)
                    for x in model]
            built = SequenceSet(seqs, uid)
            if not expect(built):
                report('built-value-wrong', 'SequenceSet(%r) flattens '
                       'differently from RFC 3501' % (model[:10],))
            roundtrip(SequenceSet, built, same_seq, 'built', {'uid': uid})
            if rng.random() < 0.2:
                nums = [rng.randint(1, 60) for _ in range(rng.randint(1, 30))]
                b2 = SequenceSet.build(nums, uid)
                if b2.flatten(100) != frozenset(nums):
                    report('built-value-wrong', 'SequenceSet.build(%r)'
                           % nums)
                roundtrip(SequenceSet, b2, same_seq, 'SequenceSet.build',
                          {'uid': uid})
    elif cname == 'Flag':
        sysf = [b'Seen', b'Answered', b'Flagged', b'Deleted', b'Draft',
                b'Recent', b'Foo', b'X-Ext9']
        kws = [b'$Forwarded', b'$MDNSent', b'NonJunk', b'a.b', b'x-y_z',
               b'kw123', b'$Label1', b'Junk', b'NIL', b'UPPER', b'lower']

        def mix(w: bytes) -> bytes:
            return bytes(c ^ 0x20 if (65 <= c <= 90 or 97 <= c <= 122)
                         and rng.random() < 0.5 else c for c in w)
        for _ in range(n):
            r = rng.random()
            if explicit:
                wire = explicit.pop(0)
            elif r < 0.5:
                wire = b'\\' + mix(rng.choice(sysf))
            elif r < 0.8:
                wire = rng.choice(kws)
            else:
                wire = _rand_printable(rng, rng.randint(1, 12), _ATOMS + b'&')

            def same_flag(a: Any, b: Any) -> bool:
                return a == b and a.value == b.value and hash(a) == hash(b)
            from_wire(Flag, wire,
                      lambda o: o.value.lower() == wire.lower(), same_flag,
                      False, {}, wire)
            roundtrip(Flag, Flag(wire), same_flag, 'built', {})
    elif cname == 'DateTime':
        for _ in range(n):
            y = rng.choice([1970, 1999, 2000, 2024, 2038, 2100,
                            rng.randint(1970, 2100)])
            mo = rng.randint(1, 12)
            d = rng.choice([1, 9, 10, 28, _days_in(y, mo),
                            rng.randint(1, _days_in(y, mo))])
            d = min(d, _days_in(y, mo))
            h, mi, s = rng.choice([(0, 0, 0), (23, 59, 59), (
                rng.randint(0, 23), rng.randint(0, 59), rng.randint(0, 59))])
            zh, zm = rng.choice([(0, 0), (14, 0), (12, 0), (5, 30), (9, 45),
                                 (rng.randint(0, 13), rng.choice([0, 15, 30,
                                                                  45, 59]))])
            sign = rng.choice([1, -1])
            tz = timezone(sign * timedelta(hours=zh, minutes=zm))
            when = datetime(y, mo, d, h, mi, s, tzinfo=tz)
            day = (b'%2d' if rng.random() < 0.5 else b'%02d') % d
            wire = b'"%s-%s-%04d %02d:%02d:%02d %s%02d%02d"' % (
                day, MONTHS[mo - 1], y, h, mi, s,
                b'+' if sign > 0 else b'-', zh, zm)

            def same_dt(a: Any, b: Any) -> bool:
                return a.value == b.value and \
                    a.value.utcoffset() == b.value.utcoffset()
            from_wire(DateTime, wire,
                      lambda o: o.value == when
                      and o.value.utcoffset() == when.utcoffset(),
                      same_dt, True, {}, when.isoformat())
            roundtrip(DateTime, DateTime(when), same_dt, 'built', {})
    elif cname == 'Mailbox':
        for _ in range(n):
            name = pick(lambda: gen_unicode_name(
                rng, rng.choice([6, 20, 120]), 'dict'))
            if not name_ok(name):
                continue
            cnt('rt_Mailbox')
            try:
                w = bytes(Mailbox(name))
                back = mutf7_decode(_unframe_astring(w))
            except MUtf7Error as exc:
                # do NOT hand it to pymap's decoder: it may never return
                report('name-undecodable',
                       'bytes(Mailbox(%s)) = %r is not modified UTF-7: %s'
                       % (ascii(name), w[:80], exc), name=ascii(name),
                       codepoints=[ord(c) for c in name], serialised=w,
                       label=_undecodable_kind(w, exc))
                continue
            if back != name:
                report('name-encoded-wrong',
                       'bytes(Mailbox(%s)) = %r decodes to %s' % (
                           ascii(name), w[:80], ascii(back)),
                       name=ascii(name), serialised=w)
                continue
            enc = mutf7_encode(name)
            for k in kinds_for(enc, 'mailbox'):
                wire = b''.join(render(b'', [A(enc, 'mailbox')], [k]))[1:-2]
                from_wire(Mailbox, wire, lambda o: o.value == name,
                          lambda a, b: a.value == b.value, False, {},
                          ascii(name))
            roundtrip(Mailbox, Mailbox(name),
                      lambda a, b: a.value == b.value, 'built', {})
    else:
        raise ValueError(cname)


# ---------------------------------------------------------------------------
# scripted minimal triggers (known_findings.json entries replay these)
# ---------------------------------------------------------------------------

def _script_fam(word: bytes, cmd: list[Any], backend: str = 'dict',
                **kw: Any) -> dict[str, Any]:
    fam = {'word': word, 'cmd': cmd, 'backend': backend, 'seed': 1,
           'prep': fixture(random.Random(1), [], False), 'classes': []}
    fam.update(kw)
    return fam


async def script_e2e(name: str, counters: dict[str, int],
                     viol: list[dict[str, Any]]) -> None:
    rng = random.Random(1)
    if name == 'fetch-header-list-quoted':
        # FETCH 1 (UID BODY.PEEK[HEADER.FIELDS (Subject)]) vs ("Subject")
        fam = _script_fam(b'FETCH', [
            C(b'FETCH'), SP, b'1', SP, b'(', K(b'UID'), SP, K(b'BODY.PEEK'),
            b'[', K(b'HEADER.FIELDS'), SP, b'(', A(b'Subject', 'astring'),
            b')]', b')'], hdrlist=True, pre=[b'SELECT INBOX'])
        await run_e2e(fam, rng, counters, viol,
                      [('quoted', ['quoted'], 'upper', 'single'),
                       ('nonsync', ['nonsync'], 'upper', 'single')], ['atom'])
    elif name == 'atom-rbrace':
        # STATUS a}b (MESSAGES) vs STATUS "a}b" (MESSAGES)
        fam = _script_fam(b'STATUS', [
            C(b'STATUS'), SP, A(b'a}b', 'mailbox'), SP, b'(MESSAGES)'],
            prep=[b'CREATE "a}b"'])
        await run_e2e(fam, rng, counters, viol,
                      [('atom', ['atom'], 'upper', 'single')], ['quoted'])
    elif name == 'nonsync-literal-plus-tail':
        # CREATE "abc {3+}" vs CREATE {8+}CRLF abc {3+}CRLF
        fam = _script_fam(b'CREATE', [
            C(b'CREATE'), SP, A(b'abc {3+}', 'mailbox')], prep=[])
        await run_e2e(fam, rng, counters, viol,
                      [('nonsync', ['nonsync'], 'upper', 'single'),
                       ('sync', ['sync'], 'upper', 'single')], ['quoted'])
    else:
        raise ValueError(name)


SCRIPT_NAMES = {
    # (ii): U+00E9 '&' 'x' -- an ampersand right after a shifted run
    'name-amp-after-shift': {'part': 'names', 'backend': 'dict', 'seed': 1,
                             'names': ['\u00e9&x']},
    # (iii): QuotedString.parse(b'"abc" next') caches b'"abc" '
    'quoted-raw-cache': {'part': 'inproc', 'cls': 'QuotedString', 'seed': 1,
                         'values': ['abc']},
    'astring-quoted-raw-cache': {'part': 'inproc', 'cls': 'AString',
                                 'seed': 1, 'values': ['a b']},
    'flag-atom-rbrace': {'part': 'inproc', 'cls': 'Flag', 'seed': 1,
                         'values': ['a}b']},
    'astring-atom-rbrace': {'part': 'inproc', 'cls': 'AString', 'seed': 1,
                            'values': ['a}b']},
    'astring-atom-rbracket': {'part': 'inproc', 'cls': 'AString', 'seed': 1,
                              'values': ['a]b']},
    'mailbox-amp-after-shift': {'part': 'inproc', 'cls': 'Mailbox',
                                'seed': 1, 'values': ['\u00e9&x']},
    'string-build-cr': {'part': 'inproc', 'cls': 'StringBuild', 'seed': 1,
                        'values': ['a\rb']},
}


# ---------------------------------------------------------------------------
# the check
# ---------------------------------------------------------------------------

class _Watchdog(BaseException):
    pass


def _alarm(signum: int, frame: Any) -> None:
    raise _Watchdog('case exceeded its wall-clock watchdog (a synchronous '
                    'loop in the code under test?)')


INPROC_CLASSES = ['QuotedString', 'LiteralString', 'AString', 'String',
                  'StringBuild', 'SequenceSet', 'Flag', 'DateTime', 'Mailbox']


class C18(Check):
    pid = 'C18'
    level = 'exploration'
    title = 'spelling does not change meaning'
    rule = ('e2e case = one command (family x argument values drawn from '
            'value classes: plain, atom-chars, ], }, spaces, quotes/'
            'backslashes, UTF-8, empty, literal look-alikes, parentheses, '
            'wildcards, long, modified UTF-7, &-, special tokens, CR/LF) run '
            'on fresh identically prepared accounts in a random base spelling '
            'and in each uniform sibling spelling (atom/quoted/{n}/{n+}), a '
            'keyword-case variant, an extra-space variant and a bare-LF '
            'variant; names case = 8 '
            'generated Unicode names created and read back through LIST/LSUB/'
            'STATUS; inproc case = n generated values of one parser class x '
            '5 tails, wire->object->bytes->object.  distinct = hash of '
            '(family, values, spellings) / (names) / (class, seed); '
            'non-trivial = at least one spelling pair compared with the '
            'command not refused as BAD in the base spelling, or >= 1 name '
            'round-tripped, or >= 1 in-process round trip')
    assumptions = [
        'asyncio subsystem; dict and maildir(++) backends, in-memory '
        'transport; every run starts from a fresh backend instance',
        'a spelling is "legal" per RFC 3501 section 9 + RFC 7888: atoms are '
        '1*ATOM-CHAR (astring atoms also "]", list-mailbox atoms also % and '
        '*), quoted strings are 7-bit without CR/LF, literals carry any octet '
        'but NUL',
        'extra/trailing spaces are not legal in general: a BAD for such a '
        'variant is allowed, an accepted variant must behave identically',
        'names with control characters, empty components, "."/".." '
        'components, unterminated or ill-formed "&" shifts are left to '
        'C06/C08/C11']
    floors = {'commands_compared': 1000, 'spelling_pairs_compared': 3000,
              'pairs_atom': 300, 'pairs_quoted': 500,
              'pairs_sync_literal': 500, 'pairs_nonsync_literal': 500,
              'pairs_case': 300, 'pairs_space': 300, 'pairs_eol': 150,
              'names_roundtripped': 500, 'names_status_checked': 400,
              'rt_QuotedString': 2000, 'rt_LiteralString': 2000,
              'rt_AString': 2000, 'rt_SequenceSet': 2000, 'rt_Flag': 2000,
              'rt_DateTime': 2000, 'rt_StringBuild': 1000,
              'rt_Mailbox': 1000, 'class|mailbox:mutf7': 30,
              'class|mailbox:quote-backslash': 30,
              'class|mailbox:literal-lookalike': 30,
              'class|search:8bit-utf8': 5, 'class|login:8bit-utf8': 3}
    time_cap = {"quick": 120.0, "thorough": 1200.0}

    def cases(self, tier: str, seed: int) -> Iterable[dict[str, Any]]:
        quick = tier == 'quick'
        rng = random.Random(seed * 7919 + 18)
        n_e2e = 1100 if quick else 1700 * 14
        n_names = 120 if quick else 120 * 14
        n_inproc = 8 if quick else 8 * 14      # per class
        names = [f[0] for f in FAMILIES]
        weights = [f[1] for f in FAMILIES]
        out: list[dict[str, Any]] = []
        for i in range(n_e2e):
            out.append({'part': 'e2e',
                        'family': rng.choices(names, weights)[0],
                        'backend': 'dict' if rng.random() < 0.92
                        else 'maildir',
                        'seed': seed * 1_000_003 + i})
        for i in range(n_names):
            out.append({'part': 'names', 'n': 8,
                        'backend': 'dict' if rng.random() < 0.7
                        else 'maildir',
                        'seed': seed * 1_000_003 + 500_000 + i})
        for cname in INPROC_CLASSES:
            for i in range(n_inproc):
                out.append({'part': 'inproc', 'cls': cname,
                            'n': 60 if cname in ('SequenceSet', 'Mailbox')
                            else 120,
                            'seed': seed * 1_000_003 + 900_000 + i})
        rng.shuffle(out)
        return out

    def setup_worker(self) -> None:
        try:
            signal.signal(signal.SIGALRM, _alarm)
        except (ValueError, OSError):       # pragma: no cover
            pass

    def run_case(self, spec: dict[str, Any]) -> dict[str, Any]:
        if 'script' in spec and spec['script'] in SCRIPT_NAMES:
            spec = dict(SCRIPT_NAMES[spec['script']])
        counters: dict[str, int] = {}
        viol: list[dict[str, Any]] = []
        aborted: list[str | None] = [None]
        sample: Any = None
        classes: list[str] = []
        part = spec.get('part', 'e2e')
        try:
            signal.alarm(150)
        except (ValueError, OSError):       # pragma: no cover
            pass
        try:
            if part == 'inproc':
                run_inproc(spec, counters, viol)
                sig = 'inproc:%s:%d' % (spec['cls'], spec['seed'])
                nontrivial = counters.get('rt_' + spec['cls'], 0) > 0
                classes = ['inproc:' + spec['cls']]
            elif part == 'names':
                async def main_n(loop: L.CtlLoop) -> None:
                    aborted[0] = await run_names(spec, counters, viol)
                L.run(main_n, max_steps=3_000_000)
                sig = 'names:%s:%d' % (spec['backend'], spec['seed'])
                nontrivial = counters.get('names_roundtripped', 0) > 0
                classes = ['names:' + spec['backend']]
            elif 'script' in spec:
                async def main_s(loop: L.CtlLoop) -> None:
                    await script_e2e(spec['script'], counters, viol)
                L.run(main_s, max_steps=3_000_000)
                sig, nontrivial = 'script:' + spec['script'], True
            else:
                fam, rng = build_family(spec)
                classes = fam.get('classes', [])

                async def main_e(loop: L.CtlLoop) -> None:
                    aborted[0] = await run_e2e(fam, rng, counters, viol)
                L.run(main_e, max_steps=3_000_000)
                vals = [a.v for a in args_of(fam['cmd'])]
                sig = hashlib.sha1(repr((
                    fam['word'], spec['backend'], vals,
                    [p.w for p in fam['cmd'] if isinstance(p, K)]
                )).encode()).hexdigest()[:16]
                nontrivial = counters.get('spelling_pairs_compared', 0) > 0 \
                    and counters.get('cond_BAD', 0) == 0
                sample = {'spec': spec, 'command': fam['word'],
                          'values': [v[:60] for v in vals],
                          'classes': classes}
        except L.Deadlock:
            aborted[0] = 'deadlock'
            sig, nontrivial = None, False
        finally:
            try:
                signal.alarm(0)
            except (ValueError, OSError):   # pragma: no cover
                pass
            for env in list(_ENVS):
                try:
                    env.cleanup()
                except Exception:           # pragma: no cover
                    pass
            del _ENVS[:]
        for c in set(classes):
            counters['class|' + c] = 1
        # one violation per mechanism per case is enough
        seen: set[str] = set()
        uniq = []
        for v in viol:
            if v['mech'] not in seen:
                seen.add(v['mech'])
                uniq.append(v)
        return {'violations': uniq, 'counters': counters, 'sig': sig,
                'nontrivial': nontrivial, 'sample': sample,
                'aborted': aborted[0]}

    def extra_evidence(self, agg: dict[str, Any]) -> dict[str, Any]:
        c = agg['counters']
        classes = sorted(k[6:] for k in c if k.startswith('class|'))
        return {'argument_classes_seen': classes,
                'argument_classes_distinct': len(classes),
                'latitude_used': {
                    'space_variant_refused': c.get('space_variant_refused', 0),
                    'eol_variant_refused': c.get('eol_variant_refused', 0),
                    'names_create_refused': c.get('names_create_refused', 0)}}


CHECK = C18()
