"""C15 -- maildir state survives restart and crashes without UID damage.

Level: fault enumeration.  For each generated history the filesystem-operation
trace of the real server is enumerated; for EVERY prefix k the server process
is killed right before its k-th mutating operation (audit hook, os._exit), a
brand-new backend is started on the directory and its IMAP dump is judged
against the acknowledged-effects log of the crashed run (vf.crash.judge)."""

from __future__ import annotations

import hashlib
import os
import random
import shutil
import tempfile
from typing import Any, Iterable

from .. import crash
from ..runner import Check

WHERE = {'tmp': None, 'shm': '/dev/shm'}


def boxes_of(history: list[dict[str, Any]]) -> list[str]:
    out = {'INBOX'}
    for op in history:
        for k in ('mbox', 'dest', 'name', 'a', 'b'):
            if k in op:
                out.add(op[k])
    return sorted(out)


def run_point(history: list[dict[str, Any]], layout: str, where: str,
              kill_at: int | None, fail_at: int | None = None,
              kill_after: int | None = None) \
        -> tuple[int, list[dict[str, Any]], dict[str, Any] | None, str]:
    """One execution + restart.  Returns (status, log, dump, note)."""
    base = WHERE[where] or tempfile.gettempdir()
    root = tempfile.mkdtemp(prefix='vf-crash-', dir=base)
    try:
        logp = os.path.join(root, 'ack.log')
        import errno
        st = crash.fork_wait(crash.child_run,
                             (root, layout, history, logp, kill_at, fail_at,
                              errno.ENOSPC, kill_after))
        log = crash.read_log(logp)
        if st == -1:
            return st, log, None, 'watchdog-run'
        outp = os.path.join(root, 'dump.json')
        st2 = crash.fork_wait(crash.child_restart,
                              (root, layout, outp, boxes_of(history)))
        if st2 != 0 or not os.path.exists(outp):
            return st, log, None, 'watchdog-restart' if st2 == -1 \
                else 'restart-exit-%d' % st2
        import json
        with open(outp) as f:
            dump = json.load(f)
        return st, log, dump, ''
    finally:
        shutil.rmtree(root, ignore_errors=True)


class C15(Check):
    pid = 'C15'
    level = 'fault_enumeration'
    rule = ('case = one generated history (APPEND/MULTIAPPEND/STORE/COPY/'
            'MOVE/EXPUNGE/CREATE/RENAME/SUBSCRIBE/CHECK, 4-9 commands) on a '
            'maildir store x a slice of its crash points; every prefix of '
            'the mutating filesystem-operation trace is a crash point '
            '(exhaustive per history) plus the clean stop; layouts ++/fs; '
            'store on the temp filesystem or on /dev/shm (a different one); '
            'distinct = (history hash, crash point); non-trivial = the '
            'restart dump was judged')
    assumptions = [
        'crash = process death between two filesystem operations (audit-hook '
        'kill); not power loss, not torn writes inside one write()',
        'stale *.lock files are aged past FileLock expiry before the restart '
        '(availability delay is not data loss)',
        'filesystem operations are those visible as CPython audit events']
    floors = {'crash_points_run': 300, 'acked_messages_checked': 400,
              'post_restart_appends': 300, 'clean_stops': 4}
    time_cap = {'quick': 120.0, 'thorough': 1200.0}
    max_aborted = 0.05

    def cases(self, tier: str, seed: int) -> Iterable[dict[str, Any]]:
        nhist = 8 if tier == 'quick' else 150
        rng = random.Random(seed * 9973 + 15)
        nchunks = 8
        for h in range(nhist):
            hseed = seed * 1_000_003 + h
            layout = rng.choice(['++', 'fs'])
            where = rng.choice(['tmp', 'tmp', 'shm'])
            nops = rng.randint(2, 7)
            for j in range(nchunks):
                yield {'hseed': hseed, 'layout': layout, 'where': where,
                       'nops': nops, 'chunk': j, 'nchunks': nchunks}

    def run_case(self, spec: dict[str, Any]) -> dict[str, Any]:
        violations: list[dict[str, Any]] = []
        counters: dict[str, int] = {}
        if 'history' in spec:
            history = spec['history']
        else:
            history = crash.gen_history(random.Random(spec['hseed']),
                                        spec['nops'])
        layout, where = spec['layout'], spec['where']

        def report_for(k: Any, log: list[dict[str, Any]]) -> Any:
            def report(mech: str, detail: str) -> None:
                if len(violations) < 6:
                    violations.append({
                        'mech': mech, 'detail': 'crash point %r: %s' % (
                            k, detail),
                        'witness': {'history': history, 'crash_at': k,
                                    'layout': layout, 'where': where,
                                    'ack_log': log[-12:]}})
            return report

        # reference run: how many mutating operations does the history make?
        st, log, dump, note = run_point(history, layout, where, None)
        done = [r for r in log if r.get('done')]
        herr = [r['harness_error'] for r in log if 'harness_error' in r]
        if herr and 'cross-device' in herr[0] and where == 'shm':
            return {'violations': [{
                'mech': 'store-unusable-on-other-filesystem',
                'detail': 'a store on a different filesystem than the '
                'system temp dir cannot be written: ' + herr[0],
                'witness': {'where': where, 'layout': layout}}],
                'counters': counters, 'sig': 'exdev', 'nontrivial': True,
                'sample': None, 'aborted': None}
        if note or not done:
            return {'violations': [], 'counters': counters, 'sig': None,
                    'nontrivial': False, 'sample': None,
                    'aborted': note or 'reference-run-incomplete:%r' % (
                        [r for r in log if 'harness_error' in r][:1],)}
        n_ops = done[0]['mutating_ops']
        counters['reference_ops'] = n_ops
        hh = hashlib.sha1(repr(history).encode()).hexdigest()[:10]
        if spec.get('chunk', 0) == 0:
            # the clean stop is a crash point too
            model = crash.Model()
            model.apply_log(log)
            assert dump is not None
            crash.judge(model, dump, report_for('clean-stop', log), counters)
            counters['clean_stops'] = 1
            counters['acked_commands'] = model.acked
        kinds = done[0].get('kinds', [])
        # crash points: ('b', k) = right before the k-th mutating operation;
        # ('a', k) = after an open-for-writing (or a rename/link, which may
        # put a still unflushed file in place) has executed but before the
        # data written through an open file is flushed
        allp = [('b', k) for k in range(n_ops)] + \
            [('a', k) for k, kd in enumerate(kinds)
             if kd in ('open:w', 'os.rename', 'os.replace', 'os.link')]
        points = [tuple(p) for p in spec['points']] if spec.get('points') \
            else [p for n, p in enumerate(allp)
                  if n % spec['nchunks'] == spec['chunk']]
        aborted = None
        for fam, k in points:
            st, log, dump, note = run_point(
                history, layout, where, k if fam == 'b' else None,
                kill_after=k if fam == 'a' else None)
            if fam == 'a':
                counters['after_open_points'] = \
                    counters.get('after_open_points', 0) + 1
            if note:
                aborted = note
                continue
            if st != 77:
                # the trace was shorter this time (timing-dependent names):
                # still a valid clean stop
                counters['points_not_reached'] = \
                    counters.get('points_not_reached', 0) + 1
            counters['crash_points_run'] = \
                counters.get('crash_points_run', 0) + 1
            model = crash.Model()
            model.apply_log(log)
            if model.inflight is not None:
                counters['inflight_at_crash'] = \
                    counters.get('inflight_at_crash', 0) + 1
            assert dump is not None
            crash.judge(model, dump, report_for(fam + str(k), log), counters)
        seen: set[str] = set()
        uniq = []
        for v in violations:
            if v['mech'] not in seen:
                seen.add(v['mech'])
                uniq.append(v)
        return {'violations': uniq, 'counters': counters,
                'sig': '%s:%s:%s:%d' % (hh, layout, where,
                                        spec.get('chunk', 0)),
                'nontrivial': counters.get('crash_points_run', 0) +
                counters.get('clean_stops', 0) > 0,
                'sample': {'history': history, 'layout': layout,
                           'where': where, 'mutating_ops': n_ops,
                           'points': points[:10]},
                'aborted': aborted}


CHECK = C15()
