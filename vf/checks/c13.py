"""C13 -- SEARCH returns exactly the matching messages.

Deciding monitor: an evaluator of RFC 3501 section 6.4.4 search programs that
is independent of ``pymap.search`` and that works on a *dump of the same view*:
the session under test issues ``UID FETCH 1:* (UID FLAGS INTERNALDATE
RFC822.SIZE EMAILID THREADID BODY.PEEK[])`` and then its searches; every
``SEARCH p`` result (sequence numbers, mapped through the view) must be exactly
the evaluator's UID set and must equal the result of ``UID SEARCH p``.
Metamorphic relations are checked on the server alone.

What the evaluator takes from where (never from what was appended):

* flags (incl. ``\\Recent`` as told to *this* session) from FLAGS;
* BEFORE/ON/SINCE from the date part of the INTERNALDATE string the server
  itself reports, SENT* from the date part of the ``Date:`` header as written
  ("disregarding time and timezone"); no Date header => no SENT* key matches;
* LARGER/SMALLER from RFC822.SIZE as reported;
* HEADER: field-name case-insensitive, value = case-insensitive substring of
  the unfolded header text, "" matches every message that has the field;
  FROM/TO/CC/BCC/SUBJECT = substring of that header; BODY = substring of the
  text after the blank line; TEXT = header or body;
* a bare sequence set denotes message sequence numbers in SEARCH *and* in
  UID SEARCH; only ``UID <set>`` denotes UIDs; ``*`` = highest number in the
  view; ranges are unordered pairs;
* EMAILID / THREADID (RFC 8474) = equality with the FETCH attribute.

Strings are unique tokens over the alphabet ``qxzjkvw`` placed header-only /
body-only / both / nowhere; no other text of a generated message contains
three consecutive letters of that alphabet, so every reasonable reading of
"contains" (raw header, decoded header, envelope field) agrees.  Search
strings are whole tokens, slices of tokens, two adjacent tokens (never across
a folded line) in any letter case, and tokens that occur nowhere.  The only
non-token strings are used with ``HEADER Date``: "", weekday names (written in
some generated Date headers, left out in others) and years.

Mechanism ids (all computed from the witness by shrinking, in the same
session): when a program's result is not an allowed outcome every sub-program
is re-issued alone, innermost first, and the smallest ones that are wrong on
their own are named -- ``search-wrong-result:<KEY>`` for a leaf key,
``:OR`` / ``:NOT`` / ``:conjunction`` for a combinator whose operands are all
right, ``:spelling:charset|keycase`` if only the spelling matters; a
structural refinement is appended where one is evident from the witness
(``BODY:matches-header-text``: every surplus message has the string in its
header only; ``HEADER:matches-rerendered-date``: the string is the weekday of
the date but is not written in the header; ``@hidden-view``: otherwise
unexplained and observed while expunged messages were hidden).
``search-seq-vs-uid-differ:<KEY>`` names the smallest sub-program for which
SEARCH and UID SEARCH disagree (``:ALL`` = the numbering itself;
``SEQSET:bare-set-read-as-uids`` = UID SEARCH returned exactly what the set
selects when read as UIDs).  ``search-rejected:<shape>`` = smallest legal
sub-program answered NO/BAD.  ``search-metamorphic:<relation>``.
``search-result-out-of-view`` = a number that is not in the session's view.

Latitude (each use is counted in the evidence):

* ``hidden-expunged``: after another session has expunged messages the session
  under test has not been told about (it issues only non-UID SEARCH meanwhile)
  results must use valid numbers of the *old* view and must be exact on the
  still existing messages; hidden messages may or may not be reported.  If the
  highest UID of the view is hidden, ``*`` in a UID set may denote either the
  old or the remaining highest UID.
* ``seq-out-of-range``: a sequence number larger than the view (not ``*``) may
  be answered BAD (RFC 3501 section 9, seq-number) or simply match nothing.
* a missing untagged SEARCH line on OK is read as the empty result.
* keywords: the evaluator believes the FLAGS the server reports (dict keeps
  keywords given to APPEND although PERMANENTFLAGS does not offer them,
  maildir drops them); keyword arguments are always spelled exactly as stored.
"""

from __future__ import annotations

import datetime as _dt
import hashlib
import random
import re
from typing import Any, Iterable

from .. import loop as L
from .. import net, seqset
from ..net import Sched
from ..runner import Check
from ..servers import make_env
from ..shadow import install_glass, norm_flags
from ..workload import History, Session

# --------------------------------------------------------------------------
# vocabulary

K_NOARG = ['ALL', 'ANSWERED', 'DELETED', 'DRAFT', 'FLAGGED', 'NEW', 'OLD',
           'RECENT', 'SEEN', 'UNANSWERED', 'UNDELETED', 'UNDRAFT',
           'UNFLAGGED', 'UNSEEN']
K_STR = ['BCC', 'BODY', 'CC', 'FROM', 'SUBJECT', 'TEXT', 'TO']
K_DATE = ['BEFORE', 'ON', 'SINCE', 'SENTBEFORE', 'SENTON', 'SENTSINCE']
K_SIZE = ['LARGER', 'SMALLER']
K_KW = ['KEYWORD', 'UNKEYWORD']
K_OID = ['EMAILID', 'THREADID']
K_OTHER = ['HEADER', 'UID', 'SEQSET', 'NOT', 'OR', 'LIST']
ALL_KEYS = K_NOARG + K_STR + K_DATE + K_SIZE + K_KW + K_OID + K_OTHER

_FLAG_OF = {'ANSWERED': (b'\\answered', True), 'UNANSWERED': (b'\\answered',
                                                              False),
            'DELETED': (b'\\deleted', True), 'UNDELETED': (b'\\deleted',
                                                           False),
            'DRAFT': (b'\\draft', True), 'UNDRAFT': (b'\\draft', False),
            'FLAGGED': (b'\\flagged', True), 'UNFLAGGED': (b'\\flagged',
                                                           False),
            'SEEN': (b'\\seen', True), 'UNSEEN': (b'\\seen', False),
            'RECENT': (b'\\recent', True), 'OLD': (b'\\recent', False)}

MONTHS = ['Jan', 'Feb', 'Mar', 'Apr', 'May', 'Jun', 'Jul', 'Aug', 'Sep',
          'Oct', 'Nov', 'Dec']
DOW = ['Mon', 'Tue', 'Wed', 'Thu', 'Fri', 'Sat', 'Sun']
TOK_ALPHA = 'qxzjkvw'
KEYWORDS = ['kwAlpha', '$Fwd', 'kwBeta']
SYS_FLAGS = ['\\Seen', '\\Answered', '\\Flagged', '\\Draft', '\\Deleted']
ZONES = ['+0000', '+0200', '-0500', '+1300', '-1100', '+0530']
TIMES = ['00:30:00', '23:30:00', '12:00:00', '00:00:00', '23:59:59']
BASE_DAYS = [(2023, 12, 31), (2024, 2, 28), (2024, 2, 29), (2024, 6, 30),
             (2021, 1, 1), (2019, 10, 31), (2024, 12, 31)]
HDR_FIELDS = ['From', 'To', 'Cc', 'Bcc', 'Subject', 'X-VF-Tok', 'Date',
              'X-VF-None']
_FIELD_OF_KEY = {'FROM': 'from', 'TO': 'to', 'CC': 'cc', 'BCC': 'bcc',
                 'SUBJECT': 'subject'}

_idate_re = re.compile(rb'\A\s*(\d{1,2})-([A-Za-z]{3})-(\d{4})\s')
_sent_re = re.compile(r'\A\s*(?:[A-Za-z]{3}\s*,\s*)?(\d{1,2})\s+([A-Za-z]{3})'
                      r'\s+(\d{4})\s')
_tokrun_re = re.compile('[%s]{3}' % TOK_ALPHA, re.I)
_tok_re = re.compile('[%s]{7}' % TOK_ALPHA, re.I)
_pair_re = re.compile('(?=([%s]{7} [%s]{7})(?![%s]))' % (
    (TOK_ALPHA,) * 3), re.I)


def _month(name: str) -> int:
    return [m.lower() for m in MONTHS].index(name.lower()) + 1


def _day_add(d: tuple[int, int, int], k: int) -> tuple[int, int, int]:
    x = _dt.date(*d) + _dt.timedelta(days=k)
    return (x.year, x.month, x.day)


# --------------------------------------------------------------------------
# mailbox generation (parent-independent; everything from the case rng)

def _case(rng: random.Random, tok: str) -> str:
    r = rng.random()
    if r < 0.5:
        return tok
    if r < 0.75:
        return tok.upper()
    return tok.capitalize()


def gen_pool(rng: random.Random, n: int = 8) -> tuple[list[str], list[str]]:
    seen: set[str] = set()
    while len(seen) < n + 3:
        seen.add(''.join(rng.choice(TOK_ALPHA) for _ in range(7)))
    toks = sorted(seen)
    rng.shuffle(toks)
    return toks[:n], toks[n:]


def _addr(rng: random.Random, pool: list[str], k: int) -> str:
    """One address; tokens may sit in the display name, the local part or a
    domain label."""
    r = rng.random()
    local = _case(rng, rng.choice(pool)) if rng.random() < 0.4 else \
        'user%d' % k
    dom = (rng.choice(pool) + '.example') if rng.random() < 0.25 else \
        'host%d.example' % k
    if r < 0.25:
        return '%s@%s' % (local, dom)
    if r < 0.35:
        return '<%s@%s>' % (local, dom)
    names = [_case(rng, rng.choice(pool))
             for _ in range(rng.choice([1, 1, 2]))]
    return '%s <%s@%s>' % (' '.join(names), local, dom)


def _addr_field(rng: random.Random, pool: list[str]) -> str:
    return ', '.join(_addr(rng, pool, k + 1)
                     for k in range(rng.choice([1, 1, 2])))


def fmt_sent(day: tuple[int, int, int], time: str, zone: str,
             style: int) -> str:
    y, m, d = day
    dow = DOW[_dt.date(y, m, d).weekday()]
    core = '%s %s %d %s %s' % (('%02d' % d) if style & 1 else ('%d' % d),
                               MONTHS[m - 1], y, time, zone)
    return (dow + ', ' + core) if style & 2 else core


def fmt_idate(day: tuple[int, int, int], time: str, zone: str,
              pad: bool) -> str:
    y, m, d = day
    return '%s-%s-%d %s %s' % (('%2d' % d) if pad else ('%02d' % d),
                               MONTHS[m - 1], y, time, zone)


_META_CHARS = '()[]+*?^$|'
_meta_word_re = re.compile(r'[A-Za-z0-9()\[\]+*?^$|.@_-]+')


def _meta(rng: random.Random, pool: list[str]) -> str:
    """A word in which whole tokens stand next to characters that mean
    something to a regular-expression engine and nothing to IMAP: a search
    string is a substring, so "(tok)" is found only where the parentheses
    are, "tok+" only before a plus sign, "$tok" wherever it is written."""
    t = _case(rng, rng.choice(pool))
    u = _case(rng, rng.choice(pool))
    return rng.choice([
        '(%s)' % t, '%s+' % t, '%s?' % t, '%s*' % t, '[%s]' % t,
        '%s.%s' % (t, u), '^%s' % t, '%s$' % t, '$%s' % t,
        '%s|%s' % (t, u), '%s.' % t, '(%s' % t, '%s)' % t, '[%s' % t,
        '%s+%s' % (t, u)])


def gen_message(rng: random.Random, pool: list[str], base: tuple[int, int,
                                                                  int],
                cid: str, backend: str) -> dict[str, Any]:
    hdr: list[str] = []
    hdr.append('From: ' + _addr_field(rng, pool))
    if rng.random() < 0.8:
        hdr.append('To: ' + _addr_field(rng, pool))
    if rng.random() < 0.5:
        hdr.append('Cc: ' + _addr_field(rng, pool))
    if rng.random() < 0.3:
        hdr.append('Bcc: ' + _addr_field(rng, pool))
    if rng.random() < 0.9:
        words = [_case(rng, rng.choice(pool))
                 for _ in range(rng.choice([1, 2, 2, 3]))]
        if rng.random() < 0.25:
            words[rng.randrange(len(words))] = _meta(rng, pool)
        if len(words) > 1 and rng.random() < 0.3:
            k = rng.randint(1, len(words) - 1)
            subj = ' '.join(words[:k]) + '\r\n ' + ' '.join(words[k:])
        else:
            subj = ' '.join(words)
        hdr.append('Subject: ' + subj)
    sent = None
    if rng.random() < 0.8:
        sent = _day_add(base, rng.choice([-1, 0, 0, 1, 1, 2]))
        hdr.append('Date: ' + fmt_sent(sent, rng.choice(TIMES),
                                       rng.choice(ZONES), rng.randint(0, 3)))
    for _ in range(rng.choice([0, 1, 1, 1, 2])):
        words = [_case(rng, rng.choice(pool))
                 for _ in range(rng.choice([1, 1, 2]))]
        if rng.random() < 0.25:
            words[rng.randrange(len(words))] = _meta(rng, pool)
        hdr.append(rng.choice(['X-VF-Tok', 'X-VF-Tok', 'x-vf-tok']) + ': ' +
                   ' '.join(words))
    hdr.append('X-VF-ID: ' + cid)
    if rng.random() < 0.3:
        hdr.append('MIME-Version: 1.0')
        hdr.append('Content-Type: text/plain; charset=us-ascii')
    rng.shuffle(hdr)
    lines: list[str] = []
    for _ in range(rng.choice([0, 1, 1, 2, 3])):
        words = ['1%d' % rng.randint(0, 99) for _ in range(rng.randint(0, 3))]
        for _ in range(rng.choice([1, 1, 2])):
            words.insert(rng.randint(0, len(words)),
                         _case(rng, rng.choice(pool)))
        if rng.random() < 0.12:
            words.insert(rng.randint(0, len(words)), _meta(rng, pool))
        lines.append(' '.join(words))
    target = rng.choice([0, 0, 200, 500, 1200, 2500])
    if target:
        target += rng.randint(0, 60)
    size = sum(len(x) + 2 for x in hdr) + 2 + sum(len(x) + 2 for x in lines)
    while size < target:
        n = min(70, max(1, target - size - 2))
        pad = ''.join(rng.choice('0123456789 .') for _ in range(n)).strip() \
            or '0'
        lines.insert(rng.randint(0, len(lines)), pad)
        size += len(pad) + 2
    if not lines:
        lines.append('0')
    raw = ('\r\n'.join(hdr) + '\r\n\r\n' + '\r\n'.join(lines) +
           '\r\n').encode('ascii')
    flags = [f for f in SYS_FLAGS if rng.random() < (
        0.25 if f == '\\Deleted' else 0.4)]
    flags += [k for k in KEYWORDS if rng.random() < 0.25]
    idate = None
    if rng.random() < 0.85:
        idate = fmt_idate(_day_add(base, rng.choice([-1, 0, 0, 1, 1, 2])),
                          rng.choice(TIMES), rng.choice(ZONES),
                          rng.random() < 0.3)
    return {'raw': raw, 'flags': flags, 'idate': idate, 'cid': cid}


def skeleton_ok(raw: bytes, pool: list[str]) -> bool:
    """No text outside the tokens has three consecutive token letters."""
    txt = raw.decode('ascii')
    txt = _tok_re.sub('#', txt)
    return _tokrun_re.search(txt) is None


# --------------------------------------------------------------------------
# the view as dumped by the server

def parse_message(raw: bytes) -> tuple[list[tuple[str, str]], str, str, str]:
    """-> ([(lower field name, unfolded lower value)], lower unfolded header
    text, lower body, lower header text as written).  Accepts CRLF and bare
    LF (maildir rewrites line ends)."""
    txt = raw.decode('latin-1')
    m = re.search(r'\r?\n\r?\n', txt)
    if m:
        head, body = txt[:m.start()], txt[m.end():]
    else:
        head, body = txt, ''
    head_raw = head.lower()
    head = re.sub(r'\r?\n([ \t])', r'\1', head)
    fields: list[tuple[str, str]] = []
    for line in re.split(r'\r?\n', head):
        name, sep, val = line.partition(':')
        if sep:
            fields.append((name.strip().lower(), val.strip().lower()))
    return fields, head.lower(), body.lower(), head_raw


class Msg:
    __slots__ = ('seq', 'uid', 'flags', 'idate', 'sent', 'size', 'fields',
                 'head', 'body', 'emailid', 'threadid', 'rawflags', 'has_date',
                 'head_raw')

    def __init__(self, seq: int, att: dict[bytes, Any]) -> None:
        self.seq = seq
        self.uid: int = att[b'UID']
        self.rawflags = [f.decode('latin-1') for f in att[b'FLAGS']]
        self.flags = norm_flags(att[b'FLAGS'])
        m = _idate_re.match(att[b'INTERNALDATE'])
        if not m:
            raise ValueError('internaldate %r' % att[b'INTERNALDATE'])
        self.idate = (int(m.group(3)), _month(m.group(2).decode()),
                      int(m.group(1)))
        self.size: int = att[b'RFC822.SIZE']
        self.fields, self.head, self.body, self.head_raw = \
            parse_message(att[b'BODY[]'])
        self.sent: tuple[int, int, int] | None = None
        self.has_date = False
        for name, val in self.fields:
            if name == 'date':
                self.has_date = True
                sm = _sent_re.match(val + ' ')
                if sm:
                    self.sent = (int(sm.group(3)), _month(sm.group(2)),
                                 int(sm.group(1)))
                break
        e = att.get(b'EMAILID')
        t = att.get(b'THREADID')
        self.emailid = e.decode('latin-1') if isinstance(e, bytes) else None
        self.threadid = t.decode('latin-1') if isinstance(t, bytes) else None

    def field_text(self, name: str) -> list[str]:
        return [v for n, v in self.fields if n == name]


DUMP_ATTRS = (b'(UID FLAGS INTERNALDATE RFC822.SIZE EMAILID THREADID '
              b'BODY.PEEK[])')


# --------------------------------------------------------------------------
# programs: JSON-able ASTs
#
#   ['K', NAME]                         no-argument key
#   ['KW', NAME, flag]                  KEYWORD / UNKEYWORD
#   ['DATE', NAME, [y, m, d], style]    style bit0: 2-digit day, bit1: quoted,
#                                       bits 2-3: month case
#   ['SIZE', NAME, n]
#   ['STR', NAME, needle, form]         form: atom | quoted | lit+ | lit
#   ['HDR', field, needle, form, form]
#   ['SEQ', set] / ['UID', set]
#   ['OID', NAME, id]
#   ['NOT', p] / ['OR', p, q] / ['AND', [p, ...]]   (AND = parenthesised list)
#
# a program is {'keys': [node, ...], 'charset': None|str, 'kcase': 0|1|2}

def node_kind(node: list[Any]) -> str:
    t = node[0]
    if t in ('K', 'KW', 'DATE', 'SIZE', 'STR', 'OID'):
        return node[1]
    if t == 'HDR':
        return 'HEADER'
    if t == 'SEQ':
        return 'SEQSET'
    if t == 'UID':
        return 'UID'
    if t == 'AND':
        return 'LIST'
    return t


def children(node: list[Any]) -> list[list[Any]]:
    t = node[0]
    if t == 'NOT':
        return [node[1]]
    if t == 'OR':
        return [node[1], node[2]]
    if t == 'AND':
        return list(node[1])
    return []


def walk(node: list[Any]) -> Iterable[list[Any]]:
    yield node
    for c in children(node):
        yield from walk(c)


def depth(node: list[Any]) -> int:
    return 1 + max([depth(c) for c in children(node)] or [0])


def shape(node: list[Any]) -> str:
    t = node[0]
    if t == 'NOT':
        return 'NOT(%s)' % shape(node[1])
    if t == 'OR':
        return 'OR(%s,%s)' % (shape(node[1]), shape(node[2]))
    if t == 'AND':
        return '(%s)' % ' '.join(shape(c) for c in node[1])
    if t in ('STR',):
        return '%s/%s' % (node[1], node[3])
    if t == 'HDR':
        return 'HEADER/%s/%s' % (node[1].lower(), 'empty' if not node[2]
                                 else node[4])
    if t == 'SEQ' or t == 'UID':
        s = re.sub(r'\d+', 'n', node[1])
        return '%s[%s]' % (node_kind(node), s)
    return node_kind(node)


def _kc(word: str, kcase: int) -> bytes:
    if kcase == 1:
        word = word.lower()
    elif kcase == 2:
        word = word.capitalize()
    return word.encode('ascii')


SYNC = object()     # marker: the next part is a synchronising literal


def _astring(val: str, form: str, out: list[Any]) -> None:
    data = val.encode('ascii')
    if form == 'atom' and data and data.upper() != b'NIL' and \
            re.fullmatch(rb'[A-Za-z0-9$@._-]+', data):
        out.append(data)
    elif form == 'lit+':
        out.append(b'{%d+}\r\n' % len(data) + data)
    elif form == 'lit':
        out.append(b'{%d}\r\n' % len(data))
        out.append(SYNC)
        out.append(data)
    else:
        out.append(net.quote(data))


def _date_arg(day: list[int], style: int) -> bytes:
    y, m, d = day
    mon = MONTHS[m - 1]
    mc = (style >> 2) & 3
    if mc == 1:
        mon = mon.upper()
    elif mc == 2:
        mon = mon.lower()
    s = '%s-%s-%04d' % (('%02d' % d) if style & 1 else ('%d' % d), mon, y)
    if style & 2:
        s = '"' + s + '"'
    return s.encode('ascii')


def ser_node(node: list[Any], kcase: int, out: list[Any]) -> None:
    t = node[0]
    sp = b' '
    if t == 'K':
        out.append(_kc(node[1], kcase))
    elif t == 'KW':
        out.append(_kc(node[1], kcase) + sp + node[2].encode('ascii'))
    elif t == 'DATE':
        out.append(_kc(node[1], kcase) + sp + _date_arg(node[2], node[3]))
    elif t == 'SIZE':
        out.append(_kc(node[1], kcase) + sp + b'%d' % node[2])
    elif t == 'STR':
        out.append(_kc(node[1], kcase) + sp)
        _astring(node[2], node[3], out)
    elif t == 'HDR':
        out.append(_kc('HEADER', kcase) + sp)
        _astring(node[1], node[3], out)
        out.append(sp)
        _astring(node[2], node[4], out)
    elif t == 'SEQ':
        out.append(node[1].encode('ascii'))
    elif t == 'UID':
        out.append(_kc('UID', kcase) + sp + node[1].encode('ascii'))
    elif t == 'OID':
        out.append(_kc(node[1], kcase) + sp + node[2].encode('ascii'))
    elif t == 'NOT':
        out.append(_kc('NOT', kcase) + sp)
        ser_node(node[1], kcase, out)
    elif t == 'OR':
        out.append(_kc('OR', kcase) + sp)
        ser_node(node[1], kcase, out)
        out.append(sp)
        ser_node(node[2], kcase, out)
    elif t == 'AND':
        out.append(b'(')
        for i, c in enumerate(node[1]):
            if i:
                out.append(sp)
            ser_node(c, kcase, out)
        out.append(b')')
    else:   # pragma: no cover
        raise ValueError(t)


def ser_program(prog: dict[str, Any], uid: bool) -> tuple[bytes, list[bytes]]:
    """-> (rest, sync segments) for Session.cmd."""
    kcase = prog.get('kcase', 0)
    out: list[Any] = [(b'UID ' if uid else b'') + b'SEARCH']
    if prog.get('charset'):
        out.append(b' ' + _kc('CHARSET', kcase) + b' ' +
                   prog['charset'].encode('ascii'))
    for k in prog['keys']:
        out.append(b' ')
        ser_node(k, kcase, out)
    segs: list[bytes] = [b'']
    for part in out:
        if part is SYNC:
            segs.append(b'')
        else:
            segs[-1] += part
    if len(segs) == 1:
        return segs[0], []
    return segs[0], [s + (b'\r\n' if i == len(segs) - 2 else b'')
                     for i, s in enumerate(segs[1:])]


def show(prog: dict[str, Any], uid: bool = False) -> str:
    rest, sync = ser_program(prog, uid)
    return (rest + b''.join(sync)).decode('latin-1').rstrip('\r\n')


# --------------------------------------------------------------------------
# the evaluator (RFC 3501 section 6.4.4; RFC 8474 section 5.1 for object ids)

class View:
    def __init__(self, msgs: list[Msg]) -> None:
        self.msgs = msgs
        self.count = len(msgs)
        self.uids = [m.uid for m in msgs]
        self.maxuid = max(self.uids) if self.uids else 0
        self.hidden: set[int] = set()     # UIDs expunged behind our back

    def visible(self) -> set[int]:
        return set(self.uids) - self.hidden


def ev(node: list[Any], m: Msg, count: int, maxuid: int) -> bool:
    t = node[0]
    if t == 'K':
        k = node[1]
        if k == 'ALL':
            return True
        if k == 'NEW':
            return b'\\recent' in m.flags and b'\\seen' not in m.flags
        flag, want = _FLAG_OF[k]
        return (flag in m.flags) == want
    if t == 'KW':
        has = node[2] in m.rawflags
        return has == (node[1] == 'KEYWORD')
    if t == 'DATE':
        k = node[1]
        d = tuple(node[2])
        have = m.sent if k.startswith('SENT') else m.idate
        if have is None:
            return False
        k = k[4:] if k.startswith('SENT') else k
        if k == 'BEFORE':
            return have < d
        if k == 'ON':
            return have == d
        return have >= d
    if t == 'SIZE':
        return m.size > node[2] if node[1] == 'LARGER' else m.size < node[2]
    if t == 'STR':
        k = node[1]
        needle = node[2].lower()
        if k == 'BODY':
            return needle in m.body
        if k == 'TEXT':
            return needle in m.head or needle in m.body
        return any(needle in v for v in m.field_text(_FIELD_OF_KEY[k]))
    if t == 'HDR':
        vals = m.field_text(node[1].lower())
        needle = node[2].lower()
        return any(needle in v for v in vals)
    if t == 'SEQ':
        return seqset.contains(seqset.parse(node[1].encode()), m.seq, count)
    if t == 'UID':
        return seqset.contains(seqset.parse(node[1].encode()), m.uid, maxuid)
    if t == 'OID':
        oid = m.emailid if node[1] == 'EMAILID' else m.threadid
        return oid is not None and oid == node[2]
    if t == 'NOT':
        return not ev(node[1], m, count, maxuid)
    if t == 'OR':
        return ev(node[1], m, count, maxuid) or ev(node[2], m, count, maxuid)
    if t == 'AND':
        return all(ev(c, m, count, maxuid) for c in node[1])
    raise ValueError(t)


def expected(prog: dict[str, Any], view: View, maxuid: int | None = None) \
        -> set[int]:
    mu = view.maxuid if maxuid is None else maxuid
    return {m.uid for m in view.msgs
            if all(ev(k, m, view.count, mu) for k in prog['keys'])}


def seq_out_of_range(prog: dict[str, Any], count: int) -> bool:
    for k in prog['keys']:
        for n in walk(k):
            if n[0] == 'SEQ':
                for a, b in seqset.parse(n[1].encode()):
                    if (a or 0) > count or (b or 0) > count:
                        return True
    return False


def uses_uid_star(prog: dict[str, Any]) -> bool:
    return any(n[0] == 'UID' and '*' in n[1]
               for k in prog['keys'] for n in walk(k))


# --------------------------------------------------------------------------
# program generation (arguments drawn from the dumped view)

class Gen:
    def __init__(self, rng: random.Random, view: View, pool: list[str],
                 absent: list[str]) -> None:
        self.rng = rng
        # twins draw from a generator of their own: programs of existing
        # seeds keep all their other choices
        self.rng_twin = random.Random(
            hash((tuple(pool), len(view.msgs))) & 0xffffffff)
        self.view = view
        self.pool = pool
        self.absent = absent
        self.weights: list[tuple[str, float]] = []
        for k in K_NOARG:
            self.weights.append((k, 1.0))
        for k in K_STR:
            self.weights.append((k, 2.2))
        for k in K_DATE:
            self.weights.append((k, 1.6))
        for k in K_SIZE:
            self.weights.append((k, 1.6))
        for k in K_KW:
            self.weights.append((k, 1.2))
        for k in K_OID:
            self.weights.append((k, 1.0))
        self.weights += [('HEADER', 4.0), ('UID', 3.5), ('SEQSET', 3.5)]

    # -- arguments ------------------------------------------------------------

    def _form(self) -> str:
        return self.rng.choices(['atom', 'quoted', 'lit+', 'lit'],
                                [3, 4, 2, 0.6])[0]

    def _tokens_in(self, text: str) -> list[str]:
        return [t for t in self.pool if t in text]

    def _needle(self, texts_of: Any) -> str:
        """A search string: mostly a token (or a slice of one, or two adjacent
        ones) taken from the relevant text of some message of the view."""
        rng = self.rng
        r = rng.random()
        if rng.random() < 0.12 and self.view.msgs:
            # a word with characters special to regular expressions, as some
            # message of the view writes it (a search string is a substring)
            metas = [w for x in self.view.msgs for t in texts_of(x)
                     for w in _meta_word_re.findall(t)
                     if any(c in w for c in _META_CHARS)
                     and any(p in w for p in self.pool)]
            if metas:
                return _case(rng, rng.choice(metas))
            return _meta(rng, self.pool + self.absent)
        if r < 0.15 or not self.view.msgs:
            tok = rng.choice(self.absent)
            return _case(rng, tok)
        m = rng.choice(self.view.msgs)
        own = ' \n '.join(texts_of(m))
        if r < 0.62:
            cands = self._tokens_in(own)
        elif r < 0.74:
            # two adjacent words; never across a folded line (whether
            # "contains" sees the fold is not pinned down)
            pairs = [p for p in _pair_re.findall(own)
                     if all((p in x.head) == (p in x.head_raw)
                            for x in self.view.msgs)]
            if pairs:
                p = rng.choice(pairs)
                if rng.random() < 0.25:
                    # the same words the other way round (usually nowhere)
                    a, b = p.split(' ')
                    q = b + ' ' + a
                    if all((q in x.head) == (q in x.head_raw)
                           for x in self.view.msgs):
                        p = q
                return _case(rng, p)
            cands = self._tokens_in(own)
        else:
            # a token of this message that is somewhere else in it
            cands = self._tokens_in(m.head + '\n' + m.body)
        if not cands:
            cands = self.pool
        tok = rng.choice(cands)
        q = rng.random()
        if q < 0.2:
            a = rng.randint(0, 3)
            tok = tok[a:a + rng.randint(4, 7 - a)]
        return _case(rng, tok)

    def _date(self, sent: bool) -> list[int]:
        rng = self.rng
        days = [d for d in ((m.sent if sent else m.idate)
                            for m in self.view.msgs) if d is not None]
        if not days or rng.random() < 0.08:
            return list(rng.choice([(1990, 1, 1), (2040, 12, 31),
                                    (2024, 2, 29)]))
        return list(_day_add(rng.choice(days), rng.choice([-1, 0, 0, 0, 1])))

    def _set(self, nums: list[int], uid: bool) -> str:
        """A sequence set over ``nums`` (the numbers in use)."""
        rng = self.rng
        top = nums[-1] if nums else 1

        def one() -> str:
            r = rng.random()
            pick = lambda: rng.choice(nums) if nums else 1  # noqa: E731
            if r < 0.3:
                return '%d' % pick()
            if r < 0.6:
                return '%d:%d' % (pick(), pick())
            if r < 0.72:
                return '%d:*' % pick()
            if r < 0.78:
                return '*:%d' % pick()
            if r < 0.84:
                return '*'
            if uid:
                # numbers that are not UIDs of the view: gaps, below, beyond
                c = rng.choice([1, max(1, nums[0] - 1) if nums else 1,
                                top + 1, top + rng.randint(2, 50),
                                rng.randint(1, top + 3), 4294967295])
                if rng.random() < 0.5:
                    return '%d' % c
                return rng.choice(['%d:*' % c, '%d:%d' % (c, pick()),
                                   '%d:%d' % (pick(), c)])
            if rng.random() < 0.35:
                # beyond the view: BAD is allowed
                c = top + rng.randint(1, 3)
                return rng.choice(['%d' % c, '%d:%d' % (pick(), c)])
            return '%d:*' % (top + rng.randint(1, 3))
        return ','.join(one() for _ in range(rng.choice([1, 1, 1, 2, 3])))

    # -- nodes ----------------------------------------------------------------

    def leaf(self, name: str | None = None) -> list[Any]:
        rng = self.rng
        view = self.view
        if name is None:
            names = [k for k, _ in self.weights]
            name = rng.choices(names, [w for _, w in self.weights])[0]
        if name in K_NOARG:
            return ['K', name]
        if name in K_KW:
            kws = sorted({f for m in view.msgs for f in m.rawflags
                          if not f.startswith('\\')})
            cands = kws + KEYWORDS + ['kwNone']
            return ['KW', name, rng.choice(cands)]
        if name in K_DATE:
            return ['DATE', name, self._date(name.startswith('SENT')),
                    rng.randint(0, 15) % 12]
        if name in K_SIZE:
            sizes = [m.size for m in view.msgs] or [100]
            if rng.random() < 0.1:
                n = rng.choice([0, 1, 4294967295])
            else:
                n = max(0, rng.choice(sizes) + rng.choice([-1, 0, 0, 1]))
            return ['SIZE', name, n]
        if name in K_STR:
            if name == 'BODY':
                texts = lambda m: [m.body]                   # noqa: E731
            elif name == 'TEXT':
                texts = lambda m: [m.head, m.body]           # noqa: E731
            else:
                fld = _FIELD_OF_KEY[name]
                texts = lambda m: m.field_text(fld)          # noqa: E731
            return ['STR', name, self._needle(texts), self._form()]
        if name == 'HEADER':
            fld = rng.choice(HDR_FIELDS)
            key = fld.lower()
            if fld == 'Date':
                # the Date field carries no tokens: has-the-field, weekday
                # names (written in some Date headers, absent from others)
                # and years as written
                r = rng.random()
                years = ['%d' % m.sent[0] for m in view.msgs if m.sent]
                if r < 0.45:
                    needle = ''
                elif r < 0.85 or not years:
                    needle = _case(rng, rng.choice(DOW))
                else:
                    needle = rng.choice(years + ['1987'])
            elif rng.random() < 0.22:
                needle = ''
            else:
                needle = self._needle(lambda m: m.field_text(key))
            fld = rng.choice([fld, fld.upper(), fld.lower()])
            ff = rng.choice(['atom', 'atom', 'quoted', 'lit+'])
            fv = self._form()
            return ['HDR', fld, needle, ff, fv]
        if name == 'UID':
            return ['UID', self._set(view.uids, True)]
        if name == 'SEQSET':
            return ['SEQ', self._set(list(range(1, view.count + 1)), False)]
        if name in K_OID:
            ids = [(m.emailid if name == 'EMAILID' else m.threadid)
                   for m in view.msgs]
            ids = [i for i in ids if i]
            if ids and rng.random() < 0.75:
                return ['OID', name, rng.choice(ids)]
            return ['OID', name, ('M' if name == 'EMAILID' else 'T') +
                    'nosuch%d' % rng.randint(0, 9)]
        raise ValueError(name)

    def node(self, d: int) -> list[Any]:
        rng = self.rng
        if d <= 1 or rng.random() < 0.4:
            return self.leaf()
        r = rng.random()
        if r < 0.36:
            return ['NOT', self.node(d - 1)]
        if r < 0.72:
            return ['OR', self.node(d - 1), self.node(d - 1)]
        return ['AND', [self.node(d - 1)
                        for _ in range(rng.choice([1, 2, 2, 3]))]]

    _TWIN_NAME = {'BEFORE': 'SENTBEFORE', 'SENTBEFORE': 'BEFORE',
                  'ON': 'SENTON', 'SENTON': 'ON', 'SINCE': 'SENTSINCE',
                  'SENTSINCE': 'SINCE', 'LARGER': 'SMALLER',
                  'SMALLER': 'LARGER', 'KEYWORD': 'UNKEYWORD',
                  'UNKEYWORD': 'KEYWORD', 'FROM': 'TO', 'TO': 'CC',
                  'CC': 'FROM', 'SUBJECT': 'BODY', 'BODY': 'TEXT',
                  'TEXT': 'SUBJECT', 'BCC': 'FROM'}

    def twin(self, leaf: list[Any]) -> list[Any] | None:
        """A different key with the very same argument text (a sequence set
        and a UID set, BEFORE and SENTBEFORE the same day, ...): keys that an
        implementation may wrongly treat as one."""
        t = leaf[0]
        if t == 'SEQ':
            return ['UID', leaf[1]]
        if t == 'UID':
            return ['SEQ', leaf[1]]
        if t in ('DATE', 'SIZE', 'STR', 'KW') and leaf[1] in self._TWIN_NAME:
            return [t, self._TWIN_NAME[leaf[1]]] + list(leaf[2:])
        return None

    def program(self, maxdepth: int = 4, force: str | None = None) \
            -> dict[str, Any]:
        rng = self.rng
        nkeys = rng.choice([1, 1, 1, 2, 2, 3])
        d = rng.choice([1, 2, 2, 3, 3, 4])
        d = min(d, maxdepth if nkeys == 1 else maxdepth - 1)
        keys = [self.node(d) for _ in range(nkeys)]
        if force is None and self.rng_twin.random() < 0.12:
            leaves = [k for k in keys if self.twin(k) is not None]
            if not leaves:
                keys.append(self.leaf(self.rng_twin.choice(
                    ['SEQSET', 'UID', 'SEQSET', 'BEFORE', 'LARGER', 'FROM'])))
                leaves = keys[-1:]
            tw = self.twin(self.rng_twin.choice(leaves))
            if tw is not None:
                keys.insert(self.rng_twin.randrange(len(keys) + 1), tw)
        if force is not None:
            keys[rng.randrange(len(keys))] = self._wrap(self.leaf(force),
                                                        min(d, 3))
        cs = rng.choices([None, 'UTF-8', 'US-ASCII', 'utf-8'],
                         [8, 1, 1, 0.5])[0]
        kcase = rng.choices([0, 1, 2], [10, 1, 1])[0]
        return {'keys': keys, 'charset': cs, 'kcase': kcase}

    def _wrap(self, leaf: list[Any], d: int) -> list[Any]:
        rng = self.rng
        node = leaf
        for _ in range(rng.randint(0, max(0, d - 1))):
            r = rng.random()
            if r < 0.4:
                node = ['NOT', node]
            elif r < 0.7:
                other = self.leaf()
                node = ['OR', node, other] if rng.random() < 0.5 else \
                    ['OR', other, node]
            else:
                node = ['AND', [node, self.leaf()]]
        return node


RELATIONS = ['not-not', 'de-morgan', 'and-commute', 'paren', 'or-commute',
             'all']


def metamorphic_pair(gen: Gen, rel: str) -> tuple[dict[str, Any],
                                                  dict[str, Any]]:
    rng = gen.rng
    p = gen.node(rng.choice([1, 1, 2]))
    q = gen.node(rng.choice([1, 1, 2]))
    if rel == 'not-not':
        lhs, rhs = [p], [['NOT', ['NOT', p]]]
    elif rel == 'de-morgan':
        lhs = [['OR', p, q]]
        rhs = [['NOT', ['AND', [['NOT', p], ['NOT', q]]]]]
    elif rel == 'and-commute':
        if rng.random() < 0.5:
            lhs, rhs = [p, q], [q, p]
        else:
            lhs, rhs = [['AND', [p, q]]], [['AND', [q, p]]]
    elif rel == 'paren':
        if rng.random() < 0.5:
            lhs, rhs = [p], [['AND', [p]]]
        else:
            lhs, rhs = [p, q], [['AND', [p, q]]]
    elif rel == 'or-commute':
        lhs, rhs = [['OR', p, q]], [['OR', q, p]]
    elif rel == 'all':
        lhs = [p]
        rhs = [['K', 'ALL'], p] if rng.random() < 0.5 else [p, ['K', 'ALL']]
    else:   # pragma: no cover
        raise ValueError(rel)
    return ({'keys': lhs, 'charset': None, 'kcase': 0},
            {'keys': rhs, 'charset': None, 'kcase': 0})


# --------------------------------------------------------------------------
# running programs against the server

class Runner:
    def __init__(self, sess: Session, hist: History,
                 counters: dict[str, int]) -> None:
        self.s = sess
        self.hist = hist
        self.c = counters
        self.view = View([])
        self.cache: dict[tuple[bool, str], Any] = {}
        self.shapes: list[str] = []
        self.diag_budget = 10
        self.dead = False

    def count(self, k: str, n: int = 1) -> None:
        self.c[k] = self.c.get(k, 0) + n

    async def dump(self) -> bool:
        s = self.s
        r = await s.cmd(b'UID FETCH 1:* ' + DUMP_ATTRS)
        if not r.ok:
            self.hist.aborted = 'dump-failed'
            return False
        rows: dict[int, dict[bytes, Any]] = {}
        for u in r.untagged:
            if u.typ == b'FETCH' and isinstance(u.data, dict) and \
                    b'BODY[]' in u.data and u.num is not None:
                rows[u.num] = u.data
        n = s.shadow.count
        if sorted(rows) != list(range(1, n + 1)):
            self.hist.aborted = 'dump-incomplete'
            return False
        try:
            msgs = [Msg(k, rows[k]) for k in range(1, n + 1)]
        except (KeyError, ValueError, TypeError) as exc:
            self.hist.aborted = 'dump-unusable:%s' % type(exc).__name__
            return False
        if [m.uid for m in msgs] != list(s.shadow.uids):
            self.hist.aborted = 'dump-disagrees-with-shadow'
            return False
        self.view = View(msgs)
        self.cache = {}
        self.count('dumps')
        return True

    async def ask(self, prog: dict[str, Any], uid: bool) \
            -> tuple[str, set[int] | None, str]:
        """-> (cond, result as a UID set | None, wire text).  Numbering is
        validated against the view."""
        rest, sync = ser_program(prog, uid)
        wire = (rest + b''.join(sync)).decode('latin-1').rstrip('\r\n')
        key = (uid, wire)
        if key in self.cache:
            return self.cache[key]
        s = self.s
        r = await s.cmd(rest, sync=sync or None)
        self.count('search_commands')
        if sync:
            self.count('with_sync_literal')
        if b'+}' in rest:
            self.count('with_nonsync_literal')
        if r.closed or not s.alive or r.tagged is None:
            self.dead = True
            return ('DEAD', None, wire)
        cond = (r.cond or b'').decode('ascii')
        res: set[int] | None = None
        if r.ok:
            nums: list[int] = []
            lines = 0
            for u in r.untagged:
                if u.typ == b'SEARCH':
                    lines += 1
                    nums.extend(u.data or [])
            if lines == 0:
                self.count('latitude_no_search_line')
            view = self.view
            res = set()
            for k in nums:
                if uid:
                    if k not in view.uids:
                        self.hist.report(
                            'search-result-out-of-view',
                            '%s returned UID %d, view has %r' % (
                                wire, k, view.uids),
                            {'query': wire, 'got': nums, 'view': view.uids})
                        continue
                    res.add(k)
                else:
                    if not 1 <= k <= view.count:
                        self.hist.report(
                            'search-result-out-of-view',
                            '%s returned %d, view has %d messages' % (
                                wire, k, view.count),
                            {'query': wire, 'got': nums,
                             'count': view.count})
                        continue
                    res.add(view.uids[k - 1])
        out = (cond, res, wire)
        self.cache[key] = out
        return out

    def acceptable(self, prog: dict[str, Any], res: set[int]) \
            -> tuple[bool, set[int]]:
        """Is ``res`` an allowed outcome?  -> (ok, the expected set used)."""
        view = self.view
        exp = expected(prog, view)
        if not view.hidden:
            return res == exp, exp
        vis = view.visible()
        cands = [exp]
        if view.maxuid in view.hidden and uses_uid_star(prog) and vis:
            cands.append(expected(prog, view, max(vis)))
        for e in cands:
            if res & vis == e & vis:
                if res & view.hidden:
                    self.count('latitude_hidden_reported')
                if (e & view.hidden) - res:
                    self.count('latitude_hidden_omitted')
                if e is not exp:
                    self.count('latitude_hidden_uid_star')
                return True, e
        return False, exp

    def _explain(self, node_or_prog: Any, uids: Iterable[int]) \
            -> list[dict[str, Any]]:
        out = []
        for m in self.view.msgs:
            if m.uid in uids:
                out.append({'seq': m.seq, 'uid': m.uid, 'flags': m.rawflags,
                            'idate': m.idate, 'sent': m.sent, 'size': m.size,
                            'fields': m.fields[:12],
                            'body': m.body[:160]})
        return out[:4]

    # -- verdicts -------------------------------------------------------------

    async def judge(self, prog: dict[str, Any], uid: bool) \
            -> tuple[str, set[int] | None]:
        """Ask once and compare with the evaluator; diagnose on mismatch.
        -> (status, result) with status in ok | wrong | rejected | bad-allowed
        | dead."""
        cond, res, wire = await self.ask(prog, uid)
        if cond == 'DEAD':
            return 'dead', None
        view = self.view
        if res is None:
            if cond == 'BAD' and seq_out_of_range(prog, view.count):
                self.count('latitude_seq_out_of_range_bad')
                return 'bad-allowed', None
            await self.diagnose_reject(prog, uid, cond, wire)
            return 'rejected', None
        self.count('queries_compared')
        if view.hidden:
            self.count('hidden_view_queries')
        for k in prog['keys']:
            for n in walk(k):
                self.count('key_' + node_kind(n))
        if len(prog['keys']) > 1:
            self.count('conjunctions')
        if prog.get('charset'):
            self.count('with_charset')
        ok, exp = self.acceptable(prog, res)
        if res and res != set(view.uids):
            self.count('results_nonempty_nontotal')
        if ok:
            return 'ok', res
        await self.diagnose_wrong(prog, uid, res, exp, wire)
        return 'wrong', res

    def _single(self, node: list[Any]) -> dict[str, Any]:
        return {'keys': [node], 'charset': None, 'kcase': 0}

    async def _blame(self, node: list[Any], uid: bool) -> list[tuple[str,
                                                                     dict]]:
        """Names of the smallest sub-programs whose own result is not an
        allowed outcome (leaf keys first, else the combinator)."""
        prog = self._single(node)
        cond, res, wire = await self.ask(prog, uid)
        if cond == 'DEAD':
            return []
        if res is None:
            return []          # rejection is diagnosed separately
        ok, exp = self.acceptable(prog, res)
        if ok:
            return []
        found: list[tuple[str, dict]] = []
        for c in children(node):
            found += await self._blame(c, uid)
        if found:
            return found
        name = node_kind(node)
        if name == 'LIST':
            name = 'conjunction'
        qual = self._qualify(node, res, exp)
        if not qual and self.view.hidden:
            qual = '@hidden-view'
        return [(name + qual, {'query': wire, 'got': sorted(res),
                               'expected': sorted(exp),
                               'extra': self._explain(node, res - exp),
                               'missing': self._explain(node, exp - res)})]

    def _qualify(self, node: list[Any], res: set[int], exp: set[int]) -> str:
        """Structural refinement of the mechanism where one is evident."""
        view = self.view
        by_uid = {m.uid: m for m in view.msgs}
        vis = view.visible()
        extra, missing = (res - exp) & vis, (exp - res) & vis
        if node[0] == 'STR' and node[1] == 'BODY' and extra and not missing:
            needle = node[2].lower()
            if all(needle in by_uid[u].head for u in extra):
                return ':matches-header-text'
        if node[0] == 'HDR' and node[1].lower() == 'date' and extra \
                and not missing:
            needle = node[2].lower()
            sent = [by_uid[u].sent for u in extra]
            if needle in [d.lower() for d in DOW] and all(
                    d is not None and
                    DOW[_dt.date(*d).weekday()].lower() == needle
                    for d in sent):
                # not in the header text, but it is the weekday of the date
                return ':matches-rerendered-date'
        return ''

    async def diagnose_wrong(self, prog: dict[str, Any], uid: bool,
                             res: set[int], exp: set[int], wire: str) -> None:
        if self.diag_budget <= 0:
            self.count('undiagnosed_mismatches')
            return
        self.diag_budget -= 1
        found: list[tuple[str, dict]] = []
        for k in prog['keys']:
            found += await self._blame(k, uid)
        if not found:
            # every top-level key is right on its own
            found = [('conjunction' + ('@hidden-view' if self.view.hidden
                                       else ''), {})]
            if prog.get('charset') or prog.get('kcase'):
                plain = dict(prog, charset=None, kcase=0)
                c2, r2, _ = await self.ask(plain, uid)
                if r2 is not None and self.acceptable(plain, r2)[0]:
                    found = [('spelling:' + ('charset' if prog.get('charset')
                                             else 'keycase'), {})]
        seen: set[str] = set()
        for name, wit in found:
            if name in seen:
                continue
            seen.add(name)
            w = {'program': wire, 'got': sorted(res), 'expected': sorted(exp),
                 'view_uids': self.view.uids,
                 'hidden': sorted(self.view.hidden), 'uid_command': uid}
            w.update({'leaf_' + k: v for k, v in wit.items()})
            self.hist.report(
                'search-wrong-result:' + name,
                '%s -> UIDs %r, RFC 3501 evaluation of the dumped view gives '
                '%r (view %r%s); smallest wrong sub-program: %s' % (
                    wire, sorted(res), sorted(exp), self.view.uids,
                    (', of which %r are expunged but not yet announced and '
                     'may or may not be reported' % sorted(self.view.hidden))
                    if self.view.hidden else '',
                    wit.get('query', '(top-level conjunction)')), w)

    async def diagnose_reject(self, prog: dict[str, Any], uid: bool,
                              cond: str, wire: str) -> None:
        if self.diag_budget <= 0:
            self.count('undiagnosed_mismatches')
            return
        self.diag_budget -= 1

        async def rejected(node: list[Any]) -> bool:
            c, r, _ = await self.ask(self._single(node), uid)
            return c != 'DEAD' and r is None

        async def minimal(node: list[Any]) -> list[list[Any]]:
            if not await rejected(node):
                return []
            out: list[list[Any]] = []
            for ch in children(node):
                out += await minimal(ch)
            return out or [node]

        found: list[list[Any]] = []
        for k in prog['keys']:
            found += await minimal(k)
        names = set()
        for node in found:
            t = node[0]
            if t in ('NOT', 'OR', 'AND'):
                nm = '%s(%s)' % ('LIST' if t == 'AND' else t, ','.join(
                    node_kind(c) for c in children(node)))
            else:
                nm = shape(node)
            names.add((nm, show(self._single(node), uid)))
        if not names:
            what = 'charset' if prog.get('charset') else \
                'keycase' if prog.get('kcase') else 'conjunction'
            names.add((what, wire))
        for nm, q in sorted(names):
            self.hist.report(
                'search-rejected:' + nm,
                'legal search program answered %s: %s (smallest rejected '
                'part: %s)' % (cond, wire, q),
                {'program': wire, 'cond': cond, 'smallest': q})

    async def _blame_sequid(self, node: list[Any]) -> list[tuple[str, dict]]:
        prog = self._single(node)
        c1, r1, w1 = await self.ask(prog, False)
        c2, r2, w2 = await self.ask(prog, True)
        if r1 is None or r2 is None or r1 == r2:
            return []
        found: list[tuple[str, dict]] = []
        for c in children(node):
            found += await self._blame_sequid(c)
        if found:
            return found
        name = node_kind(node)
        if name == 'LIST':
            name = 'conjunction'
        qual = ''
        if node[0] == 'SEQ':
            try:
                as_uids = set(seqset.select_uids(node[1].encode(),
                                                 self.view.uids))
            except ValueError:
                as_uids = None
            if as_uids is not None and r2 == as_uids:
                qual = ':bare-set-read-as-uids'
        return [(name + qual, {'query_seq': w1, 'got_seq_as_uids': sorted(r1),
                               'query_uid': w2, 'got_uid': sorted(r2)})]

    async def compare_seq_uid(self, prog: dict[str, Any], r_seq: set[int],
                              r_uid: set[int], wire: str) -> None:
        self.count('seq_uid_comparisons')
        if r_seq == r_uid:
            return
        if self.diag_budget <= 0:
            self.count('undiagnosed_mismatches')
            return
        self.diag_budget -= 1
        # if even ALL differs the numbering itself is at fault, not a key
        found = await self._blame_sequid(['K', 'ALL'])
        if not found:
            for k in prog['keys']:
                found += await self._blame_sequid(k)
        if not found:
            found = [('conjunction', {})]
        seen: set[str] = set()
        for name, wit in found:
            if name in seen:
                continue
            seen.add(name)
            w = {'program': wire, 'search_as_uids': sorted(r_seq),
                 'uid_search': sorted(r_uid), 'view_uids': self.view.uids}
            w.update(wit)
            self.hist.report(
                'search-seq-vs-uid-differ:' + name,
                'SEARCH/UID SEARCH %s: sequence numbers map to UIDs %r but '
                'UID SEARCH returned %r (view %r); smallest differing '
                'sub-program: %s' % (wire, sorted(r_seq), sorted(r_uid),
                                     self.view.uids,
                                     wit.get('query_uid', '(conjunction)')),
                w)

    # -- program batches ------------------------------------------------------

    async def run_program(self, prog: dict[str, Any], both: bool) -> None:
        self.shapes.append(' '.join(shape(k) for k in prog['keys']))
        self.count('programs')
        st, r1 = await self.judge(prog, False)
        if st == 'dead' or self.dead:
            return
        if not both:
            return
        # the UID form is held against the SEARCH form (which was held
        # against the evaluator), so that a defect of UID SEARCH alone is not
        # blamed on the key as such
        cond2, r2, wire2 = await self.ask(prog, True)
        if cond2 == 'DEAD':
            return
        if r2 is None:
            if cond2 == 'BAD' and seq_out_of_range(prog, self.view.count):
                self.count('latitude_seq_out_of_range_bad')
            elif r1 is not None:
                await self.diagnose_reject(prog, True, cond2, wire2)
            return
        if r1 is not None:
            await self.compare_seq_uid(prog, r1, r2, show(prog))
        elif st == 'bad-allowed':
            await self.judge(prog, True)

    async def run_metamorphic(self, gen: Gen, rel: str) -> None:
        lhs, rhs = metamorphic_pair(gen, rel)
        self.shapes.append('%s: %s' % (rel, ' '.join(
            shape(k) for k in lhs['keys'])))
        s1, r1 = await self.judge(lhs, False)
        if self.dead:
            return
        s2, r2 = await self.judge(rhs, False)
        if self.dead:
            return
        if r1 is None or r2 is None:
            return
        self.count('metamorphic_comparisons')
        self.count('metamorphic_' + rel)
        same = r1 == r2
        if not same and self.view.hidden:
            vis = self.view.visible()
            same = (r1 & vis) == (r2 & vis)
        if not same:
            self.hist.report(
                'search-metamorphic:' + rel,
                '%s -> %r but %s -> %r (UIDs, view %r)' % (
                    show(lhs), sorted(r1), show(rhs), sorted(r2),
                    self.view.uids),
                {'lhs': show(lhs), 'rhs': show(rhs), 'lhs_result': sorted(r1),
                 'rhs_result': sorted(r2), 'view_uids': self.view.uids})


# --------------------------------------------------------------------------
# histories

async def append_msg(s: Session, hist: History, m: dict[str, Any]) -> bool:
    rest = b'APPEND INBOX'
    rest += b' (' + ' '.join(m['flags']).encode('ascii') + b')' \
        if (m['flags'] or m.get('empty_flags')) else b''
    if m['idate']:
        rest += b' "' + m['idate'].encode('ascii') + b'"'
    rest += b' ' + net.lit(m['raw'])
    r = await s.cmd(rest)
    if not r.ok:
        return False
    if r.tagged is not None and r.tagged.code == b'APPENDUID' and \
            isinstance(r.tagged.data, tuple):
        for uid in r.tagged.data[1]:
            hist.learn(b'INBOX', uid, m['cid'].encode('ascii'), 'APPENDUID')
    return True


async def build_mailbox(env: Any, hist: History, msgs: list[dict[str, Any]],
                        old: int) -> bool:
    """Append ``msgs``; the first ``old`` lose \\Recent to a session that
    selects the mailbox in between."""
    p = Session(env, hist, 90, Sched(), 0)
    hist.sessions.remove(p)
    hist.c13_prov = [p]                      # type: ignore[attr-defined]
    if not await p.start():
        hist.aborted = 'provision-login'
        return False
    for k, m in enumerate(msgs):
        if k == old and old:
            q = Session(env, hist, 91, Sched(), 0)
            hist.sessions.remove(q)
            if not await q.start():
                hist.aborted = 'provision-login'
                return False
            await q.select(b'INBOX')
            await q.cmd(b'LOGOUT')
            await q.conn.wait_closed()
        if not await append_msg(p, hist, m):
            hist.aborted = 'provision-append'
            return False
    await p.cmd(b'LOGOUT')
    await p.conn.wait_closed()
    return True


async def open_session(env: Any, hist: History, cid: int,
                       examine: bool = False) -> Session | None:
    s = Session(env, hist, cid, Sched(), cid)
    if not await s.start():
        return None
    r = await s.select(b'INBOX', examine=examine)
    if not r.ok:
        s.failed = 'select'
        return None
    return s


async def run_history(spec: dict[str, Any], hist: History,
                      counters: dict[str, int], shapes: list[str]) -> None:
    rng = random.Random(spec['seed'])
    backend = spec.get('backend', 'dict')
    env = await make_env(backend)
    try:
        pool, absent = gen_pool(rng)
        base = rng.choice(BASE_DAYS)
        msgs = []
        for k in range(spec['nmsgs']):
            while True:
                m = gen_message(rng, pool, base, 'c%s-%d' % (hist.case_id,
                                                              k + 1),
                                backend)
                if skeleton_ok(m['raw'], pool):
                    break
            msgs.append(m)
        old = rng.choice([0, 0, rng.randint(1, len(msgs))])
        # "late": the last 2-5 messages arrive from another connection after
        # the searching session has selected, and enter its view in one
        # refresh
        nlate = min(len(msgs) - 1, 2 + spec['seed'] % 4) \
            if spec.get('late') and len(msgs) > 2 else 0
        early = msgs[:len(msgs) - nlate]
        if not await build_mailbox(env, hist, early, min(old, len(early))):
            return
        a = await open_session(env, hist, 1, examine=spec.get('examine',
                                                              False))
        if a is None:
            hist.aborted = 'select-failed'
            return
        if nlate:
            if not await build_mailbox(env, hist, msgs[len(early):], 0):
                return
            await a.noop()
            counters['late_arrivals'] = counters.get('late_arrivals', 0) + \
                nlate
        run = Runner(a, hist, counters)
        run.shapes = shapes
        nprog = spec['nprog']
        force = list(spec.get('force', []))

        async def batch(n: int, both: bool, meta: int) -> None:
            gen = Gen(rng, run.view, pool, absent)
            for _ in range(n):
                if run.dead or len(hist.violations) >= 12:
                    return
                f = force.pop() if force else None
                await run.run_program(gen.program(force=f), both)
            for _ in range(meta):
                if run.dead or len(hist.violations) >= 12:
                    return
                await run.run_metamorphic(gen, rng.choice(RELATIONS))

        # phase 1: the freshly selected view
        if not await run.dump():
            return
        await batch(nprog, True, spec['nmeta'])
        if run.dead or not spec.get('expunge'):
            return
        # phase 2: another session expunges; ``a`` is not told
        view = run.view
        cands = list(view.uids)
        k = rng.randint(1, max(1, min(4, len(cands) - 2)))
        victims = sorted(rng.sample(cands, k)) if len(cands) > 2 else []
        if not victims:
            return
        b = await open_session(env, hist, 2)
        if b is None:
            hist.aborted = 'select-failed'
            return
        await b.fetch_all()
        # already \Deleted messages outside the chosen set stay if UID
        # EXPUNGE is used, otherwise they go as well
        r = await b.cmd(b'UID STORE ' + ','.join(
            '%d' % u for u in victims).encode() + b' +FLAGS.SILENT '
            b'(\\Deleted)')
        if not r.ok:
            hist.aborted = 'expunger-store-failed'
            return
        if rng.random() < 0.5:
            r = await b.cmd(b'UID EXPUNGE ' + ','.join(
                '%d' % u for u in victims).encode())
        else:
            r = await b.cmd(b'EXPUNGE')
        if not r.ok:
            hist.aborted = 'expunger-expunge-failed'
            return
        left = set(b.shadow.known_uids())
        if any(u is None for u in b.shadow.uids):
            hist.aborted = 'expunger-view-unknown'
            return
        view.hidden = set(view.uids) - left
        if not view.hidden:
            hist.aborted = 'nothing-expunged'
            return
        run.cache = {}
        counters['hidden_messages'] = counters.get('hidden_messages', 0) + \
            len(view.hidden)
        before = a.shadow.count
        await batch(max(2, nprog // 2), False, max(1, spec['nmeta'] // 2))
        if run.dead:
            return
        if a.shadow.count != before:
            hist.aborted = 'told-during-nonuid-search'
            return
        # UID SEARCH with message sequence numbers in the program: they are
        # numbers of the view the client knows - the EXPUNGEs that tell it
        # otherwise come behind the SEARCH line of this very response
        gen2 = Gen(rng, run.view, pool, absent)
        for _ in range(2):
            if run.dead or hist.violations:
                break
            await run.judge(gen2.program(force='SEQSET'), True)
            counters['uid_search_on_hidden_view'] = counters.get(
                'uid_search_on_hidden_view', 0) + 1
            if a.shadow.count != before:
                break                   # told now
        if run.dead:
            return
        # phase 3: told now; the renumbered view with UID gaps
        r = await a.cmd(b'NOOP')
        if not r.ok:
            return
        if a.shadow.count != before - len(view.hidden):
            hist.aborted = 'not-told-about-expunge'   # C02's business
            return
        if not await run.dump() or run.view.count == 0:
            return
        counters['renumbered_views'] = counters.get('renumbered_views', 0) + 1
        await batch(nprog, True, spec['nmeta'])
    finally:
        env.cleanup()


# --------------------------------------------------------------------------
# scripted triggers (minimal reproductions of findings)

def _plain_msg(cid: str, subject: str, body: str,
               date: str = 'Mon, 01 Jan 2024 10:00:00 +0000') -> bytes:
    return ('From: a@host1.example\r\nTo: b@host2.example\r\n'
            'Subject: %s\r\nDate: %s\r\n'
            'X-VF-ID: %s\r\n\r\n%s\r\n' % (subject, date, cid,
                                           body)).encode('ascii')


async def run_script(name: str, hist: History, counters: dict[str, int],
                     shapes: list[str]) -> None:
    env = await make_env('dict')
    try:
        texts = [('qxzjkvw', '100'), ('wvkjzxq', 'qxzjkvw 200'),
                 ('jjqqxxz', '300')]
        dates = ['Mon, 01 Jan 2024 10:00:00 +0000',
                 'Mon, 1 Jan 2024 11:00:00 +0100',
                 '1 Jan 2024 12:00:00 +0000']       # a Monday, not written
        msgs = [{'raw': _plain_msg('s%d' % k, su, bo, dates[k]), 'flags': fl,
                 'idate': '0%d-Jan-2024 10:00:00 +0000' % (k + 1),
                 'cid': 's%d' % k}
                for k, ((su, bo), fl) in enumerate(zip(
                    texts, [['\\Seen'], [], ['\\Seen', '\\Flagged']]))]
        if not await build_mailbox(env, hist, msgs, 0):
            return
        a = await open_session(env, hist, 1)
        if a is None:
            hist.aborted = 'select-failed'
            return
        run = Runner(a, hist, counters)
        run.shapes = shapes
        if not await run.dump():
            return

        def P(*keys: list[Any]) -> dict[str, Any]:
            return {'keys': list(keys), 'charset': None, 'kcase': 0}

        if name == 'uid-search-bare-seqset':
            await run.run_program(P(['SEQ', '1:2']), True)
        elif name == 'body-matches-header':
            await run.run_program(P(['STR', 'BODY', 'qxzjkvw', 'atom']),
                                  False)
        elif name == 'not-not':
            await run.run_program(P(['NOT', ['NOT', ['K', 'SEEN']]]), False)
        elif name == 'header-date-rerendered':
            await run.run_program(P(['HDR', 'Date', 'Mon', 'atom', 'atom']),
                                  False)
        elif name == 'sanity':
            await run.run_program(P(['OR', ['K', 'SEEN'],
                                     ['STR', 'SUBJECT', 'wvkj', 'quoted']],
                                    ['NOT', ['UID', '103:*']]), True)
        else:
            raise ValueError(name)
    finally:
        env.cleanup()


SCRIPTS = ['uid-search-bare-seqset', 'body-matches-header', 'not-not',
           'header-date-rerendered', 'sanity']


# --------------------------------------------------------------------------

MIN_PER_KEY = 100


class C13(Check):
    pid = 'C13'
    level = 'exploration'
    title = 'SEARCH returns exactly the matching messages'
    rule = ('case = one generated mailbox (4-12 messages: flags, keywords, '
            'INTERNALDATE and Date: around day boundaries in several zones, '
            'sizes, token-built headers/bodies, old and \\Recent messages) '
            'x search programs of depth <= 4 over every supported key with '
            'arguments drawn from the dumped view, each issued as SEARCH and '
            'UID SEARCH and compared with an independent RFC 3501 evaluator '
            'over the same session\'s dump; optionally a second session '
            'expunges behind the first one\'s back (hidden messages) and the '
            'view is searched again before and after it is told; distinct = '
            'hash of the shapes (keys, combinators, argument forms) of all '
            'programs of the case; non-trivial = at least 5 queries compared '
            'with the evaluator, one of them neither empty nor total')
    assumptions = [
        'dict and maildir(++) backends, asyncio subsystem',
        'search strings are ASCII tokens; 8-bit strings / other charsets, '
        'MIME-encoded headers and non-text parts are not generated (no '
        'reading of "contains" is pinned down for them by RFC 3501)',
        'ground truth is the same session\'s own UID FETCH dump; a server '
        'that lies consistently in FETCH and SEARCH is C03/C10\'s business',
        'sequence numbers beyond the view may be answered BAD; hidden '
        'expunged messages may or may not be reported']
    floors = dict({'queries_compared': 4000, 'seq_uid_comparisons': 1500,
                   'metamorphic_comparisons': 600, 'hidden_view_queries': 400,
                   'latitude_hidden_reported': 1, 'renumbered_views': 60,
                   'results_nonempty_nontotal': 2000, 'maildir_cases': 20},
                  **{'key_' + k: MIN_PER_KEY for k in ALL_KEYS})
    time_cap = {'quick': 70.0, 'thorough': 600.0}

    def cases(self, tier: str, seed: int) -> Iterable[dict[str, Any]]:
        n = 2000 if tier == "quick" else 32000
        rng = random.Random(seed * 15485863 + 13)
        leafs = K_NOARG + K_STR + K_DATE + K_SIZE + K_KW + K_OID + \
            ['HEADER', 'UID', 'SEQSET']
        for i in range(n):
            backend = 'dict' if rng.random() < 0.9 else 'maildir'
            # every key is forced into some program of every ~6th case, so
            # that per-key floors do not depend on luck
            force = [leafs[(i * 7 + j) % len(leafs)] for j in range(3)]
            yield {'seed': seed * 1_000_003 + i, 'backend': backend,
                   'nmsgs': rng.randint(4, 12),
                   'nprog': rng.randint(5, 9) if backend == 'dict'
                   else rng.randint(3, 5),
                   'nmeta': rng.randint(2, 4),
                   'expunge': rng.random() < 0.55,
                   'examine': rng.random() < 0.15,
                   'force': force, 'late': i % 3 == 1}

    def setup_worker(self) -> None:
        install_glass()

    def extra_evidence(self, agg: dict[str, Any]) -> dict[str, Any]:
        c = agg.get('counters', {})
        per_key = {k: c.get('key_' + k, 0) for k in ALL_KEYS}
        least = min(per_key, key=lambda k: per_key[k])
        return {
            'keys_supported': len(ALL_KEYS),
            'keys_exercised': sum(1 for v in per_key.values() if v),
            'least_used_key': {least: per_key[least]},
            'latitude_used': {k[len('latitude_'):]: v for k, v in c.items()
                              if k.startswith('latitude_')},
            'queries_compared_with_evaluator': c.get('queries_compared', 0),
            'seq_vs_uid_comparisons': c.get('seq_uid_comparisons', 0),
            'metamorphic_comparisons': c.get('metamorphic_comparisons', 0)}

    def run_case(self, spec: dict[str, Any]) -> dict[str, Any]:
        random.seed(spec.get('seed', 0))
        hist = History(str(spec.get('seed', 0)))
        counters: dict[str, int] = {}
        shapes: list[str] = []
        counters[spec.get('backend', 'dict') + '_cases'] = 1

        async def main(loop: L.CtlLoop) -> None:
            if 'script' in spec:
                await run_script(spec['script'], hist, counters, shapes)
            else:
                await run_history(spec, hist, counters, shapes)

        try:
            L.run(main, max_steps=2_000_000)
        except L.Deadlock:
            hist.aborted = 'deadlock'
        aborted = hist.aborted
        for s in hist.sessions:
            if s.failed and aborted is None:
                aborted = 'session-' + s.failed
        viol = [v for v in hist.violations if v['mech'].startswith('search-')]
        other = [v['mech'] for v in hist.violations if v not in viol]
        if other and aborted is None and not viol:
            aborted = 'other-property:' + other[0]
        hist.violations = viol
        if viol:
            self._attach(hist)
        sig = hashlib.sha1('\n'.join(shapes).encode()).hexdigest()[:16]
        return {'violations': viol, 'counters': counters, 'sig': sig,
                'nontrivial': counters.get('queries_compared', 0) >= 5 and
                counters.get('results_nonempty_nontotal', 0) >= 1,
                'sample': {'spec': spec, 'programs': shapes[:12]},
                'aborted': aborted}

    @staticmethod
    def _attach(hist: History) -> None:
        """The session's SEARCH exchanges (without the bulky dump)."""
        lines: list[str] = []
        for s in getattr(hist, 'c13_prov', []):
            for step, d, data in s.conn.transcript:
                if d == 'C' and b' APPEND ' in data[:30]:
                    lines.append('%s%d %r' % (d, s.conn.cid, data[:700]))
        lines = lines[:12]
        tail: list[str] = []
        for s in hist.sessions:
            for step, d, data in s.conn.transcript:
                if d == 'S' and not data.startswith((b'* SEARCH', b't')):
                    continue
                tail.append('%s%d %r' % (d, s.conn.cid, data[:240]))
        hist.violations[0].setdefault('witness', {})['transcript'] = \
            lines + tail[-60:]


CHECK = C13()
