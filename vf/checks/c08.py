"""C08 -- mailbox names cannot reach outside the user's own mail store.

Deciding monitors: (1) the audit-hook filesystem monitor (vf.fsmon) active
exactly while user A's commands are served: every touched path must resolve
inside A's mailbox directory (DELETE/RENAME never the directory itself),
mutations that would leave the sacrificial tree are vetoed and reported;
(2) before/after snapshots of user B's tree, the credential files and a
canary file above the base directory; (3) on every backend, B's observable
state through B's own session is unchanged."""

from __future__ import annotations

import hashlib
import os
import random
import sys
import tempfile
from typing import Any, Iterable

from .. import fsmon, gen
from .. import loop as L
from ..fsmon import MON
from ..net import Conn, Sched, lit
from ..runner import Check
from ..servers import make_env

INTERP_PREFIXES = tuple(p.rstrip('/') + '/' for p in {
    sys.prefix, sys.base_prefix, sys.exec_prefix, '/usr/lib', '/usr/share',
    '/usr/local/lib', '/etc', '/dev', '/proc', '/sys', '/repo', '/verif',
    '/venv', '/root/.pyenv', '/opt/veriftools'})

CMDS1 = [b'CREATE', b'DELETE', b'SELECT', b'EXAMINE', b'SUBSCRIBE',
         b'UNSUBSCRIBE']


def hostile_name(rng: random.Random) -> str:
    r = rng.random()
    if r < 0.55:
        return gen.path_name(rng)
    if r < 0.75:
        return gen.unicode_name(rng, controls=True, max_len=40)
    if r < 0.83:
        return rng.choice(['INBOX/', 'INBOX//', 'inbox/', '/INBOX', 'INBOX/.',
                           'INBOX/..', 'INBOX/../bob', 'Inbox/', 'INBOX/ ',
                           'bob', '../bob', '../../base/bob', 'bob/INBOX',
                           '../pymap-etc-passwd', '.', '..', '', '/',
                           '../bob/.Secret', '../bob/Secret', '.bob',
                           '../../../../../../../../tmp/vf-escape',
                           # look-alikes of '.', '..' and '/' (NFKC)
                           '\u2025/bob/Secret', '\u2024\u2024/bob/Secret',
                           '\uff0e\uff0e/bob', '\u2025', '\u2024',
                           '\u2025/\u2025/base/bob', '\u2025\uff0fbob',
                           '\uff29\uff2e\uff22\uff2f\uff38/',
                           '\u2025/pymap-etc-passwd',
                           # a sibling store whose name extends the user's
                           '../alice2', '../alice2/Secret', '../alice2/x',
                           'a/../../alice2/y', '../alice2/.Secret',
                           '\u2025/alice2/Secret', '../alice2/INBOX'])
    if r < 0.85:
        return 'x' * rng.choice([255, 256, 300, 1000, 5000])
    if r < 0.89:
        # names that become "INBOX" (the store root on maildir) under
        # Unicode case mapping or compatibility normalisation although they
        # are not ASCII spellings of it: dotless i, fullwidth, Kelvin-style
        # look-alikes, combining dot
        return rng.choice(['\u0131nbox', '\u0131NBOX', '\u0131nbox/x',
                           'INBOX/\u0131nbox', 'I\u0307NBOX', '\u0130nbox',
                           '\uff49\uff4e\uff42\uff4f\uff58',
                           '\uff29\uff2e\uff22\uff2f\uff38',
                           '\u0131nbo\uff58', 'INBO\u00d7', '\u2160NBOX',
                           'inbox\u200b', '\u0131nbox/'])
    return gen.tidy_name(rng)


async def b_view(env: Any) -> Any:
    """What user B observes through B's own session."""
    c = Conn(50, Sched())
    c.start(env.imap)
    await c.greeting()
    r = await c.simple(b'LOGIN bob pwb')
    if not r.ok:
        return ('login-failed',)
    out: list[Any] = []
    r = await c.simple(b'LIST "" *')
    names = sorted((u.data or {}).get('name') or b'' for u in r.untagged
                   if u.typ == b'LIST')
    out.append(names)
    r = await c.simple(b'LSUB "" *')
    out.append(sorted((u.data or {}).get('name') or b'' for u in r.untagged
                      if u.typ == b'LSUB'))
    for nm in names:
        from ..net import astring
        r = await c.simple(b'EXAMINE ' + astring(nm))
        if not r.ok:
            out.append((nm, 'noselect'))
            continue
        r = await c.simple(b'UID FETCH 1:* (UID FLAGS RFC822.SIZE '
                           b'BODY.PEEK[HEADER.FIELDS (X-VF-ID)])')
        out.append((nm, sorted(
            (u.data.get(b'UID'), tuple(sorted(
                f for f in u.data.get(b'FLAGS', []) if f != b'\\Recent')),
             u.data.get(b'RFC822.SIZE'))
            for u in r.untagged if u.typ == b'FETCH')))
    await c.simple(b'LOGOUT')
    return out


async def prepare_b(env: Any) -> None:
    c = Conn(51, Sched())
    c.start(env.imap)
    await c.greeting()
    await c.simple(b'LOGIN bob pwb')
    await c.simple(b'CREATE Secret')
    await c.simple(b'SUBSCRIBE Secret')
    for k in range(2):
        await c.simple(b'APPEND Secret ' + lit(
            b'X-VF-ID: bob-%d\r\nSubject: secret\r\n\r\nbob body\r\n' % k))
    await c.simple(b'APPEND INBOX ' + lit(
        b'X-VF-ID: bob-i\r\nSubject: s\r\n\r\nbody\r\n'))
    await c.simple(b'LOGOUT')
    # a third user whose directory name merely *begins* with the attacker's:
    # a containment test on strings instead of path components lets
    # ../alice2 pass
    c = Conn(52, Sched())
    c.start(env.imap)
    await c.greeting()
    await c.simple(b'LOGIN alice2 pw2')
    await c.simple(b'CREATE Secret')
    await c.simple(b'APPEND Secret ' + lit(
        b'X-VF-ID: alice2-0\r\nSubject: secret\r\n\r\nbody\r\n'))
    await c.simple(b'LOGOUT')


class Ctx:
    def __init__(self) -> None:
        self.violations: list[dict[str, Any]] = []
        self.counters: dict[str, int] = {}
        self.kinds: set[str] = set()

    def count(self, k: str, n: int = 1) -> None:
        self.counters[k] = self.counters.get(k, 0) + n

    def report(self, mech: str, detail: str, **w: Any) -> None:
        if len(self.violations) < 8:
            self.violations.append({'mech': mech, 'detail': detail,
                                    'witness': w})


def judge_events(ctx: Ctx, events: list[fsmon.Event], cmd: bytes,
                 a_root: str, base: str, sac_root: str, tmpdir: str,
                 login: bool) -> None:
    verb = cmd.split(b' ')[0].upper()
    for ev in events:
        ctx.count('fs_events')
        for path, raw in ((ev.path, ev.raw), (ev.path2, ev.raw2)):
            if path is None or path.startswith('<fd'):
                continue
            if fsmon.inside(path, a_root):
                if ev.mutating and path == a_root and ev.kind in (
                        'os.rmdir', 'os.rename', 'os.remove',
                        'shutil.rmtree', 'shutil.move', 'os.replace'):
                    ctx.report('fs-removes-or-renames-store-root',
                               '%s: %s on the mailbox directory itself'
                               % (cmd[:120], ev.kind), events=[
                                   e.as_list() for e in events][-12:])
                ctx.count('fs_inside')
                continue
            # outside A's store
            if ev.vetoed:
                ctx.report('fs-mutation-outside-sacrificial-tree',
                           '%s: %s %r (vetoed)' % (cmd[:120], ev.kind, raw),
                           events=[e.as_list() for e in events][-12:])
                continue
            if not ev.mutating and path.startswith(INTERP_PREFIXES):
                ctx.count('fs_interpreter_reads')
                continue
            if fsmon.inside(path, base) and os.path.basename(
                    path).startswith('pymap-etc-') and \
                    os.path.dirname(path) == base:
                if login and not ev.mutating:
                    ctx.count('fs_credential_reads_at_login')
                    continue
                if login and ev.kind in ('stat',):
                    continue
                ctx.report('fs-credential-file-touched',
                           '%s: %s %r' % (cmd[:120], ev.kind, raw))
                continue
            if fsmon.inside(path, tmpdir) and not fsmon.inside(
                    path, sac_root):
                # only a file the same command created via tempfile
                if os.path.basename(path).startswith('tmp'):
                    ctx.count('fs_tempfile_events')
                    continue
                if path == tmpdir and not ev.mutating:
                    continue
            if login and path == base and not ev.mutating:
                continue
            kind = 'mutation' if ev.mutating else 'read'
            ctx.report('fs-%s-outside-store' % kind,
                       '%s: %s %r resolves to %r, outside %r'
                       % (cmd[:120], ev.kind, raw, path, a_root),
                       events=[e.as_list() for e in events][-12:])


async def run_c08(spec: dict[str, Any], ctx: Ctx) -> None:
    rng = random.Random(spec['seed'])
    backend = spec['backend']
    env = await make_env(backend, {'alice': 'pwa', 'bob': 'pwb',
                                   'alice2': 'pw2'})
    try:
        await prepare_b(env)
        maildir = env.kind == 'maildir'
        a_root = base = sac = ''
        snaps_before: dict[str, Any] = {}
        if maildir:
            base = os.path.realpath(env.base_dir)
            sac = os.path.realpath(env.root)
            a_root = os.path.join(base, 'alice')
            canary = os.path.join(sac, 's', 'canary.txt')
            with open(canary, 'w') as f:
                f.write('canary')
        # A logs in (monitored, login phase)
        c = Conn(1, Sched())
        c.start(env.imap)
        await c.greeting()
        tmpdir = os.path.realpath(tempfile.gettempdir())

        async def mon_cmd(rest: bytes, login: bool = False) -> Any:
            if c.dead:
                return None
            if maildir:
                MON.start(sac)
            try:
                r = await c.simple(rest)
            finally:
                events = MON.stop() if maildir else []
            ctx.count('commands')
            if maildir:
                judge_events(ctx, events, rest, a_root, base, sac, tmpdir,
                             login)
            return r

        r = await mon_cmd(b'LOGIN alice pwa', login=True)
        if r is None or not r.ok:
            ctx.report('setup-failed', 'alice cannot log in')
            return
        await mon_cmd(b'APPEND INBOX ' + lit(b'X-VF-ID: a1\r\n\r\nx\r\n'))
        if maildir:
            # snapshots are taken after A's store exists
            snaps_before = {
                'bob': fsmon.snapshot(os.path.join(base, 'bob')),
                'canary': fsmon.snapshot(canary),
                'etc': {fn: fsmon.snapshot(os.path.join(base, fn))
                        for fn in sorted(os.listdir(base))
                        if fn.startswith('pymap-etc-')},
                'above': sorted(os.listdir(os.path.join(sac, 's', 'a', 'b'))),
                'base': sorted(os.listdir(base))}
        b_before = await b_view(env)
        selected = False
        for line in spec.get('cmds', []):
            rest = line.encode('latin-1')
            if not selected and rest.split(b' ')[0] in (b'COPY', b'MOVE'):
                await mon_cmd(b'SELECT INBOX')
                selected = True
            await mon_cmd(rest)
        for _ in range(spec.get('ncmds', 0)):
            if c.dead:
                break
            nm = hostile_name(rng)
            w = gen.wire_mailbox(nm)
            r0 = rng.random()
            if r0 < 0.45:
                verb = rng.choice(CMDS1)
                rest = verb + b' ' + w
            elif r0 < 0.6:
                w2 = gen.wire_mailbox(hostile_name(rng))
                rest = b'RENAME ' + (w + b' ' + w2 if rng.random() < 0.5
                                     else w2 + b' ' + w)
            elif r0 < 0.68:
                rest = b'STATUS ' + w + b' (MESSAGES UIDNEXT)'
            elif r0 < 0.76:
                rest = b'APPEND ' + w + b' ' + lit(b'X-VF-ID: a2\r\n\r\ny\r\n')
            elif r0 < 0.86:
                if not selected:
                    await mon_cmd(b'SELECT INBOX')
                    selected = True
                rest = rng.choice([b'COPY', b'MOVE', b'UID COPY']) + \
                    b' 1:* ' + w
            else:
                pat = gen.wire_mailbox(rng.choice(
                    ['*', '%', '../*', '../%', '*/..', nm + '*', '%/%',
                     '../../*']))
                rest = rng.choice([b'LIST ', b'LSUB ']) + w + b' ' + pat
            ctx.kinds.add(rest.split(b' ')[0].decode() + ':' + _name_class(nm))
            r = await mon_cmd(rest)
            if rest.startswith((b'SELECT', b'EXAMINE')):
                selected = bool(r is not None and r.ok)
            if ctx.violations:
                break
        if not c.dead:
            await mon_cmd(b'LOGOUT')
        # after
        b_after = await b_view(env)
        ctx.count('b_view_comparisons')
        if b_after != b_before:
            ctx.report('other-user-observes-change',
                       "bob's view changed: before %r after %r" % (
                           b_before, b_after))
        if maildir:
            after = {
                'bob': fsmon.snapshot(os.path.join(base, 'bob')),
                'canary': fsmon.snapshot(canary),
                'etc': {fn: fsmon.snapshot(os.path.join(base, fn))
                        for fn in sorted(os.listdir(base))
                        if fn.startswith('pymap-etc-')}
                if os.path.isdir(base) else 'base-dir-gone',
                'above': sorted(os.listdir(os.path.join(sac, 's', 'a', 'b')))
                if os.path.isdir(os.path.join(sac, 's', 'a', 'b')) else None,
                'base': sorted(os.listdir(base))
                if os.path.isdir(base) else None}
            ctx.count('snapshot_comparisons')
            for k in ('canary', 'etc', 'above', 'base'):
                if after[k] != snaps_before[k]:
                    ctx.report('fs-snapshot-changed:' + k,
                               '%s changed: before %r after %r' % (
                                   k, snaps_before[k], after[k]))
            if _strip_volatile(after['bob']) != \
                    _strip_volatile(snaps_before['bob']):
                ctx.report('fs-snapshot-changed:other-user',
                           "bob's tree changed")
    finally:
        MON.active = False
        env.cleanup()


def _strip_volatile(snap: dict[str, Any]) -> dict[str, Any]:
    # B's own sessions (the observer) may legitimately move new/ -> cur/ and
    # rewrite B's own control files: compare names of message files only by
    # their unique part and ignore control-file hashes.
    out = {}
    for k, v in snap.items():
        base = os.path.basename(k)
        if base.startswith('dovecot') or base in ('subscriptions',):
            out[k] = 'control'
        elif '/new/' in k or '/cur/' in k:
            d = os.path.dirname(os.path.dirname(k))
            out[d + '/msg/' + base.split(':')[0]] = v
        else:
            out[k] = v
    return out


def _name_class(nm: str) -> str:
    cl = []
    if '..' in nm:
        cl.append('dotdot')
    if nm.startswith('/'):
        cl.append('abs')
    if '\x00' in nm:
        cl.append('nul')
    if nm in ('', '.', '/'):
        cl.append('degenerate')
    if '//' in nm or nm.endswith('/'):
        cl.append('delims')
    if len(nm) > 250:
        cl.append('long')
    if any(ord(ch) > 127 for ch in nm):
        cl.append('nonascii')
    return '+'.join(cl) or 'plain'


class C08(Check):
    pid = 'C08'
    level = 'exploration'
    rule = ('case = user A issuing 3-10 commands (CREATE DELETE RENAME SELECT '
            'EXAMINE STATUS SUBSCRIBE UNSUBSCRIBE APPEND COPY MOVE LIST LSUB) '
            'with hostile mailbox names/references/patterns on maildir ++, '
            'maildir fs or dict, with user B provisioned; distinct = hash of '
            'the set of (command, name class) pairs; non-trivial = at least '
            'one filesystem event was judged (maildir) or one B-view '
            'comparison made (dict)')
    assumptions = [
        'filesystem observation = CPython audit events (open, os.*, shutil.*)'
        ' + wrapped os.stat/lstat/access in the server process; C-level '
        'access that bypasses them is not seen (cross-checked with strace in '
        'the thorough tier)',
        'stores live in a sacrificial tree; mutations leaving it are vetoed',
        'reads under the interpreter/library prefixes are not judged']
    floors = {'commands': 5000, 'fs_events': 20000, 'b_view_comparisons': 500}

    def cases(self, tier: str, seed: int) -> Iterable[dict[str, Any]]:
        n = 1500 if tier == 'quick' else 40000
        rng = random.Random(seed * 4801 + 8)
        for i in range(n):
            yield {'seed': seed * 1_000_003 + i,
                   'backend': rng.choice(['maildir', 'maildir', 'maildir-fs',
                                          'maildir-fs', 'dict']),
                   'ncmds': rng.randint(3, 10)}

    def setup_worker(self) -> None:
        MON.install()

    def run_case(self, spec: dict[str, Any]) -> dict[str, Any]:
        random.seed(spec['seed'])
        ctx = Ctx()

        async def main(loop: L.CtlLoop) -> None:
            await run_c08(spec, ctx)

        aborted = None
        try:
            L.run(main, max_steps=2_000_000)
        except L.Deadlock:
            aborted = 'deadlock'
        finally:
            MON.active = False
        sig = hashlib.sha1(repr(sorted(ctx.kinds)).encode()).hexdigest()[:16]
        return {'violations': ctx.violations, 'counters': ctx.counters,
                'sig': sig,
                'nontrivial': ctx.counters.get('fs_events', 0) > 0 or
                ctx.counters.get('b_view_comparisons', 0) > 0,
                'sample': {'spec': spec, 'kinds': sorted(ctx.kinds)},
                'aborted': aborted}


CHECK = C08()
