"""C17 -- \\Recent is announced to exactly one session and never stored.

Deciding monitor: a history checker over what every selection was *told*:
per message (mailbox, UID) the set of read-write selections that ever received
it flagged \\Recent must have at most one element; read-only selections never
consume it; a message delivered while nobody has the mailbox selected must be
\\Recent in the first read-write selection; SELECT's and untagged RECENT
counts must equal the number of messages the selection sees flagged \\Recent
(after fetching all flags); STORE of \\Recent changes nothing."""

from __future__ import annotations

import asyncio
import hashlib
import os
import random
from typing import Any, Iterable

from .. import loop as L
from ..net import Sched
from ..runner import Check
from ..servers import make_env
from ..shadow import install_glass
from ..workload import FLAGS, History, Session, provision
from .c01 import schedule_family, sched_from, summarize

_LISTDIR_RNG: random.Random | None = None
_orig_listdir = os.listdir


_LISTDIR_REVERSE = False


def _shuffled_listdir(path: Any = '.') -> list[Any]:
    out = _orig_listdir(path)
    rng = _LISTDIR_RNG
    if _LISTDIR_REVERSE:
        return sorted(out, reverse=True)
    if rng is not None and len(out) > 1:
        out = sorted(out)
        rng.shuffle(out)
    return out


class Sel:
    """One selection of a mailbox by one connection."""
    def __init__(self, sid: int, conn: int, rw: bool, mbox: bytes) -> None:
        self.sid = sid
        self.conn = conn
        self.rw = rw
        self.mbox = mbox
        self.told: set[int] = set()


class Tracker:
    def __init__(self, hist: History) -> None:
        self.hist = hist
        self.sels: list[Sel] = []
        self.cur: dict[int, Sel | None] = {}
        self.counters: dict[str, int] = {}

    def count(self, k: str, n: int = 1) -> None:
        self.counters[k] = self.counters.get(k, 0) + n

    def harvest(self, s: Session) -> None:
        sel = self.cur.get(s.conn.cid)
        if sel is not None:
            sel.told |= s.shadow.told_recent

    def end(self, s: Session) -> None:
        self.harvest(s)
        self.cur[s.conn.cid] = None

    async def fetch_flags(self, s: Session) -> None:
        """Learn flags of everything; repeat while updates keep coming."""
        for _ in range(3):
            before = (s.shadow.count, s.shadow.recent)
            r = await s.cmd(b'FETCH 1:* (UID FLAGS)', delay=False) \
                if s.shadow.count else await s.cmd(b'NOOP', delay=False)
            if not r.ok or (s.shadow.count, s.shadow.recent) == before:
                break
        self.harvest(s)

    def recent_agreement(self, s: Session, where: str) -> None:
        sh = s.shadow
        sel = self.cur.get(s.conn.cid)
        if sel is None or not sel.rw or sh.recent is None:
            return
        if any(f is None for f in sh.flags):
            return
        seen = sum(1 for f in sh.flags if f and b'\\recent' in f)
        self.count('recent_count_comparisons')
        if seen != sh.recent:
            self.hist.report(
                'recent-count-disagrees',
                '%s: session %d was given RECENT %d but sees %d messages '
                'flagged \\Recent (flags %r)' % (
                    where, s.conn.cid, sh.recent, seen,
                    [sorted(f) for f in sh.flags if f is not None]),
                {'conn': s.conn.cid})

    async def select(self, s: Session, rw: bool) -> bool:
        self.end(s)
        r = await s.select(b'INBOX', examine=not rw)
        if not r.ok:
            return False
        sel = Sel(len(self.sels), s.conn.cid, rw, b'INBOX')
        self.sels.append(sel)
        self.cur[s.conn.cid] = sel
        self.count('selections_rw' if rw else 'selections_ro')
        await self.fetch_flags(s)
        self.recent_agreement(s, 'after SELECT')
        return True

    def final(self) -> None:
        told_by: dict[tuple[bytes, int], list[Sel]] = {}
        for sel in self.sels:
            if not sel.rw:
                continue
            for uid in sel.told:
                told_by.setdefault((sel.mbox, uid), []).append(sel)
        for (mbox, uid), sels in told_by.items():
            self.count('messages_told_recent')
            if len(sels) > 1:
                self.hist.report(
                    'recent-told-to-two-rw-selections',
                    'UID %d of %r was reported \\Recent to %d read-write '
                    'selections (connections %r)' % (
                        uid, mbox, len(sels), [x.conn for x in sels]))


async def store_recent_probe(tr: Tracker, s: Session) -> None:
    """STORE of \\Recent must change nothing."""
    sh = s.shadow
    if not sh.count or any(f is None for f in sh.flags):
        return
    before = [(u, b'\\recent' in (f or ())) for u, f in zip(sh.uids, sh.flags)]
    n = s.rng.randint(1, sh.count)
    mode = s.rng.choice([b'+FLAGS', b'-FLAGS'])
    r = await s.cmd(b'STORE %d %s (\\Recent)' % (n, mode), delay=False)
    await tr.fetch_flags(s)
    after = [(u, b'\\recent' in (f or ())) for u, f in zip(sh.uids, sh.flags)]
    tr.count('store_recent_probes')
    b = dict(before)
    b.pop(None, None)       # positions whose UID this client never learnt
    changed = [(u, x) for u, x in after
               if u is not None and u in b and b[u] != x]
    if changed:
        tr.hist.report('store-changes-recent',
                       'STORE %d %s (\\Recent) -> %r changed \\Recent of %r'
                       % (n, mode.decode(), r.cond, changed),
                       {'conn': s.conn.cid})


async def run_c17(spec: dict[str, Any], hist: History, tr: Tracker) -> None:
    global _LISTDIR_RNG
    env = await make_env(spec.get('backend', 'dict'))
    loop = asyncio.get_event_loop()
    try:
        rng = random.Random(spec['seed'])
        if env.kind == 'maildir':
            _LISTDIR_RNG = random.Random(spec['seed'] + 17)
        if not await provision(env, hist, spec['nmsgs'], rng):
            return
        sched = sched_from(spec)
        sessions = [Session(env, hist, i + 1, sched, spec['seed'] * 31 + i)
                    for i in range(spec['nsess'])]
        for s in sessions:
            if not await s.start():
                return
        # phase A: nobody has it selected; deliveries; optional EXAMINE;
        # first read-write SELECT must see all of them \\Recent
        deliverer = sessions[0]
        k = rng.randint(1, 3)
        for _ in range(k):
            await deliverer.append(b'INBOX', [rng.choice(FLAGS)]
                                   if rng.random() < 0.3 else None)
        total = spec['nmsgs'] + k
        if rng.random() < 0.5 and len(sessions) > 1:
            ex = rng.choice(sessions)
            if await tr.select(ex, rw=False):
                if rng.random() < 0.5:
                    await ex.cmd(b'FETCH 1:* (BODY[HEADER.FIELDS (X-VF-ID)])')
                if rng.random() < 0.5:
                    r = await ex.cmd(b'CLOSE')
                    if r.ok:
                        tr.end(ex)
        first = rng.choice(sessions)
        if await tr.select(first, rw=True):
            sh = first.shadow
            tr.count('first_select_checks')
            nrec = sum(1 for f in sh.flags if f and b'\\recent' in f)
            if nrec != total or sh.count != total:
                hist.report('unclaimed-recent-not-given-to-first-rw-select',
                            '%d messages were delivered while nobody had '
                            'the mailbox selected read-write; the first '
                            'read-write SELECT saw %d of %d flagged \\Recent'
                            % (total, nrec, sh.count), {'conn': first.conn.cid})
        if hist.violations:
            return

        # phase B: concurrent select/examine/close/append/copy
        async def client(s: Session) -> None:
            for _ in range(spec['ncmds']):
                if not s.alive or hist.violations:
                    return
                r = s.rng.random()
                cur = tr.cur.get(s.conn.cid)
                if r < 0.2:
                    await tr.select(s, rw=True)
                elif r < 0.3:
                    await tr.select(s, rw=False)
                elif r < 0.38 and cur is not None:
                    rc = await s.cmd(b'CLOSE')
                    if rc.ok:       # the shadow deselects itself on OK
                        tr.end(s)
                elif r < 0.62:
                    fl = None
                    x = s.rng.random()
                    if x < 0.25:
                        fl = [s.rng.choice(FLAGS)]
                    elif x < 0.4:
                        fl = [b'\\Recent']          # must not be storable
                    elif x < 0.5:
                        fl = [b'\\Recent', b'\\Seen']
                    await s.append(b'INBOX', fl)
                    tr.harvest(s)
                elif r < 0.72 and cur is not None and s.shadow.count:
                    n = s.rng.randint(1, s.shadow.count)
                    await s.copy(b'%d' % n, b'INBOX')
                    tr.harvest(s)
                elif r < 0.8 and cur is not None and cur.rw:
                    await store_recent_probe(tr, s)
                elif cur is not None:
                    await tr.fetch_flags(s)
                    tr.recent_agreement(s, 'after FETCH/NOOP')
                else:
                    await s.noop()
                tr.harvest(s)

        await asyncio.gather(*(client(s) for s in sessions))
        await loop.quiescent()          # type: ignore[attr-defined]
        # final: every selected session learns everything, then a brand-new
        # read-write selection must not be told \\Recent for anything an
        # earlier read-write selection was told
        for s in sessions:
            if s.alive and tr.cur.get(s.conn.cid) is not None:
                await tr.fetch_flags(s)
                tr.recent_agreement(s, 'final')
        # changing flags (STORE, or the implicit \\Seen of a body FETCH) must
        # not change how many messages are still waiting to be \\Recent for
        # somebody: an unselected observer's STATUS (RECENT) stays the same
        watcher = Session(env, hist, 6, Sched(), spec['seed'] + 6)
        actors = [s for s in sessions if s.alive and s.shadow.count
                  and (tr.cur.get(s.conn.cid) is not None)
                  and tr.cur[s.conn.cid].rw]        # type: ignore[union-attr]
        if actors and await watcher.start():
            actor = rng.choice(actors)

            async def status_recent() -> int | None:
                r = await watcher.cmd(b'STATUS INBOX (RECENT)')
                for u in r.untagged:
                    if u.typ == b'STATUS' and isinstance(u.data, dict):
                        return u.data.get('att', {}).get(b'RECENT')
                return None
            tr.harvest(actor)
            told0 = len(tr.cur[actor.conn.cid].told)    # type: ignore
            r1 = await status_recent()
            cmdline = rng.choice([
                b'STORE 1:* +FLAGS.SILENT (\\Flagged)',
                b'STORE 1:* -FLAGS.SILENT (\\Flagged)',
                b'STORE 1:* +FLAGS.SILENT (\\Seen \\Answered)',
                b'FETCH 1:* (BODY[TEXT])'])
            await actor.cmd(cmdline)
            tr.harvest(actor)
            r2 = await status_recent()
            tr.count('flag_change_recent_probes')
            # (a server may hand pending messages to the acting read-write
            # session at any command, provided it tells that session)
            told1 = len(tr.cur[actor.conn.cid].told)    # type: ignore
            if r1 is not None and r2 is not None and (
                    r2 > r1 or r1 - r2 > told1 - told0):
                hist.report('store-changes-recent:pending-count',
                            '%s by session %d changed STATUS INBOX (RECENT) '
                            'of an unselected observer from %d to %d'
                            % (cmdline.decode(), actor.conn.cid, r1, r2),
                            {'conn': actor.conn.cid})
            await watcher.cmd(b'LOGOUT')
            watcher.retired = True          # type: ignore[attr-defined]
        late = Session(env, hist, 9, Sched(), spec['seed'] + 9)
        if await late.start():
            await tr.select(late, rw=True)
            tr.end(late)
            sessions.append(late)
        if hist.violations:
            return
        # phase C: every selection ends, each in one of the ways a selection
        # can end (CLOSE, LOGOUT, selecting something else, EXAMINE instead,
        # connection lost with or without EOF); deliveries arrive while
        # nobody has the mailbox selected read-write; the next read-write
        # SELECT must be given all of them \\Recent
        await sessions[0].cmd(b'CREATE Elsewhere')
        ended: list[str] = []
        for s in sessions:
            if not s.alive:
                continue
            how = rng.choice(['close', 'logout', 'other', 'examine', 'eof',
                              'reset', 'failed-select', 'idle-eof',
                              'idle-reset'])
            if tr.cur.get(s.conn.cid) is None and how == 'close':
                how = 'logout'
            if tr.cur.get(s.conn.cid) is None and how.startswith('idle-'):
                how = how[5:]           # IDLE needs a selection
            ended.append(how)
            tr.harvest(s)
            s.retired = True            # type: ignore[attr-defined]
            if how == 'close':
                rc = await s.cmd(b'CLOSE')
                if not rc.ok:
                    await s.cmd(b'LOGOUT')
            elif how == 'logout':
                await s.cmd(b'LOGOUT')
            elif how == 'other':
                tr.end(s)
                await s.select(b'Elsewhere')
            elif how == 'failed-select':
                tr.end(s)
                await s.select(b'No/Such/Mailbox')
            elif how == 'examine':
                if not await tr.select(s, rw=False):
                    await s.cmd(b'LOGOUT')
            elif how == 'eof':
                s.conn.feed_eof()
            elif how in ('idle-eof', 'idle-reset'):
                # the connection is lost while it idles
                if await s.idle_begin():
                    await loop.quiescent()  # type: ignore[attr-defined]
                if how == 'idle-eof':
                    s.conn.feed_eof()
                else:
                    s.conn.hard_reset()
            else:
                s.conn.hard_reset()
            if how != 'examine':
                tr.end(s)
        await loop.quiescent()          # type: ignore[attr-defined]
        # the deliveries come from a session that never selects anything or,
        # half of the time when there is one, from a session that has the
        # mailbox itself selected read-only
        examiners = [s for s in sessions if s.alive
                     and tr.cur.get(s.conn.cid) is not None]
        by_examiner = False
        if examiners and rng.random() < 0.5:
            postman = rng.choice(examiners)
            by_examiner = True
            tr.count('deliveries_by_examining_session')
        else:
            postman = Session(env, hist, 8, Sched(), spec['seed'] + 8)
            if not await postman.start():
                return
        delivered: list[int] = []
        for _ in range(rng.randint(1, 3)):
            r = await postman.append(b'INBOX', [rng.choice(FLAGS)]
                                     if rng.random() < 0.3 else None)
            if r.ok and r.tagged is not None and \
                    r.tagged.code == b'APPENDUID' and \
                    isinstance(r.tagged.data, tuple):
                delivered += list(r.tagged.data[1])
        nxt = Session(env, hist, 7, Sched(), spec['seed'] + 7)
        if delivered and await nxt.start() and \
                await tr.select(nxt, rw=True):
            sh = nxt.shadow
            tr.count('mid_history_first_select_checks')
            by_uid = {u: f for u, f in zip(sh.uids, sh.flags)}
            missing = [u for u in delivered
                       if not (by_uid.get(u) and b'\\recent' in by_uid[u])]
            if missing:
                hist.report(
                    'unclaimed-recent-not-given-to-first-rw-select:' + (
                        'appended-by-examining-session' if by_examiner
                        else 'after-deselection'),
                    'after every selection had ended (%s), UIDs %r were '
                    'delivered while nobody had the mailbox selected '
                    'read-write; the next read-write SELECT was not given '
                    '%r flagged \\Recent' % (
                        ', '.join(ended), delivered, missing),
                    {'conn': nxt.conn.cid})
            tr.end(nxt)
        for s in sessions:
            tr.end(s)
    finally:
        _LISTDIR_RNG = None
        env.cleanup()


async def script_append_recent(hist: History, tr: Tracker,
                               backend: str = 'dict') -> None:
    """Defect #18a: APPEND ... (\\Recent) stores the flag permanently."""
    env = await make_env(backend)
    try:
        await provision(env, hist, 1, random.Random(1))
        a, b, c = (Session(env, hist, i, Sched(), i) for i in (1, 2, 3))
        for s in (a, b, c):
            await s.start()
        await a.append(b'INBOX', [b'\\Recent'])
        await tr.select(a, rw=True)
        await a.cmd(b'CLOSE')
        tr.end(a)
        await tr.select(b, rw=True)
        tr.end(b)
        await tr.select(c, rw=True)
        tr.end(c)
    finally:
        env.cleanup()


async def script_first_select_maildir(hist: History, tr: Tracker) -> None:
    """Defect #18b: three deliveries into new/, directory listed in reverse
    delivery order; the first read-write SELECT must see all three \\Recent."""
    global _LISTDIR_REVERSE
    env = await make_env('maildir')
    try:
        a = Session(env, hist, 1, Sched(), 1)
        await a.start()
        for _ in range(3):
            await a.append(b'INBOX')
        _LISTDIR_REVERSE = True
        if await tr.select(a, rw=True):
            nrec = sum(1 for f in a.shadow.flags if f and b'\\recent' in f)
            tr.count('first_select_checks')
            if nrec != 3:
                hist.report('unclaimed-recent-not-given-to-first-rw-select',
                            'first read-write SELECT saw %d of 3 flagged '
                            '\\Recent' % nrec)
        tr.end(a)
    finally:
        _LISTDIR_REVERSE = False
        env.cleanup()


async def script_ghost_selection(hist: History, tr: Tracker) -> None:
    """FETCH, then a refused SELECT: the de-selected mailbox object must not
    go on receiving the credit for new messages."""
    env = await make_env('dict')
    try:
        await provision(env, hist, 2, random.Random(1))
        a, b, c = (Session(env, hist, i, Sched(), i) for i in (1, 2, 3))
        for s in (a, b, c):
            await s.start()
        await tr.select(a, rw=True)
        tr.end(a)
        await a.select(b'No/Such/Mailbox')
        r = await b.append(b'INBOX')
        uids = list(r.tagged.data[1]) if r.ok and r.tagged is not None \
            and isinstance(r.tagged.data, tuple) else []
        if await tr.select(c, rw=True):
            tr.count('mid_history_first_select_checks')
            by_uid = {u: f for u, f in zip(c.shadow.uids, c.shadow.flags)}
            missing = [u for u in uids
                       if not (by_uid.get(u) and b'\\recent' in by_uid[u])]
            if missing or not uids:
                hist.report('unclaimed-recent-not-given-to-first-rw-select:'
                            'after-deselection',
                            'after a refused SELECT had ended the only '
                            'selection, UIDs %r were delivered; the next '
                            'read-write SELECT was not given %r flagged '
                            '\\Recent' % (uids, missing))
        tr.end(c)
    finally:
        env.cleanup()


async def script_examiner_appends(hist: History, tr: Tracker) -> None:
    """A session that has the mailbox selected read-only appends into it:
    the message must be \\Recent for the next read-write SELECT."""
    env = await make_env('dict')
    try:
        await provision(env, hist, 1, random.Random(1))
        a, b = (Session(env, hist, i, Sched(), i) for i in (1, 2))
        for s in (a, b):
            await s.start()
        await tr.select(a, rw=False)
        r = await a.append(b'INBOX')
        uids = list(r.tagged.data[1]) if r.ok and r.tagged is not None \
            and isinstance(r.tagged.data, tuple) else []
        if await tr.select(b, rw=True):
            tr.count('mid_history_first_select_checks')
            by_uid = {u: f for u, f in zip(b.shadow.uids, b.shadow.flags)}
            missing = [u for u in uids
                       if not (by_uid.get(u) and b'\\recent' in by_uid[u])]
            if missing or not uids:
                hist.report('unclaimed-recent-not-given-to-first-rw-select:'
                            'appended-by-examining-session',
                            'UIDs %r were appended by a session that has '
                            'the mailbox selected read-only; the next '
                            'read-write SELECT was not given %r flagged '
                            '\\Recent' % (uids, missing))
        tr.end(b)
        tr.end(a)
    finally:
        env.cleanup()


class C17(Check):
    pid = 'C17'
    level = 'exploration'
    rule = ('case = deliveries while nobody has the mailbox selected, an '
            'optional EXAMINE, the first read-write SELECT, then 2-3 '
            'sessions concurrently selecting/examining/closing/reselecting '
            'while APPEND (also with a literal \\Recent flag) and COPY '
            'arrive, under one external-event schedule, then every '
            'selection ends (CLOSE / LOGOUT / other mailbox / EXAMINE / '
            'EOF / reset / refused SELECT), deliveries arrive and the next '
            'read-write SELECT must be given them \\Recent; maildir runs with a '
            'shuffled os.listdir order; distinct = hash of the completion '
            'order; non-trivial = at least 2 read-write selections and one '
            'message told \\Recent')
    assumptions = [
        'the unit that may be told \\Recent once is the read-write selection '
        '(a connection that re-selects starts a new one)',
        'POSIX leaves os.listdir order unspecified, so shuffling it is a '
        'legal environment']
    floors = {'selections_rw': 2000, 'messages_told_recent': 2000,
              'recent_count_comparisons': 1500, 'first_select_checks': 500,
              'mid_history_first_select_checks': 500}

    def cases(self, tier: str, seed: int) -> Iterable[dict[str, Any]]:
        n = 1500 if tier == 'quick' else 40000
        rng = random.Random(seed * 2741 + 17)
        for i in range(n):
            nsess = rng.choice([2, 3, 3])
            backend = 'dict' if rng.random() < 0.75 else \
                ('maildir-colon' if i % 3 == 0 else 'maildir')
            yield {'seed': seed * 1_000_003 + i, 'backend': backend,
                   'nsess': nsess, 'nmsgs': rng.randint(0, 3),
                   'ncmds': rng.randint(3, 10 if backend == 'dict' else 6),
                   'sched': schedule_family(rng, nsess)}

    def setup_worker(self) -> None:
        install_glass()
        os.listdir = _shuffled_listdir      # type: ignore[assignment]

    def run_case(self, spec: dict[str, Any]) -> dict[str, Any]:
        random.seed(spec.get('seed', 0))
        hist = History(str(spec.get('seed', 0)))
        tr = Tracker(hist)

        async def main(loop: L.CtlLoop) -> None:
            if spec.get('script') == 'first-select-maildir':
                await script_first_select_maildir(hist, tr)
            elif spec.get('script') == 'ghost-selection':
                await script_ghost_selection(hist, tr)
            elif spec.get('script') == 'examiner-appends':
                await script_examiner_appends(hist, tr)
            elif 'script' in spec:
                await script_append_recent(hist, tr,
                                           spec.get('backend', 'dict'))
            else:
                await run_c17(spec, hist, tr)

        try:
            L.run(main, max_steps=800_000)
        except L.Deadlock:
            hist.aborted = 'deadlock'
        tr.final()
        counters = summarize(hist)
        counters.update(tr.counters)
        aborted = hist.aborted
        for s in hist.sessions:
            if s.failed and aborted is None and \
                    not getattr(s, 'retired', False):
                aborted = 'session-' + s.failed
        mine = ('recent-count-disagrees', 'recent-told-to-two-rw-selections',
                'store-changes-recent',
                'store-changes-recent:pending-count',
                'unclaimed-recent-not-given-to-first-rw-select',
                'unclaimed-recent-not-given-to-first-rw-select:'
                'after-deselection',
                'unclaimed-recent-not-given-to-first-rw-select:'
                'appended-by-examining-session')
        viol = [v for v in hist.violations if v['mech'] in mine]
        other = [v['mech'] for v in hist.violations if v['mech'] not in mine]
        if other and not viol and aborted is None:
            aborted = 'other-property:' + other[0]
        hist.violations = viol
        hist.attach_transcripts()
        sig = hashlib.sha1(repr(hist.order).encode()).hexdigest()[:16]
        return {'violations': viol, 'counters': counters, 'sig': sig,
                'nontrivial': tr.counters.get('selections_rw', 0) >= 2 and
                tr.counters.get('messages_told_recent', 0) > 0,
                'sample': {'spec': spec, 'order': [
                    '%d:%s' % (c, v.decode()) for c, v in hist.order[:50]]},
                'aborted': aborted}


CHECK = C17()
