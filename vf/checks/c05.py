"""C05 -- the connection state machine follows RFC 3501 section 3.

Deciding monitor: a *local transition check* against a 4-state reference
automaton (NOTAUTH, AUTH, SELECTED(mailbox, rw|ro), LOGOUT).  For every step
``c`` of a command sequence the oracle knows

* the state *before* ``c`` -- revealed black-box by a fixed probe suffix that
  is appended to a CLONED RUN of the sequence prefix (fresh environment, same
  provisioning, same commands), so the probe never disturbs the sequence under
  test;
* the tagged condition ``c`` got (the last command of the clone that runs the
  prefix extended by ``c``);
* the state *after* ``c`` (probe suffix of that clone) and a dump of the
  stored data taken through separate fresh connections before the probe runs.

The automaton gives, for (state, symbol), the SET of allowed outcomes
(``OK`` / ``REFUSED`` = NO or BAD) and the state that must follow each.

Probe suffix (main connection of the clone):
``CAPABILITY`` (what is advertised), ``STATUS INBOX`` (OK <=> authenticated),
``STATUS BoxA`` / ``STATUS BoxU`` (which user), ``FETCH 1
(BODY.PEEK[HEADER.FIELDS (X-VF-BOX)])`` (refused <=> nothing selected; the
marker header says WHICH mailbox), ``STORE 1 +FLAGS.SILENT (\\Flagged)``
(NO <=> read-only).  Every message that can ever be in BoxA carries
``X-VF-BOX: A`` (BoxB: ``B``); if the selected mailbox was emptied by the
sequence the probe appends fresh markers to every candidate and fetches again.
The probe commands are themselves judged against the predicted state (a probe
FETCH that kills the connection where it had to be refused is a violation).

Latitude (allowed sets with more than one element; each use is counted in
``latitude_used``):
* write commands (STORE, EXPUNGE, MOVE and UID forms) in a read-only
  selection: OK or refused (what read-only means is C12's business); CLOSE
  must be OK in both modes;
* message-number commands while the selected mailbox holds no message: OK or
  refused (``1`` is then not a valid message number);
* commands whose success depends on stored data the automaton does not own
  (missing destination/target mailbox, CREATE of an existing name, ...): OK or
  refused (C10/C11 decide); SELECT/EXAMINE of a missing mailbox MUST be
  refused and leave nothing selected (RFC 3501 6.3.1);
* a syntactically invalid SELECT (tagged BAD) may keep or drop the selection;
* SELECT answered ``OK [READ-ONLY]`` selects read-only;
* AUTHENTICATE PLAIN when ``AUTH=PLAIN`` is not advertised: OK or refused;
  LOGIN while ``LOGINDISABLED`` is advertised must be refused (RFC 2595 3.2);
* IDLE terminated by something other than DONE: OK or refused;
* ID, IDLE, MOVE, UID EXPUNGE in their right state while the capability (ID,
  IDLE, MOVE, UIDPLUS) is not advertised: OK or refused.
A command that had to be refused and instead kills the connection (no tagged
NO/BAD) is a violation of this property; a death anywhere else is an aborted
trace (owned by C06).
"""

from __future__ import annotations

import base64
import hashlib
import os
import random
import re
from typing import Any, Iterable, NamedTuple

from .. import loop as L
from .. import shadow
from ..net import Conn, Result, Sched
from ..runner import Check
from ..servers import HASH, Env, FakeArgs, make_env

USERS = {'u1': 'pw1', 'u2': 'pw2'}
CONFIGS = ('dict', 'dict-tls', 'dict-tls-remote', 'maildir')
REMOTE_PEER = ('10.1.2.3', 40000)
_marker_re = re.compile(rb'X-VF-BOX:[ \t]*([A-Za-z0-9]+)', re.I)


def marker_msg(m: bytes) -> bytes:
    return (b'From: marker@example.com\r\nSubject: marker ' + m +
            b'\r\nX-VF-BOX: ' + m + b'\r\n\r\nbody of ' + m + b'\r\n')


def _plain(user: str, pw: str) -> bytes:
    return base64.b64encode(b'\0' + user.encode() + b'\0' + pw.encode())


def _lit(data: bytes) -> bytes:
    return b'{%d+}\r\n' % len(data) + data


# --------------------------------------------------------------------------
# alphabet


class Sym(NamedTuple):
    name: str
    klass: str            # any | nonauth | auth | selected
    cmd: str              # command name used in mechanism ids
    kind: str             # valid | invalid | missing | badcred | ...
    first: bytes          # command line without tag and CRLF
    follow: tuple[bytes, ...] = ()   # answers to continuation requests
    write: bool = False   # needs a read-write selection
    msgset: bool = False  # addresses message number 1
    needs: tuple[str, ...] = ()      # mailboxes that must exist
    absent: tuple[str, ...] = ()     # mailboxes that must not exist
    sel: tuple[str, bool] | None = None   # (mailbox, examine?)


_A = marker_msg(b'A')
_SYMS = [
    # any state
    Sym('CAPABILITY', 'any', 'CAPABILITY', 'valid', b'CAPABILITY'),
    Sym('NOOP', 'any', 'NOOP', 'valid', b'NOOP'),
    Sym('NOOP_INV', 'any', 'NOOP', 'invalid', b'NOOP now'),
    Sym('ID_NIL', 'any', 'ID', 'valid', b'ID NIL'),
    Sym('ID_LIST', 'any', 'ID', 'valid', b'ID ("name" "vf")'),
    Sym('ID_INV', 'any', 'ID', 'invalid', b'ID ("name")'),
    Sym('LOGOUT', 'any', 'LOGOUT', 'valid', b'LOGOUT'),
    Sym('LOGOUT_INV', 'any', 'LOGOUT', 'invalid', b'LOGOUT now'),
    Sym('UNKNOWN', 'any', 'UNKNOWN', 'invalid', b'XBOGUS 1'),
    # not authenticated only
    Sym('LOGIN_OK', 'nonauth', 'LOGIN', 'valid', b'LOGIN u1 pw1'),
    Sym('LOGIN_BADPW', 'nonauth', 'LOGIN', 'badcred', b'LOGIN u1 wrong'),
    Sym('LOGIN_INV', 'nonauth', 'LOGIN', 'invalid', b'LOGIN u1'),
    Sym('AUTH_OK', 'nonauth', 'AUTHENTICATE', 'valid', b'AUTHENTICATE PLAIN',
        (_plain('u1', 'pw1'),)),
    Sym('AUTH_U2', 'nonauth', 'AUTHENTICATE', 'valid', b'AUTHENTICATE PLAIN',
        (_plain('u2', 'pw2'),)),
    Sym('AUTH_BADPW', 'nonauth', 'AUTHENTICATE', 'badcred',
        b'AUTHENTICATE PLAIN', (_plain('u1', 'wrong'),)),
    Sym('AUTH_CANCEL', 'nonauth', 'AUTHENTICATE', 'badcred',
        b'AUTHENTICATE PLAIN', (b'*',)),
    Sym('AUTH_BOGUS', 'nonauth', 'AUTHENTICATE', 'badcred',
        b'AUTHENTICATE XBOGUS', (b'*',)),
    Sym('AUTH_INV', 'nonauth', 'AUTHENTICATE', 'invalid', b'AUTHENTICATE'),
    Sym('STARTTLS', 'nonauth', 'STARTTLS', 'valid', b'STARTTLS'),
    Sym('STARTTLS_INV', 'nonauth', 'STARTTLS', 'invalid', b'STARTTLS now'),
    # authenticated
    Sym('SELECT_A', 'auth', 'SELECT', 'valid', b'SELECT BoxA',
        sel=('BoxA', False)),
    Sym('SELECT_B', 'auth', 'SELECT', 'valid', b'SELECT BoxB',
        sel=('BoxB', False)),
    Sym('EXAMINE_A', 'auth', 'EXAMINE', 'valid', b'EXAMINE BoxA',
        sel=('BoxA', True)),
    Sym('EXAMINE_B', 'auth', 'EXAMINE', 'valid', b'EXAMINE BoxB',
        sel=('BoxB', True)),
    Sym('SELECT_MISSING', 'auth', 'SELECT', 'missing', b'SELECT Missing',
        sel=('Missing', False)),
    Sym('EXAMINE_MISSING', 'auth', 'EXAMINE', 'missing', b'EXAMINE Missing',
        sel=('Missing', True)),
    # RFC 4466 select parameters: the server may refuse them (NO/BAD), but a
    # refused SELECT/EXAMINE leaves no mailbox selected
    Sym('SELECT_B_PARAMS', 'auth', 'SELECT', 'params',
        b'SELECT BoxB (CONDSTORE)', sel=('BoxB', False)),
    Sym('EXAMINE_A_PARAMS', 'auth', 'EXAMINE', 'params',
        b'EXAMINE BoxA (QRESYNC (1 1))', sel=('BoxA', True)),
    Sym('SELECT_INV', 'auth', 'SELECT', 'invalid', b'SELECT'),
    Sym('CREATE_NEW', 'auth', 'CREATE', 'valid', b'CREATE New',
        absent=('New',)),
    Sym('CREATE_INV', 'auth', 'CREATE', 'invalid', b'CREATE'),
    Sym('DELETE_TMP', 'auth', 'DELETE', 'valid', b'DELETE Tmp',
        needs=('Tmp',)),
    Sym('DELETE_MISSING', 'auth', 'DELETE', 'missing', b'DELETE Missing',
        needs=('Missing',)),
    Sym('RENAME_TMP', 'auth', 'RENAME', 'valid', b'RENAME Tmp2 Tmp3',
        needs=('Tmp2',), absent=('Tmp3',)),
    Sym('RENAME_MISSING', 'auth', 'RENAME', 'missing',
        b'RENAME Missing Other', needs=('Missing',)),
    Sym('SUBSCRIBE', 'auth', 'SUBSCRIBE', 'valid', b'SUBSCRIBE BoxA',
        needs=('BoxA',)),
    Sym('UNSUBSCRIBE', 'auth', 'UNSUBSCRIBE', 'valid', b'UNSUBSCRIBE BoxB',
        needs=('BoxB', 'sub:BoxB')),
    Sym('LIST', 'auth', 'LIST', 'valid', b'LIST "" *'),
    Sym('LIST_INV', 'auth', 'LIST', 'invalid', b'LIST'),
    Sym('LSUB', 'auth', 'LSUB', 'valid', b'LSUB "" *'),
    Sym('STATUS_A', 'auth', 'STATUS', 'valid',
        b'STATUS BoxA (MESSAGES UIDNEXT)', needs=('BoxA',)),
    Sym('STATUS_MISSING', 'auth', 'STATUS', 'missing',
        b'STATUS Missing (MESSAGES)', needs=('Missing',)),
    Sym('STATUS_INV', 'auth', 'STATUS', 'invalid', b'STATUS BoxA'),
    Sym('APPEND_A', 'auth', 'APPEND', 'valid',
        b'APPEND BoxA {%d}' % len(_A), (_A,), needs=('BoxA',)),
    Sym('APPEND_MISSING', 'auth', 'APPEND', 'missing',
        b'APPEND Missing ' + _lit(_A), needs=('Missing',)),
    Sym('APPEND_INV', 'auth', 'APPEND', 'invalid', b'APPEND BoxA'),
    # selected
    Sym('CHECK', 'selected', 'CHECK', 'valid', b'CHECK'),
    Sym('CLOSE', 'selected', 'CLOSE', 'valid', b'CLOSE'),
    Sym('EXPUNGE', 'selected', 'EXPUNGE', 'valid', b'EXPUNGE', write=True),
    Sym('SEARCH', 'selected', 'SEARCH', 'valid', b'SEARCH ALL'),
    Sym('SEARCH_INV', 'selected', 'SEARCH', 'invalid', b'SEARCH XBOGUSKEY'),
    Sym('FETCH', 'selected', 'FETCH', 'valid', b'FETCH 1 (FLAGS)',
        msgset=True),
    Sym('FETCH_INV', 'selected', 'FETCH', 'invalid', b'FETCH 1'),
    Sym('STORE_SEEN', 'selected', 'STORE', 'valid',
        b'STORE 1 +FLAGS (\\Seen)', write=True, msgset=True),
    Sym('STORE_DEL', 'selected', 'STORE', 'valid',
        b'STORE 1 +FLAGS (\\Deleted)', write=True, msgset=True),
    Sym('STORE_INV', 'selected', 'STORE', 'invalid', b'STORE 1 +FLAGS'),
    Sym('COPY', 'selected', 'COPY', 'valid', b'COPY 1 Sink', msgset=True,
        needs=('Sink',)),
    Sym('COPY_MISSING', 'selected', 'COPY', 'missing', b'COPY 1 Missing',
        msgset=True, needs=('Missing',)),
    Sym('MOVE', 'selected', 'MOVE', 'valid', b'MOVE 1 Sink', write=True,
        msgset=True, needs=('Sink',)),
    Sym('UID_FETCH', 'selected', 'FETCH', 'valid', b'UID FETCH 1:* (FLAGS)'),
    Sym('UID_STORE', 'selected', 'STORE', 'valid',
        b'UID STORE 1:* +FLAGS (\\Answered)', write=True),
    Sym('UID_SEARCH', 'selected', 'SEARCH', 'valid', b'UID SEARCH ALL'),
    Sym('UID_COPY', 'selected', 'COPY', 'valid', b'UID COPY 1:* Sink',
        needs=('Sink',)),
    Sym('UID_MOVE', 'selected', 'MOVE', 'valid', b'UID MOVE 1:* Sink',
        write=True, needs=('Sink',)),
    Sym('UID_EXPUNGE', 'selected', 'EXPUNGE', 'valid', b'UID EXPUNGE 1:*',
        write=True),
    Sym('UID_INV', 'selected', 'UID', 'invalid', b'UID XBOGUS 1'),
    Sym('IDLE', 'selected', 'IDLE', 'valid', b'IDLE', (b'DONE',)),
    Sym('IDLE_BADDONE', 'selected', 'IDLE', 'baddone', b'IDLE',
        (b'NOTDONE',)),
]
SYMS: dict[str, Sym] = {s.name: s for s in _SYMS}
ALPHABET: list[str] = [s.name for s in _SYMS]
#: prefixes of the depth-3 sweep: every built-in command with valid arguments,
#: the credential / missing-mailbox variants that matter for the state, and
#: one invalid-argument variant per command class (an invalid command is
#: answered by the parser before any state is looked at)
_NOT_CORE = {'NOOP_INV', 'ID_LIST', 'ID_INV', 'UNKNOWN', 'AUTH_INV',
             'AUTH_BOGUS', 'STARTTLS_INV', 'CREATE_INV', 'LIST_INV',
             'STATUS_INV', 'APPEND_INV', 'SEARCH_INV', 'STORE_INV', 'UID_INV',
             'DELETE_MISSING', 'RENAME_MISSING', 'STATUS_MISSING',
             'IDLE_BADDONE'}
CORE: list[str] = [n for n in ALPHABET if n not in _NOT_CORE]

#: prefixes of the (state x symbol) matrix; the first N_CANONICAL lead to
#: pairwise different probe-revealed states
N_CANONICAL = 7
MATRIX_PREFIXES: list[list[str]] = [
    [], ['LOGIN_OK'], ['AUTH_U2'],
    ['LOGIN_OK', 'SELECT_A'], ['LOGIN_OK', 'EXAMINE_A'],
    ['AUTH_OK', 'SELECT_B'], ['AUTH_OK', 'EXAMINE_B'],
    # a selection that was emptied, a deselected one
    ['LOGIN_OK', 'SELECT_A', 'MOVE'], ['LOGIN_OK', 'SELECT_A', 'CLOSE'],
    ['LOGIN_OK', 'SELECT_A', 'SELECT_MISSING'],
    ['LOGIN_OK', 'EXAMINE_A', 'CLOSE'],
]


# --------------------------------------------------------------------------
# observed state


class St(NamedTuple):
    phase: str                 # NOTAUTH | AUTH | SELECTED | LOGOUT | UNKNOWN
    user: str | None = None
    box: str | None = None
    mode: str | None = None    # rw | ro

    def label(self) -> str:
        if self.phase == 'SELECTED':
            return 'SELECTED-%s' % (self.mode or '?')
        return self.phase


def describe(st: St) -> str:
    if st.phase == 'SELECTED':
        return 'SELECTED(%s,%s,%s)' % (st.user, st.box, st.mode)
    if st.phase == 'AUTH':
        return 'AUTH(%s)' % st.user
    return st.phase


class Obs:
    """Everything one clone run of a prefix revealed."""

    def __init__(self) -> None:
        self.results: list[tuple[str | None, bytes | None]] = []
        self.last: Result | None = None
        self.unsent = 0               # symbols not sent (connection gone)
        self.stuck = False
        self.alive = False
        self.closed = False
        self.task_exc: str | None = None
        self.tail_after_tagged = 0    # responses after the last tagged one
        self.pending = b''
        self.state = St('UNKNOWN')
        self.caps: tuple[bytes, ...] = ()
        self.probe: list[tuple[str, str | None]] = []
        self.probe_died_on: str | None = None
        self.inconsistent: str | None = None
        self.glass: dict[str, Any] | None = None
        self.dump: dict[str, Any] = {}
        self.ids: dict[str, bytes] = {}
        self.transcript: list[str] = []
        self.probe_from = 0


class Ctx:
    def __init__(self, cfg: str) -> None:
        self.cfg = cfg
        self.violations: list[dict[str, Any]] = []
        self.counters: dict[str, int] = {}
        self.aborted: str | None = None
        self.pairs: set[tuple[str, str]] = set()
        #: IDLE followed by a one-line command: DONE and that command are
        #: sent in one segment (a client need not wait for IDLE's tagged OK)
        self.pipe_idle = False

    def count(self, k: str, n: int = 1) -> None:
        self.counters[k] = self.counters.get(k, 0) + n

    def report(self, mech: str, detail: str, **w: Any) -> None:
        if any(v['mech'] == mech for v in self.violations):
            return
        if len(self.violations) < 12:
            self.violations.append({'mech': mech, 'detail': detail,
                                    'witness': w})


# --------------------------------------------------------------------------
# environments


async def build_env(cfg: str) -> Env:
    """Real servers; ``bad_command_limit`` is switched off so that a run of
    refused commands is not cut short by ``BYE Too many errors`` (that
    disconnect is RFC-legal and belongs to C06)."""
    if cfg == 'dict':
        return await make_env('dict', USERS, bad_command_limit=None)
    if cfg in ('dict-tls', 'dict-tls-remote'):
        # same as servers.make_dict, but with ``args.tls`` true: the config
        # derives tls_enabled from the arguments
        from pymap.backend.dict import DictBackend
        from pymap.concurrent import Subsystem
        from pymap.imap import IMAPServer
        from pymap.sieve.manage import ManageSieveServer
        from pymap.user import UserMetadata
        args = FakeArgs(demo_data=None, demo_user='testuser',
                        demo_password='testpass', tls=True)
        backend, config = await DictBackend.init(
            args, hash_context=HASH, invalid_user_sleep=0.0,
            cpu_subsystem=Subsystem.for_asyncio(), bad_command_limit=None)
        login = backend.login
        env = Env('dict', backend, config, login, IMAPServer(login, config),
                  ManageSieveServer(login, config))
        for name, pw in USERS.items():
            hashed = config.hash_context.hash(config.password_prep(pw))
            login.users_dict[name] = UserMetadata(
                config, name, password=hashed, roles=frozenset(),
                entity_tag=1)
            env.users[name] = pw
        return env
    if cfg == 'maildir':
        # tmpfs when there is one: a clone run creates and removes ~40 dirs
        where = '/dev/shm' if os.access('/dev/shm', os.W_OK) else None
        return await make_env('maildir', USERS, bad_command_limit=None,
                              where=where)
    raise ValueError(cfg)


class HarnessError(RuntimeError):
    pass


def _memoize_entry_points() -> None:
    """pysasl re-reads the metadata of every installed distribution
    (importlib.metadata.entry_points, ~10 ms) twice per new connection; a
    clone run opens five connections.  The lookup is a pure function of the
    installed packages, so the harness memoizes it (third-party library, not
    the code under test; behaviour is unchanged)."""
    try:
        import pysasl
        orig = pysasl.entry_points
        if getattr(orig, '_vf_memo', False):
            return
        cache: dict[Any, Any] = {}

        def entry_points(**kw: Any) -> Any:
            key = tuple(sorted(kw.items()))
            if key not in cache:
                cache[key] = orig(**kw)
            return cache[key]

        entry_points._vf_memo = True      # type: ignore[attr-defined]
        pysasl.entry_points = entry_points
    except Exception:
        pass


async def _must(conn: Conn, line: bytes) -> Result:
    r = await conn.simple(line, delay=False)
    if not r.ok:
        raise HarnessError('provisioning/dump command refused: %r -> %r' % (
            line[:60], r.tagged.raw if r.tagged else None))
    return r


async def _finish(conn: Conn) -> None:
    # the helper simply goes away (EOF); LOGOUT is a command under test
    conn.feed_eof()
    await _settle(conn)


async def provision(env: Env) -> None:
    c = Conn(7, Sched())
    c.start(env.imap)
    await c.greeting()
    await _must(c, b'LOGIN u1 pw1')
    for box in (b'BoxA', b'BoxB', b'Sink', b'Tmp', b'Tmp2'):
        await _must(c, b'CREATE ' + box)
    await _must(c, b'APPEND BoxA ' + _lit(marker_msg(b'A')))
    await _must(c, b'APPEND BoxB ' + _lit(marker_msg(b'B')))
    await _must(c, b'SUBSCRIBE BoxB')
    await _finish(c)
    c = Conn(6, Sched())
    c.start(env.imap)
    await c.greeting()
    await _must(c, b'LOGIN u2 pw2')
    await _must(c, b'CREATE BoxU')
    await _must(c, b'APPEND BoxU ' + _lit(marker_msg(b'U')))
    await _finish(c)


DUMP_BOXES = (b'BoxA', b'BoxB', b'Sink')


def _status_att(r: Result) -> dict[bytes, Any]:
    for u in r.untagged:
        if u.typ == b'STATUS' and isinstance(u.data, dict):
            return u.data.get('att') or {}
    return {}


async def take_dump(env: Env, obs: Obs) -> None:
    """Stored data as seen by fresh sessions.  ``\\Recent`` is session
    state (a read-write SELECT legitimately consumes it) and is stripped;
    UIDVALIDITY and object ids differ between environments and are kept
    apart (``obs.ids``)."""
    dump: dict[str, Any] = {}
    for user, pw, cid in (('u1', 'pw1', 8), ('u2', 'pw2', 9)):
        c = Conn(cid, Sched())
        c.start(env.imap)
        await c.greeting()
        await _must(c, b'LOGIN %s %s' % (user.encode(), pw.encode()))
        r = await _must(c, b'LIST "" *')
        dump[user + ':list'] = sorted(
            [u.data['name'].decode('latin-1'),
             sorted(a.decode('latin-1').lower() for a in u.data['attrs'])]
            for u in r.untagged if u.typ == b'LIST'
            and isinstance(u.data, dict))
        r = await _must(c, b'LSUB "" *')
        dump[user + ':lsub'] = sorted(
            u.data['name'].decode('latin-1') for u in r.untagged
            if u.typ == b'LSUB' and isinstance(u.data, dict))
        for box in ((b'INBOX', b'BoxU') if user == 'u2' else (b'INBOX',)):
            r = await c.simple(b'STATUS ' + box + b' (MESSAGES UIDNEXT)',
                               delay=False)
            att = _status_att(r)
            dump['%s:%s:status' % (user, box.decode())] = [
                (r.cond or b'').decode(), att.get(b'MESSAGES'),
                att.get(b'UIDNEXT')]
        for box in (DUMP_BOXES if user == 'u1' else ()):
            key = '%s:%s' % (user, box.decode())
            r = await c.simple(
                b'STATUS ' + box + b' (MESSAGES UIDNEXT MAILBOXID)',
                delay=False)
            att = _status_att(r)
            dump[key + ':status'] = [
                (r.cond or b'').decode(), att.get(b'MESSAGES'),
                att.get(b'UIDNEXT')]
            if isinstance(att.get(b'MAILBOXID'), bytes):
                obs.ids[box.decode()] = att[b'MAILBOXID']
            if not r.ok:
                continue
            r = await c.simple(b'EXAMINE ' + box, delay=False)
            if not r.ok:
                dump[key + ':msgs'] = 'examine-refused'
                continue
            r = await c.simple(
                b'UID FETCH 1:* (UID FLAGS '
                b'BODY.PEEK[HEADER.FIELDS (X-VF-BOX)])', delay=False)
            msgs = []
            for u in r.untagged:
                if u.typ == b'FETCH' and isinstance(u.data, dict):
                    flags = sorted(
                        f.decode('latin-1').lower()
                        for f in (u.data.get(b'FLAGS') or [])
                        if f.lower() != b'\\recent')
                    msgs.append([u.data.get(b'UID'), flags,
                                 _marker_of(u.data)])
            dump[key + ':msgs'] = sorted(msgs, key=repr)
        await _finish(c)
    obs.dump = dump


def _marker_of(att: dict[bytes, Any]) -> str | None:
    for v in att.values():
        if isinstance(v, bytes):
            m = _marker_re.search(v)
            if m:
                return m.group(1).decode()
    return None


def dump_diff(a: dict[str, Any], b: dict[str, Any]) -> list[str]:
    out = []
    for k in sorted(set(a) | set(b)):
        if a.get(k) != b.get(k):
            out.append('%s: %r -> %r' % (k, a.get(k), b.get(k)))
    return out


# --------------------------------------------------------------------------
# one clone run


async def _settle(conn: Conn) -> None:
    await conn.loop.quiescent()        # type: ignore[attr-defined]


async def send(conn: Conn, first: bytes, follow: tuple[bytes, ...] = ()) \
        -> Result | None:
    """One command incl. its continuation answers.  None = the server sits
    waiting for input the script does not have (judged by C06, not here)."""
    tag = conn.next_tag()
    segs = [tag + b' ' + first + b'\r\n'] + [f + b'\r\n' for f in follow]
    task = conn.loop.create_task(conn.command(tag, segs, delay=False))
    for rnd in range(4):
        await _settle(conn)
        if task.done():
            break
        # nothing runnable: let pending timers (if any) fire once
        await conn.loop.advance(1.0)   # type: ignore[attr-defined]
    if not task.done():
        await _settle(conn)
    if not task.done():
        task.cancel()
        try:
            await task
        except BaseException:
            pass
        return None
    return task.result()


def _cond(r: Result | None) -> str | None:
    """OK | REFUSED | DIED (no tagged completion) | STUCK | OTHER."""
    if r is None:
        return 'STUCK'
    if r.tagged is None:
        return 'DIED'
    if r.cond == b'OK':
        return 'OK'
    if r.cond in (b'NO', b'BAD'):
        return 'REFUSED'
    return 'OTHER'


def read_glass(conn: Conn) -> dict[str, Any] | None:
    ref = getattr(conn, 'state_ref', None)
    st = ref() if ref is not None else None
    if st is None:
        return None
    try:
        sel = st._selected
        out: dict[str, Any] = {'auth': st._session is not None,
                               'selected': sel is not None,
                               'readonly': None, 'mailbox_id': None}
        if sel is not None:
            out['readonly'] = bool(sel.readonly)
            out['mailbox_id'] = bytes(sel.mailbox_id.value)
        return out
    except AttributeError:
        return None


async def run_probe(conn: Conn, obs: Obs) -> None:
    """Reveal the connection state; fills obs.state / caps / probe."""

    async def p(name: str, line: bytes) -> Result | None:
        if conn.dead:
            obs.probe.append((name, 'DIED'))
            if obs.probe_died_on is None:
                obs.probe_died_on = name
            return None
        r = await send(conn, line)
        c = _cond(r)
        obs.probe.append((name, c))
        if c in ('DIED', 'STUCK') and obs.probe_died_on is None:
            obs.probe_died_on = name
        return r

    r = await p('CAPABILITY', b'CAPABILITY')
    if r is not None:
        for u in r.untagged:
            if u.typ == b'CAPABILITY' and isinstance(u.data, list):
                obs.caps = tuple(c.upper() for c in u.data)
    r_inbox = await p('STATUS-INBOX', b'STATUS INBOX (MESSAGES)')
    r_a = await p('STATUS-BoxA', b'STATUS BoxA (MESSAGES)')
    r_u = await p('STATUS-BoxU', b'STATUS BoxU (MESSAGES)')
    fetch = b'FETCH 1 (BODY.PEEK[HEADER.FIELDS (X-VF-BOX)])'
    r_f = await p('FETCH', fetch)
    marker: str | None = None
    if r_f is not None and r_f.ok:
        marker = _fetch_marker(r_f)
        if marker is None:
            # the selected mailbox is empty: put a fresh marker into every
            # candidate (the clone is thrown away) and look again
            for box, m in ((b'BoxA', b'A'), (b'BoxB', b'B'), (b'BoxU', b'U')):
                await p('APPEND-' + box.decode(),
                        b'APPEND ' + box + b' ' + _lit(marker_msg(m)))
            await p('NOOP', b'NOOP')
            r_f2 = await p('FETCH-again', fetch)
            if r_f2 is not None and r_f2.ok:
                marker = _fetch_marker(r_f2)
    r_s = await p('STORE', b'STORE 1 +FLAGS.SILENT (\\Flagged)')
    if obs.probe_died_on is not None:
        obs.state = St('UNKNOWN')
        return
    conds = dict(obs.probe)
    authed = conds['STATUS-INBOX'] == 'OK'
    has_a, has_u = conds['STATUS-BoxA'] == 'OK', conds['STATUS-BoxU'] == 'OK'
    selected = conds['FETCH'] == 'OK'
    user: str | None = None
    if authed:
        user = 'u1' if has_a and not has_u else \
            'u2' if has_u and not has_a else '?'
    if not authed and (has_a or has_u or selected
                       or conds['STORE'] == 'OK'):
        obs.inconsistent = 'mailbox-access-without-authentication'
    elif not selected and conds['STORE'] == 'OK':
        obs.inconsistent = 'store-accepted-while-fetch-refused'
    if obs.inconsistent:
        obs.state = St('UNKNOWN')
        return
    if not authed:
        obs.state = St('NOTAUTH')
    elif not selected:
        obs.state = St('AUTH', user)
    else:
        which = {'A': 'BoxA', 'B': 'BoxB', 'U': 'BoxU'}.get(marker or '', '?')
        mode = 'rw' if conds['STORE'] == 'OK' else \
            'ro' if (r_s is not None and r_s.cond == b'NO') else '?'
        obs.state = St('SELECTED', user, which, mode)


def _fetch_marker(r: Result) -> str | None:
    for u in r.untagged:
        if u.typ == b'FETCH' and u.num == 1 and isinstance(u.data, dict):
            m = _marker_of(u.data)
            if m:
                return m
    return None


async def observe(cfg: str, syms: list[str], ctx: Ctx) -> Obs:
    obs = Obs()
    env = await build_env(cfg)
    conns: list[Conn] = []
    try:
        await provision(env)
        peer = REMOTE_PEER if cfg.endswith('-remote') else ('127.0.0.1', 40000)
        conn = Conn(1, Sched(), peer=peer)
        conns.append(conn)
        conn.start(env.imap)
        await conn.greeting()
        skip = False
        for i, name in enumerate(syms):
            if skip:
                skip = False
                continue
            if conn.dead or obs.stuck:
                obs.unsent += 1
                obs.results.append((None, None))
                continue
            sym = SYMS[name]
            nxt = SYMS[syms[i + 1]] if i + 1 < len(syms) else None
            if ctx.pipe_idle and name == 'IDLE' and nxt is not None \
                    and not nxt.follow and b'{' not in nxt.first:
                tag2 = conn.next_tag()
                r = await send(conn, sym.first,
                               (b'DONE\r\n' + tag2 + b' ' + nxt.first,))
                c = _cond(r)
                obs.results.append((c, r.tagged.code if r is not None
                                    and r.tagged is not None else None))
                ctx.count('pipelined_after_idle')
                r2 = None
                if r is not None:
                    task = conn.loop.create_task(
                        conn.command(tag2, [b''], delay=False))
                    for _ in range(4):
                        await _settle(conn)
                        if task.done():
                            break
                        await conn.loop.advance(1.0)    # type: ignore
                    if task.done():
                        r2 = task.result()
                    else:
                        task.cancel()
                obs.results.append((_cond(r2), r2.tagged.code
                                    if r2 is not None and r2.tagged is not None
                                    else None))
                obs.last = r2
                if r is None or r2 is None:
                    obs.stuck = True
                skip = True
                continue
            r = await send(conn, sym.first, sym.follow)
            c = _cond(r)
            obs.results.append((c, r.tagged.code if r is not None
                                and r.tagged is not None else None))
            obs.last = r
            if r is None:
                obs.stuck = True
        await _settle(conn)
        ctx.count('clone_runs')
        obs.alive = not conn.dead and not obs.stuck
        obs.closed = conn.closed
        if conn.task_exc is not None:
            obs.task_exc = repr(conn.task_exc)
        # anything after the last tagged response?
        n = 0
        for resp in reversed(conn.responses):
            if resp.kind == 'tagged':
                break
            n += 1
        obs.tail_after_tagged = n if any(
            resp.kind == 'tagged' for resp in conn.responses) else 0
        obs.pending = bytes(conn.framer.pending)
        if obs.alive:
            obs.glass = read_glass(conn)
        await take_dump(env, obs)
        obs.probe_from = len(conn.transcript)
        if obs.alive:
            await run_probe(conn, obs)
            ctx.count('probe_runs')
        else:
            obs.state = St('LOGOUT') if conn.dead else St('UNKNOWN')
        obs.transcript = conn.dump()
        obs.probe_from = min(obs.probe_from, len(obs.transcript))
        conn.feed_eof()
        await _settle(conn)
    finally:
        env.cleanup()
    return obs


# --------------------------------------------------------------------------
# the reference automaton


class Exp(NamedTuple):
    allowed: frozenset[str]            # subset of {OK, REFUSED}
    wrong: str | None                  # which gate must refuse it
    after_ok: St | None                # None = n/a
    after_refused: tuple[St, ...]      # allowed states after a refusal
    latitude: str | None
    why: str


_OK = frozenset({'OK'})
_REF = frozenset({'REFUSED'})
_ANY = frozenset({'OK', 'REFUSED'})
#: commands that exist only if the capability is advertised
EXTENSION = {'ID': b'ID', 'IDLE': b'IDLE', 'MOVE': b'MOVE'}


def names_of(dump: dict[str, Any], user: str | None) -> set[str]:
    out = set()
    for name, _ in dump.get('%s:list' % user, []):
        out.add(name)
    for name in dump.get('%s:lsub' % user, []):
        out.add('sub:' + name)
    return out


def selected_count(dump: dict[str, Any], st: St) -> int | None:
    if st.user != 'u1' or st.box is None:
        return None
    s = dump.get('u1:%s:status' % st.box)
    return s[1] if s else None


def expect(sym: Sym, st: St, caps: tuple[bytes, ...],
           dump: dict[str, Any], code: bytes | None) -> Exp:
    same: tuple[St, ...] = (st,)
    authed = st.phase in ('AUTH', 'SELECTED')
    if sym.kind == 'invalid':
        after = same
        if sym.cmd == 'SELECT' and st.phase == 'SELECTED':
            after = (st, St('AUTH', st.user))
        return Exp(_REF, None, None, after, None, 'invalid arguments')
    ext = b'UIDPLUS' if sym.name == 'UID_EXPUNGE' \
        else EXTENSION.get(sym.cmd)
    unadvertised = ext is not None and ext not in caps
    ext_name = (ext or b'').decode()
    if sym.klass == 'any':
        if sym.cmd == 'LOGOUT':
            return Exp(_OK, None, St('LOGOUT'), same, None, 'LOGOUT')
        if unadvertised:
            return Exp(_ANY, None, st, same, 'extension-not-advertised',
                       '%s not advertised' % ext_name)
        return Exp(_OK, None, st, same, None, 'any-state command')
    if sym.klass == 'nonauth':
        if authed:
            return Exp(_REF, 'authenticated', None, same, None,
                       'already authenticated')
        if sym.cmd == 'STARTTLS':
            if b'STARTTLS' in caps:
                return Exp(_OK, None, st, same, None, 'STARTTLS advertised')
            return Exp(_REF, None, None, same, None,
                       'STARTTLS not advertised')
        if sym.kind == 'badcred':
            return Exp(_REF, None, None, same, None, 'bad credentials')
        user = 'u2' if sym.name == 'AUTH_U2' else 'u1'
        if sym.cmd == 'LOGIN':
            if b'LOGINDISABLED' in caps:
                return Exp(_REF, None, None, same, None,
                           'LOGINDISABLED advertised')
            return Exp(_OK, None, St('AUTH', user), same, None, 'LOGIN')
        if b'AUTH=PLAIN' in caps:
            return Exp(_OK, None, St('AUTH', user), same, None,
                       'AUTH=PLAIN advertised')
        return Exp(_ANY, None, St('AUTH', user), same,
                   'auth-plain-not-advertised', 'AUTH=PLAIN not advertised')
    if not authed:
        return Exp(_REF, 'not-authenticated', None, same, None,
                   'not authenticated')
    have = names_of(dump, st.user)
    data_ok = all(n in have for n in sym.needs) and \
        not any(n in have for n in sym.absent)
    if sym.klass == 'auth':
        if sym.sel is not None:
            box, examine = sym.sel
            if box in have and sym.kind == 'params':
                ro = examine or code == b'READ-ONLY'
                return Exp(_ANY, None, St('SELECTED', st.user, box,
                                          'ro' if ro else 'rw'),
                           (St('AUTH', st.user),), 'select-parameters',
                           'select parameters may be refused; then none is '
                           'selected')
            if box in have:
                ro = examine or code == b'READ-ONLY'
                lat = 'select-answered-read-only' \
                    if ro and not examine else None
                return Exp(_OK, None, St('SELECTED', st.user, box,
                                         'ro' if ro else 'rw'),
                           (St('AUTH', st.user),), lat, 'mailbox exists')
            return Exp(_REF, None, None, (St('AUTH', st.user),), None,
                       'mailbox does not exist')
        if data_ok:
            return Exp(_OK, None, st, same, None, 'authenticated command')
        return Exp(_ANY, None, st, same, 'data-dependent',
                   'outcome depends on stored data')
    # selected-state commands
    if st.phase != 'SELECTED':
        return Exp(_REF, 'none-selected', None, same, None,
                   'no mailbox selected')
    if sym.cmd == 'CLOSE':
        return Exp(_OK, None, St('AUTH', st.user), same, None, 'CLOSE')
    if unadvertised:
        return Exp(_ANY, None, st, same, 'extension-not-advertised',
                   '%s not advertised' % ext_name)
    if sym.kind == 'baddone':
        return Exp(_ANY, None, st, same, 'idle-not-done',
                   'IDLE ended by something other than DONE')
    if sym.write and st.mode != 'rw':
        return Exp(_ANY, None, st, same, 'write-in-read-only',
                   'write command in a read-only selection')
    if sym.msgset and selected_count(dump, st) in (0, None):
        return Exp(_ANY, None, st, same, 'empty-mailbox',
                   'message number 1 does not exist')
    if not data_ok:
        return Exp(_ANY, None, st, same, 'data-dependent',
                   'outcome depends on stored data')
    return Exp(_OK, None, st, same, None, 'selected command')


def probe_expect(st: St) -> dict[str, str]:
    """Which probe commands MUST be refused in the predicted state."""
    out = {}
    if st.phase == 'NOTAUTH':
        for k in ('STATUS-INBOX', 'STATUS-BoxA', 'STATUS-BoxU', 'FETCH',
                  'STORE'):
            out[k] = 'not-authenticated'
    elif st.phase == 'AUTH':
        out['FETCH'] = 'none-selected'
        out['STORE'] = 'none-selected'
    return out


# --------------------------------------------------------------------------
# judging one step


def wire(syms: list[str]) -> list[str]:
    out = []
    for n in syms:
        s = SYMS[n]
        out.append(s.first.decode('latin-1')[:80] + ''.join(
            ' / ' + f.decode('latin-1')[:40] for f in s.follow))
    return out


def judge_step(ctx: Ctx, seq: list[str], k: int, before: St,
               ob: Obs, oa: Obs, report: bool) -> St:
    """Judge step ``k`` (1-based) of ``seq``; ``ob``/``oa`` are the clone
    runs of seq[:k-1] / seq[:k].  Returns the state to assume afterwards."""
    sym = SYMS[seq[k - 1]]
    cond, code = oa.results[k - 1]

    def rep(mech: str, detail: str, **w: Any) -> None:
        if report:
            ctx.report(mech, '%s [%s] after %s: %s' % (
                sym.first.decode('latin-1')[:60], ctx.cfg,
                wire(seq[:k - 1]) or 'greeting', detail),
                symbols=seq[:k], config=ctx.cfg, wire=wire(seq[:k]),
                state_before=describe(before),
                state_after=describe(oa.state),
                probe=oa.probe, transcript=oa.transcript[-60:], **w)

    # determinism of the clone
    for j in range(k - 1):
        if ob.results[j][0] != oa.results[j][0]:
            ctx.aborted = 'nondeterministic-clone'
            ctx.count('nondeterministic_clones')
            return St('UNKNOWN')
    if cond is None:
        ctx.count('steps_unrunnable_connection_gone')
        return St('LOGOUT')
    if before.phase in ('UNKNOWN', 'LOGOUT') or before.user == '?' \
            or before.box == '?' or before.mode == '?':
        ctx.count('steps_skipped_state_unknown')
        return oa.state
    exp = expect(sym, before, ob.caps, ob.dump, code)
    if report:
        ctx.count('steps_judged')
        ctx.pairs.add((describe(before), sym.name))
    if cond == 'STUCK' or cond == 'OTHER':
        ctx.aborted = ctx.aborted or 'command-unanswered'
        return St('UNKNOWN')
    if cond == 'DIED':
        if exp.allowed == _REF and exp.wrong:
            rep('died-instead-of-refused:%s:%s' % (sym.cmd, exp.wrong),
                'the command had to be refused (%s) but the connection '
                'ended without a tagged NO/BAD (%s)' % (exp.why, oa.task_exc),
                expected='NO or BAD')
        else:
            ctx.aborted = ctx.aborted or 'connection-died'
        return St('LOGOUT')
    if exp.latitude and report:
        ctx.count('latitude_used')
    bad_outcome = cond not in exp.allowed
    if bad_outcome:
        if cond == 'OK' and exp.wrong:
            rep('accepted-in-wrong-state:%s:%s' % (sym.cmd, exp.wrong),
                'answered OK although %s (state %s)' % (
                    exp.why, describe(before)), expected='NO or BAD')
        elif cond == 'OK':
            rep('accepted-unexpectedly:%s:%s' % (sym.cmd, sym.kind),
                'answered OK although it had to be refused: %s' % exp.why,
                expected='NO or BAD')
        elif sym.cmd == 'CLOSE':
            rep('close-not-ok:%s' % before.mode,
                'CLOSE in %s was refused' % describe(before), expected='OK')
        else:
            rep('refused-in-right-state:%s:%s' % (sym.cmd, before.label()),
                'refused although %s (state %s)' % (
                    exp.why, describe(before)), expected='OK')
    # LOGOUT: BYE, then OK, then closed, nothing after
    if sym.cmd == 'LOGOUT' and sym.kind == 'valid':
        r = oa.last
        problems = []
        if cond != 'OK':
            problems.append('tagged %s' % cond)
        if r is None or not any(u.cond == b'BYE' for u in r.untagged):
            problems.append('no untagged BYE before the tagged response')
        if not oa.closed:
            problems.append('connection not closed by the server')
        if oa.tail_after_tagged or oa.pending:
            problems.append('data after the tagged response')
        if report:
            ctx.count('logouts_checked')
        if problems:
            rep('logout-shape', '; '.join(problems))
        return St('LOGOUT')
    if not oa.alive:
        # the server hung up after answering: RFC-legal (BYE) but the rest
        # of the trace cannot be judged
        ctx.aborted = ctx.aborted or 'connection-closed-by-server'
        return St('LOGOUT')

    # judge the probe commands themselves against the predicted state
    if cond == 'OK':
        predicted = exp.after_ok if exp.after_ok is not None else before
    else:
        predicted = exp.after_refused[0]
    if bad_outcome and cond == 'OK':
        # expectation void; resynchronise on what the probe says
        return oa.state
    if oa.probe_died_on is not None:
        must = probe_expect(predicted)
        name = oa.probe_died_on
        if name in must:
            rep('died-instead-of-refused:%s:%s' % (
                name.split('-')[0], must[name]),
                'probe command %s had to be refused in %s but the '
                'connection ended without a tagged NO/BAD (%s)' % (
                    name, describe(predicted), oa.task_exc),
                expected='NO or BAD')
        else:
            ctx.aborted = ctx.aborted or 'connection-died-in-probe'
        return predicted
    if oa.inconsistent:
        rep('probe-inconsistent:' + oa.inconsistent,
            'probe answers contradict every automaton state: %r' % (
                oa.probe,))
        return predicted
    after = oa.state
    if after.user == '?' or after.box == '?' or after.mode == '?':
        ctx.count('probe_inconclusive')
        return predicted
    if report:
        ctx.count('states_revealed')

    if cond == 'REFUSED':
        if report:
            ctx.count('refusals_checked_no_effect')
        if after not in exp.after_refused:
            if sym.sel is not None and after.phase == 'SELECTED':
                rep('select-failed-but-still-selected',
                    'failed %s left %s selected' % (sym.cmd, after.box),
                    expected=[describe(s) for s in exp.after_refused])
            else:
                rep('refused-command-changed-state:%s' % sym.cmd,
                    'state %s before, %s after a refused command' % (
                        describe(before), describe(after)),
                    expected=[describe(s) for s in exp.after_refused])
        elif after == before and ob.caps != oa.caps:
            rep('refused-command-changed-state:%s' % sym.cmd,
                'capabilities %r before, %r after a refused command' % (
                    ob.caps, oa.caps))
        diff = dump_diff(ob.dump, oa.dump)
        if diff:
            rep('refused-command-changed-data:%s' % sym.cmd,
                'stored data changed by a refused command: %s' % (
                    '; '.join(diff)[:400]), diff=diff)
        return after
    # accepted
    want = exp.after_ok
    assert want is not None
    if after != want:
        if sym.sel is not None and after.phase == 'SELECTED' \
                and after.box != want.box:
            rep('selected-wrong-mailbox',
                '%s selected %s' % (sym.first.decode(), after.box),
                expected=describe(want))
        else:
            rep('state-after:%s:%s->%s%s' % (
                sym.cmd, want.label(), after.label(),
                ':user-changed' if want.user != after.user
                and after.phase != 'NOTAUTH' and want.phase != 'NOTAUTH'
                else ''),
                'expected %s, probe reveals %s' % (
                    describe(want), describe(after)),
                expected=describe(want))
    return after


def judge_glass(ctx: Ctx, seq: list[str], o: Obs) -> None:
    """Cross-check: the server's own ConnectionState vs. the probe."""
    if not o.alive or o.probe_died_on or o.inconsistent:
        return
    g = o.glass
    if g is None:
        ctx.count('glass_unavailable')
        return
    st = o.state
    if '?' in (st.user, st.box, st.mode):
        return
    ctx.count('glass_comparisons')
    diffs = []
    if g['auth'] != (st.phase in ('AUTH', 'SELECTED')):
        diffs.append('auth')
    if g['selected'] != (st.phase == 'SELECTED'):
        diffs.append('selected')
    elif st.phase == 'SELECTED':
        if g['readonly'] != (st.mode == 'ro'):
            diffs.append('readonly')
        want = o.ids.get(st.box or '')
        if st.user == 'u1' and want is not None \
                and g['mailbox_id'] != want:
            diffs.append('mailbox')
    if diffs:
        ctx.report('glass-differs-from-probe:' + '+'.join(diffs),
                   'after %s [%s]: server state %r, probe reveals %s' % (
                       wire(seq), ctx.cfg, g, describe(st)),
                   symbols=seq, config=ctx.cfg, glass=g,
                   probe=o.probe, transcript=o.transcript[-60:])


# --------------------------------------------------------------------------
# cases


PEER_CMDS = [b'CLOSE', b'NOOP', b'CHECK', b'FETCH 1 (FLAGS)', b'EXPUNGE',
             b'STORE 1 +FLAGS (\\Seen)', b'SEARCH ALL', b'COPY 1 Sink',
             b'UID FETCH 1:* (FLAGS)', b'SELECT BoxA', b'EXAMINE BoxB',
             b'LOGOUT', b'IDLE']


async def peer_deletes(ctx: Ctx, cfg: str, how: str, cmds: list[bytes]) \
        -> None:
    """Another connection of the same user deletes (or renames away) the
    selected mailbox; the statement's unconditional clauses must still hold
    for the connection that had it selected: CLOSE succeeds and deselects,
    LOGOUT ends with BYE then OK, NOOP is not refused, and after any command
    the connection is usable or was ended with BYE."""
    env = await build_env(cfg)
    try:
        await provision(env)
        a = Conn(1, Sched())
        a.start(env.imap)
        await a.greeting()
        await _must(a, b'LOGIN u1 pw1')
        await _must(a, b'EXAMINE Tmp' if how.endswith('ro') else b'SELECT Tmp')
        b = Conn(2, Sched())
        b.start(env.imap)
        await b.greeting()
        await _must(b, b'LOGIN u1 pw1')
        await _must(b, b'DELETE Tmp' if how.startswith('delete')
                    else b'RENAME Tmp TmpGone')
        ctx.count('peer_deletions')
        selected = True         # as far as this script knows
        for line in cmds:
            if a.dead:
                break
            was_selected = selected
            if line.split(b' ')[0] in (b'CLOSE', b'SELECT', b'EXAMINE'):
                selected = False    # whatever comes next is another matter
            follow = (b'DONE',) if line == b'IDLE' else ()
            r = await send(a, line, follow)
            ctx.count('commands_after_peer_deletion')
            what = '%s after the selected mailbox was %s by another ' \
                'connection [%s]' % (line.decode(), how, cfg)
            if r is None:
                ctx.report('stuck:selected-mailbox-gone', what + ': no answer')
                return
            bye = any(u.cond == b'BYE' for u in r.untagged)
            c = _cond(r)
            if line == b'CLOSE' and was_selected and not bye and c != 'OK':
                ctx.report('close-refused:selected-mailbox-gone',
                           what + ': answered %r' % (r.tagged.raw[:80]
                                                     if r.tagged else None))
            if line in (b'NOOP', b'LOGOUT') and c != 'OK':
                ctx.report('%s-refused:selected-mailbox-gone'
                           % line.decode().lower(),
                           what + ': answered %r' % (r.tagged.raw[:80]
                                                     if r.tagged else None))
            if c == 'DIED' and not bye:
                ctx.report('closed-without-bye:selected-mailbox-gone', what)
            if line == b'CLOSE' and was_selected and c == 'OK' \
                    and not a.dead:
                r2 = await send(a, b'FETCH 1 (FLAGS)')
                if r2 is not None and _cond(r2) == 'OK':
                    ctx.report('close-did-not-deselect:selected-mailbox-gone',
                               what)
        await _settle(a)
    finally:
        env.cleanup()


PEERSEL_CMDS = [b'APPEND BoxB', b'APPEND BoxA', b'COPY 1 BoxB', b'COPY 1 BoxA',
                b'UID COPY 1:* BoxB', b'STATUS BoxB (MESSAGES RECENT)',
                b'STATUS BoxA (MESSAGES UIDNEXT)', b'NOOP', b'CHECK',
                b'LIST "" *', b'SUBSCRIBE BoxA', b'CREATE PeerNew',
                b'SEARCH ALL', b'FETCH 1 (FLAGS)', b'IDLE']


async def peer_selected(ctx: Ctx, cfg: str, first: bytes, peer_box: bytes,
                        peer_first: bool, cmds: list[bytes]) -> None:
    """Another connection of the same user holds a mailbox selected
    read-write while this connection, in the Selected state, runs commands
    that are not SELECT/EXAMINE/CLOSE/UNSELECT -- several of them name the
    peer's mailbox.  None of them may change which mailbox this connection
    has selected or whether it is read-only (RFC 3501 section 3: only those
    four commands leave or enter a selection)."""
    env = await build_env(cfg)
    try:
        await provision(env)
        a = Conn(1, Sched())
        a.start(env.imap)
        await a.greeting()
        await _must(a, b'LOGIN u1 pw1')
        b = Conn(2, Sched())
        b.start(env.imap)
        await b.greeting()
        await _must(b, b'LOGIN u1 pw1')
        if peer_first:
            await _must(b, b'SELECT ' + peer_box)
            await _must(a, first)
        else:
            await _must(a, first)
            await _must(b, b'SELECT ' + peer_box)
        want_box = first.split(b' ')[1].decode()
        want_ro = first.startswith(b'EXAMINE')
        g0 = read_glass(a)
        fetch = b'FETCH 1 (BODY.PEEK[HEADER.FIELDS (X-VF-BOX)])'
        for line in cmds:
            if a.dead:
                break
            if line.startswith(b'APPEND '):
                box = line.split(b' ')[1]
                line = line + b' ' + _lit(marker_msg(box[-1:]))
            follow = (b'DONE',) if line == b'IDLE' else ()
            r = await send(a, line, follow)
            word = line.split(b' ')[0].decode()
            if word == 'UID':
                word = 'UID ' + line.split(b' ')[1].decode()
            what = '%s after %s while another connection has %s selected ' \
                'read-write [%s]' % (line[:40].decode('latin-1'),
                                     first.decode(), peer_box.decode(), cfg)
            if r is None or a.dead:
                ctx.aborted = ctx.aborted or 'peersel-connection-ended'
                break
            ctx.count('commands_beside_peer_selection')
            rf = await send(a, fetch)
            marker = _fetch_marker(rf) if rf is not None and rf.ok else None
            got_box = {'A': 'BoxA', 'B': 'BoxB'}.get(marker or '', None)
            if rf is None or not rf.ok:
                ctx.report('selection-lost-by-non-select-command:' + word,
                           what + ': FETCH 1 afterwards answered %r'
                           % (rf.tagged.raw[:80] if rf is not None
                              and rf.tagged else None))
                break
            if got_box != want_box:
                ctx.report('selection-changed-by-non-select-command:' + word,
                           what + ': message 1 is now the marker of %s, the '
                           'connection had selected %s' % (got_box, want_box))
                break
            rs = await send(a, b'STORE 1 +FLAGS.SILENT (\\Flagged)')
            c = _cond(rs)
            if (c == 'OK') == want_ro and c in ('OK', 'NO'):
                ctx.report('mode-changed-by-non-select-command:' + word,
                           what + ': STORE afterwards answered %s, the '
                           'selection was read-%s' % (
                               c, 'only' if want_ro else 'write'))
                break
            g = read_glass(a)
            if g0 is not None and g is not None:
                ctx.count('peersel_glass_comparisons')
                if g['mailbox_id'] != g0['mailbox_id'] or \
                        g['readonly'] != g0['readonly']:
                    ctx.report('selection-object-changed-by-non-select-'
                               'command:' + word, what + ': server-side '
                               'selection %r -> %r' % (g0, g))
                    break
        await _settle(a)
    finally:
        env.cleanup()


async def lock_times_out(ctx: Ctx, cfg: str, first: bytes, second: bytes) \
        -> None:
    """maildir: a foreign process holds the uidlist lock of BoxB for longer
    than the server waits.  SELECT/EXAMINE BoxB then fails (NO [TIMEOUT]):
    "a failed one leaves none selected" - whatever was selected before."""
    import os
    env = await build_env(cfg)
    try:
        await provision(env)
        a = Conn(1, Sched())
        a.start(env.imap)
        await a.greeting()
        await _must(a, b'LOGIN u1 pw1')
        if first:
            await _must(a, first)
        base = getattr(env, 'base_dir', None)
        lock = None
        for root, dirs, files in os.walk(base or '/nonexistent'):
            if root.endswith('BoxB') and 'dovecot-uidlist' in files:
                lock = os.path.join(root, 'dovecot-uidlist.lock')
        if lock is None:
            ctx.count('lock_slice_unavailable')
            return
        os.close(os.open(lock, os.O_CREAT | os.O_EXCL | os.O_WRONLY))
        tag = a.next_tag()
        task = a.loop.create_task(a.command(
            tag, [tag + b' ' + second + b'\r\n'], delay=False))
        for _ in range(60):
            await _settle(a)
            if task.done():
                break
            await a.loop.advance(1.0)       # type: ignore[attr-defined]
        os.unlink(lock)
        if not task.done():
            task.cancel()
            ctx.count('lock_slice_stuck')
            return
        r = task.result()
        ctx.count('selects_under_held_lock')
        if second == b'LOGOUT':
            # LOGOUT needs nothing from the store: BYE then OK, always
            bye = any(u.cond == b'BYE' for u in r.untagged)
            if _cond(r) != 'OK' or not bye:
                ctx.report('logout-refused:lock-held',
                           '%s; LOGOUT while the uidlist lock of the selected '
                           'mailbox is held [%s]: %r' % (
                               first.decode(), cfg, r.tagged.raw[:80]
                               if r.tagged else None))
            return
        if _cond(r) != 'REFUSED':
            return          # the lock did not matter for this command
        r2 = await send(a, b'FETCH 1 (FLAGS)')
        r3 = await send(a, b'CLOSE')
        what = '%s; %s refused (%r) while the uidlist lock of BoxB is ' \
            'held [%s]' % (first.decode() or '(nothing selected)',
                           second.decode(), r.tagged.raw[:60]
                           if r.tagged else None, cfg)
        if r2 is not None and _cond(r2) == 'OK':
            ctx.report('select-failed-but-still-selected',
                       what + ': FETCH is answered OK afterwards')
        elif r3 is not None and _cond(r3) == 'OK':
            ctx.report('select-failed-but-still-selected',
                       what + ': CLOSE is answered OK afterwards')
    finally:
        env.cleanup()


async def explore(ctx: Ctx, prefix: list[str], extend: bool,
                  report_from: int, tag: str) -> None:
    """Clone runs for every prefix of ``prefix`` (and, with ``extend``, for
    every one-symbol extension); steps >= report_from are reported."""
    cfg = ctx.cfg
    obs = [await observe(cfg, prefix[:k], ctx) for k in range(len(prefix) + 1)]
    init = obs[0].state
    if init.phase != 'NOTAUTH':
        raise HarnessError('state after the greeting is %s %r' % (
            describe(init), obs[0].probe))
    before = init
    for k in range(1, len(prefix) + 1):
        rep = k >= report_from
        before = judge_step(ctx, prefix, k, before, obs[k - 1], obs[k], rep)
        if rep:
            judge_glass(ctx, prefix[:k], obs[k])
            ctx.count('sequences_run')
            if obs[k].results[k - 1][0] is not None:
                ctx.count(tag)
        if ctx.aborted:
            return
    if not extend:
        return
    base = obs[-1]
    n = len(prefix) + 1
    runs = lost = 0
    reason = ''
    for c in ALPHABET:
        seq = prefix + [c]
        ctx.count('exhaustive_len%d_sequences' % n)
        if not base.alive:
            # nothing can be sent any more: the extension is the prefix
            ctx.count('exhaustive_len%d_connection_gone' % n)
            continue
        o = await observe(cfg, seq, ctx)
        ctx.count('sequences_run')
        ctx.count('exhaustive_len%d_run' % n)
        aborted, ctx.aborted = ctx.aborted, None
        judge_step(ctx, seq, n, before, base, o, True)
        judge_glass(ctx, seq, o)
        runs += 1
        if ctx.aborted:
            lost += 1
            ctx.count('extensions_aborted')
            reason = ctx.aborted
        ctx.aborted = aborted
    if lost * 5 > runs:
        ctx.aborted = 'extensions-aborted:' + reason


def gen_sequence(rng: random.Random, cfg: str) -> list[str]:
    """Biased towards sequences that travel through the automaton; the bias
    only steers generation, it is no oracle."""
    n = rng.randint(4, 14)
    phase = 'NOTAUTH'
    tls = cfg != 'dict-tls-remote'
    seq: list[str] = []
    by_class: dict[str, list[str]] = {}
    for s in _SYMS:
        by_class.setdefault(s.klass, []).append(s.name)
    selects = ['SELECT_A', 'SELECT_B', 'EXAMINE_A', 'EXAMINE_B']
    while len(seq) < n:
        r = rng.random()
        if r < 0.45:
            name = rng.choice(ALPHABET)
        elif phase == 'NOTAUTH':
            if not tls and rng.random() < 0.7:
                name = 'STARTTLS'
            else:
                name = rng.choice(['LOGIN_OK', 'LOGIN_OK', 'AUTH_OK',
                                   'AUTH_U2', 'LOGIN_BADPW', 'AUTH_CANCEL',
                                   'STARTTLS'])
        elif phase == 'AUTH':
            name = rng.choice(selects * 3 + by_class['auth'])
        else:
            name = rng.choice(by_class['selected'] * 2 + selects +
                              ['SELECT_MISSING', 'EXAMINE_MISSING',
                               'CLOSE', 'CLOSE'] + by_class['nonauth'])
        if name == 'LOGOUT' and len(seq) < n - 1 and rng.random() < 0.85:
            continue
        seq.append(name)
        s = SYMS[name]
        if name == 'STARTTLS':
            tls = True
        elif phase == 'NOTAUTH' and tls and name in (
                'LOGIN_OK', 'AUTH_OK', 'AUTH_U2'):
            phase = 'AUTH'
        elif phase != 'NOTAUTH' and name in selects:
            phase = 'SELECTED'
        elif phase == 'SELECTED' and (s.sel is not None or name == 'CLOSE'):
            phase = 'AUTH'
    return seq


class C05(Check):
    pid = 'C05'
    level = 'exploration'
    rule = ('case = a set of command sequences over a %d-symbol alphabet '
            '(every built-in command x valid / invalid-argument / '
            'missing-mailbox / bad-credential variants, SELECT vs EXAMINE of '
            'two marked mailboxes, AUTHENTICATE exchanges, IDLE+DONE, '
            'STARTTLS). Exhaustive cases run one prefix and ALL its '
            'one-symbol extensions: all sequences of length <= 2 (quick: '
            'dict and dict-tls-remote; thorough: all four configurations) '
            'and, thorough, all sequences of length 3 whose first two '
            'symbols come from the %d-symbol core alphabet (dict) -- see '
            'counters exhaustive_len*. Matrix cases run every symbol from '
            'every canonical automaton state (state_symbol_pairs is distinct '
            'by construction). Random cases are one seeded sequence of '
            'length 4-14 each, deduplicated in the generator. Every prefix '
            'is re-executed as a cloned run with data dump and probe suffix; '
            'distinct = hash of the case spec (all specs differ); '
            'non-trivial = at least one step was judged with the state after '
            'it revealed' % (len(ALPHABET), len(CORE)))
    assumptions = [
        'bad_command_limit is switched off (a BYE after 5 consecutive BAD '
        'answers is RFC-legal and owned by C06)',
        'the server is deterministic across fresh environments (checked: '
        'a clone whose earlier answers differ aborts the case, counter '
        'nondeterministic_clones)',
        'sequences longer than 14 commands are not explored; the STARTTLS '
        'handshake itself is a no-op on the in-memory transport',
        'depth-3 sweep on dict without TLS only, prefixes from the core '
        'alphabet (invalid-argument variants are answered by the parser '
        'before any state is consulted; one per command class is kept)',
        'configurations: dict, dict with STARTTLS (local peer), dict with '
        'STARTTLS and a remote peer (LOGINDISABLED until STARTTLS), maildir '
        '(++ layout); redis cannot run here',
        'pysasl.entry_points (package metadata lookup on every new '
        'connection) is memoized in the worker for speed']
    floors = {'steps_judged': 8000, 'states_revealed': 8000,
              'refusals_checked_no_effect': 5000, 'probe_runs': 8000,
              'state_symbol_pairs': 600, 'glass_comparisons': 6000,
              'logouts_checked': 60,
              'commands_beside_peer_selection': 120}
    time_cap = {'quick': 150.0, 'thorough': 1500.0}

    def cases(self, tier: str, seed: int) -> Iterable[dict[str, Any]]:
        n = len(ALPHABET)
        floors = dict(C05.floors)
        quick = tier == 'quick'
        exh2 = ['dict'] if quick else list(CONFIGS)
        floors['exhaustive_len1_sequences'] = n * len(exh2)
        floors['exhaustive_len2_sequences'] = n * n * len(exh2)
        floors['random_sequences'] = 400 if quick else 4000
        floors['state_symbol_pairs'] = \
            (2 if quick else len(CONFIGS)) * N_CANONICAL * n * 9 // 10
        if not quick:
            floors['exhaustive_len3_sequences'] = len(CORE) ** 2 * n
            floors['steps_judged'] = 150000
            floors['states_revealed'] = 140000
        self.floors = floors
        out: list[dict[str, Any]] = []
        # exhaustive: every first symbol with all its extensions
        for cfg in exh2:
            out.append({'kind': 'exh', 'config': cfg, 'prefix': []})
            for a in ALPHABET:
                out.append({'kind': 'exh', 'config': cfg, 'prefix': [a]})
        for cfg in (['dict', 'dict-tls'] if quick else list(CONFIGS)):
            for i, p in enumerate(MATRIX_PREFIXES):
                out.append({'kind': 'matrix', 'config': cfg, 'prefix': p,
                            'canonical': i < N_CANONICAL})
        if not quick:
            for a in CORE:
                for b in CORE:
                    out.append({'kind': 'exh', 'config': 'dict',
                                'prefix': [a, b]})
        rng = random.Random(seed * 9157 + 5)
        want = 800 if quick else 8000
        seen: set[tuple[str, ...]] = set()
        rnd: list[dict[str, Any]] = []
        while len(rnd) < want:
            cfg = rng.choice(['dict', 'dict', 'dict', 'dict', 'dict-tls',
                              'dict-tls-remote', 'maildir'])
            seq = gen_sequence(rng, cfg)
            key = (cfg, *seq)
            if key in seen:
                continue
            seen.add(key)
            rnd.append({'kind': 'random', 'config': cfg, 'symbols': seq})
        # DONE and the next command in one segment, after every way of
        # having a mailbox selected
        pipe: list[dict[str, Any]] = []
        for cfg in (['dict'] if quick else ['dict', 'maildir']):
            for sel in ('SELECT_A', 'EXAMINE_A', 'SELECT_B'):
                for x in ALPHABET:
                    if SYMS[x].follow or b'{' in SYMS[x].first:
                        continue
                    if quick and x not in CORE:
                        continue
                    pipe.append({'kind': 'random', 'config': cfg,
                                 'symbols': ['LOGIN_OK', sel, 'IDLE', x],
                                 'pipe_idle': True})
        out += pipe
        # a SELECT that fails on a lock time-out, after every way of having
        # something selected
        for first in ('', 'SELECT BoxA', 'EXAMINE BoxA', 'SELECT Sink'):
            for second in ('SELECT BoxB', 'EXAMINE BoxB'):
                out.append({'kind': 'lock', 'config': 'maildir',
                            'first': first, 'second': second})
        for first in ('SELECT BoxB', 'EXAMINE BoxB'):
            out.append({'kind': 'lock', 'config': 'maildir', 'first': first,
                        'second': 'LOGOUT'})
        # the selected mailbox disappears under the connection
        prng = random.Random(seed * 31 + 55)
        for cfg in (['dict', 'maildir'] if quick else list(CONFIGS)):
            for how in ('delete', 'delete-ro', 'rename', 'rename-ro'):
                for first in PEER_CMDS:
                    rest = prng.sample(PEER_CMDS, 3)
                    out.append({'kind': 'peer', 'config': cfg, 'how': how,
                                'cmds': [c.decode('latin-1')
                                         for c in [first] + rest]})
        # another connection holds a mailbox selected read-write beside this
        # connection's own selection
        for cfg in (['dict', 'maildir'] if quick else list(CONFIGS)):
            for first in ('SELECT BoxA', 'EXAMINE BoxA', 'EXAMINE BoxB',
                          'SELECT BoxB'):
                for peer_box in ('BoxB', 'BoxA'):
                    for peer_first in (True, False):
                        for rep in range(1 if quick else 4):
                            cmds = prng.sample(PEERSEL_CMDS, 6)
                            out.append({'kind': 'peersel', 'config': cfg,
                                        'first': first, 'peer_box': peer_box,
                                        'peer_first': peer_first,
                                        'cmds': [c.decode('latin-1')
                                                 for c in cmds]})
        # short sequences first (a mechanism's first witness is then likely
        # a short one); shards are strided, so every worker gets the same mix
        rng.shuffle(out)
        return out + rnd

    def setup_worker(self) -> None:
        shadow.install_glass()
        _memoize_entry_points()

    def extra_evidence(self, agg: dict[str, Any]) -> dict[str, Any]:
        c = agg['counters']
        sweeps = {}
        for k, want in sorted(self.floors.items()):
            if k.startswith('exhaustive_len'):
                sweeps[k] = {'enumerated': c.get(k, 0), 'expected': want,
                             'complete': c.get(k, 0) == want}
        return {'alphabet': ALPHABET, 'core_alphabet': CORE,
                'exhaustive_sweeps': sweeps,
                'exhaustive_note': (
                    'len1/len2: all sequences over the full alphabet per '
                    'configuration; len3 (thorough): first two symbols from '
                    'the core alphabet, third from the full alphabet, dict '
                    'configuration; sequences that cannot be sent because '
                    'the server closed the connection earlier (LOGOUT) are '
                    'enumerated but not run (exhaustive_len*_connection_'
                    'gone)')}

    def run_case(self, spec: dict[str, Any]) -> dict[str, Any]:
        random.seed(spec.get('seed', 0))
        kind = spec.get('kind') or 'script-' + spec['script']
        cfg = spec.get('config', 'dict')
        ctx = Ctx(cfg)
        ctx.pipe_idle = bool(spec.get('pipe_idle'))

        async def main(loop: L.CtlLoop) -> None:
            if kind in ('exh', 'matrix'):
                p = list(spec['prefix'])
                await explore(ctx, p, True, len(p) + 1, 'prefix_steps')
            elif kind == 'lock':
                await lock_times_out(ctx, cfg,
                                     spec['first'].encode('latin-1'),
                                     spec['second'].encode('latin-1'))
            elif kind == 'peer':
                await peer_deletes(ctx, cfg, spec['how'],
                                   [c.encode('latin-1')
                                    for c in spec['cmds']])
            elif kind == 'peersel':
                await peer_selected(ctx, cfg,
                                    spec['first'].encode('latin-1'),
                                    spec['peer_box'].encode('latin-1'),
                                    spec['peer_first'],
                                    [c.encode('latin-1')
                                     for c in spec['cmds']])
            elif kind in ('random', 'script-seq'):
                seq = list(spec['symbols'])
                await explore(ctx, seq, False, 1, 'sequence_steps_run')
                ctx.count('random_sequences' if kind == 'random'
                          else 'scripted_sequences')
            else:
                raise ValueError(kind)

        try:
            L.run(main, max_steps=20_000_000)
        except L.Deadlock:
            ctx.aborted = 'deadlock'
        if kind == 'matrix':
            # by construction distinct: one canonical prefix per automaton
            # state (and configuration), every symbol once
            if spec.get('canonical'):
                ctx.counters['state_symbol_pairs'] = len(ctx.pairs)
            for k in [k for k in ctx.counters if k.startswith('exhaustive_')]:
                ctx.counters['matrix_' + k[len('exhaustive_'):]] = \
                    ctx.counters.pop(k)
        sig = hashlib.sha1(repr(sorted(spec.items())).encode()
                           ).hexdigest()[:16]
        return {'violations': ctx.violations, 'counters': ctx.counters,
                'sig': sig,
                'nontrivial': ctx.counters.get('states_revealed', 0) > 0
                or ctx.counters.get('commands_beside_peer_selection', 0) > 0,
                'sample': {'spec': spec,
                           'pairs': sorted(ctx.pairs)[:8],
                           'counters': dict(ctx.counters)},
                'aborted': ctx.aborted}


CHECK = C05()
