"""C04 -- UIDs are strictly increasing, never reused, truthfully reported.

Deciding monitors: (1) an offline history checker over every UID the server
ever reported (APPENDUID, COPYUID, UIDNEXT from SELECT/STATUS, FETCH dumps)
keyed by (mailbox lineage, UIDVALIDITY): no (validity, uid) denotes two
messages, assignments respect real-time order, UIDNEXT is above everything
assigned before and not above anything assigned later, APPENDUID/COPYUID
UIDs are found by UID FETCH with the expected content; (2) for maildir the
crash-point sweep of vf.crash (kill before every filesystem operation,
restart, one more APPEND must get a UID above everything acknowledged)."""

from __future__ import annotations

import asyncio
import hashlib
import random
from typing import Any, Iterable

from .. import crash
from .. import loop as L
from ..net import Sched, astring
from ..runner import Check
from ..servers import make_env
from ..shadow import content_id
from ..workload import FLAGS, History, Session
from .c01 import schedule_family, sched_from
from .c15 import run_point

BOXES = [b'INBOX', b'B1', b'B2']


class UidLog:
    def __init__(self, hist: History) -> None:
        self.hist = hist
        # lineage id per current name
        self.lineage: dict[bytes, int] = {}
        self.nlin = 0
        # (lineage, validity) -> list of (start, end, uid, cid, how)
        self.assign: dict[tuple[int, int], list[tuple[int, int, int,
                                                      bytes | None, str]]] = {}
        # (lineage, validity) -> list of (start, end, uidnext)
        self.uidnext: dict[tuple[int, int], list[tuple[int, int, int]]] = {}
        self.last_validity: dict[int, int] = {}
        self.counters: dict[str, int] = {}
        # external deliveries (a file dropped into new/): (name, cid, step)
        self.deliveries: list[tuple[bytes, bytes, int]] = []
        # acknowledged removals: (lineage, validity) -> [(uid, end step)]
        self.removed: dict[tuple[int, int], list[tuple[int, int]]] = {}
        # (lineage, validity) -> [(uid, step the selection began, dump step)]
        self.fresh_seen: dict[tuple[int, int], list[tuple[int, int, int]]] = {}
        # (lineage) -> [(call step, return step)] of RENAME-away / DELETE
        # that made room for a new mailbox of the same name
        self.replaced: dict[int, list[tuple[int, int]]] = {}
        # (key, uid, start step) of a dump entry -> step its selection began
        self.fetch_sel: dict[tuple[Any, int, int], int] = {}
        # lineages that an APPEND/COPY/MOVE without a tagged reply may have
        # added to (the UIDs it assigned are unknown)
        self.unacked_into: set[int] = set()
        # lineages that hold messages whose UID no response announced
        self.provisioned_unknown: set[int] = set()

    def count(self, k: str, n: int = 1) -> None:
        self.counters[k] = self.counters.get(k, 0) + n

    def lin(self, name: bytes) -> int:
        name = b'INBOX' if name.upper() == b'INBOX' else name
        if name not in self.lineage:
            self.nlin += 1
            self.lineage[name] = self.nlin
        return self.lineage[name]

    def renamed(self, a: bytes, b: bytes) -> None:
        # Histories are kept per mailbox *name*, as a client caches them:
        # (name, UIDVALIDITY, UID) must never denote two messages.  A mailbox
        # that is renamed away and replaced by a new one of the same name
        # therefore needs another UIDVALIDITY (or UIDs above the old ones).
        pass

    def deleted(self, a: bytes) -> None:
        # a re-created mailbox continues the lineage *if* UIDVALIDITY stays
        # the same (then the old maximum still applies): keep the mapping.
        pass

    def add(self, name: bytes, validity: int, uid: int, cid: bytes | None,
            start: int, end: int, how: str) -> None:
        key = (self.lin(name), validity)
        self.assign.setdefault(key, []).append((start, end, uid, cid, how))
        self.count('uids_recorded')

    def add_uidnext(self, name: bytes, validity: int, uidnext: int,
                    start: int, end: int) -> None:
        self.uidnext.setdefault((self.lin(name), validity), []).append(
            (start, end, uidnext))
        self.count('uidnext_recorded')

    def add_removed(self, name: bytes, validity: int, uid: int,
                    end: int) -> None:
        self.removed.setdefault((self.lin(name), validity), []).append(
            (uid, end))

    def stale(self, key: tuple[int, int], a: tuple[Any, ...]) -> bool:
        """The observation is a dump by a selection that began before the
        mailbox of that name was replaced and was made after the replacement
        had begun."""
        if a[4] != 'FETCH':
            return False
        sel = self.fetch_sel.get((key, a[2], a[0]))
        if sel is None:
            return False
        return any(sel < r1 and a[1] > r0
                   for r0, r1 in self.replaced.get(key[0], []))

    def check(self) -> None:
        rep = self.hist.report
        # a UID whose removal was acknowledged must never be seen again
        # (only dumps of selections that began after the removal count: a
        # session that has not been told yet may still be shown the message)
        for key, gone in self.removed.items():
            for uid, end in gone:
                for u2, sel_step, st in self.fresh_seen.get(key, []):
                    self.count('resurrection_pairs_checked')
                    if u2 == uid and sel_step > end:
                        # the same structural predicate as stale(): a dump
                        # by a selection that began before the mailbox of
                        # that name was replaced, made after the replacement
                        # had begun, shows the NEW mailbox's UIDs under the
                        # old UIDVALIDITY - the listed finding, of which
                        # "UID 1 is back" is one more symptom
                        old_sel = any(sel_step < r1 and st > r0 for r0, r1
                                      in self.replaced.get(key[0], []))
                        rep('uid-denotes-two-messages:stale-selection-of-'
                            'replaced-mailbox' if old_sel
                            else 'uid-resurrected',
                            'lineage/validity %r: UID %d was removed (step '
                            '%d) and is listed again by a selection that '
                            'began at step %d (dump at step %d)%s'
                            % (key, uid, end, sel_step, st,
                               ', which predates the replacement of the '
                               'mailbox' if old_sel else ''))
                        break
        # a delivered message has a UID as soon as any command has looked at
        # the mailbox: every UIDNEXT reported after the delivery must be above
        for name, cid, dstep in self.deliveries:
            lin = self.lin(name)
            for (l2, val), lst in self.assign.items():
                if l2 != lin:
                    continue
                # the delivered message itself, not the copies that COPY/MOVE
                # made of it later (their UIDs are the ones COPYUID reported)
                if l2 in self.unacked_into:
                    self.count('delivery_checks_skipped_unacked_copy')
                    continue
                copies = {a[2] for a in lst
                          if a[4] in ('APPENDUID', 'COPYUID')}
                uids = [a[2] for a in lst
                        if a[3] == cid and a[2] not in copies]
                if not uids:
                    continue
                u = min(uids)
                for s0, e0, nxt in self.uidnext.get((l2, val), []):
                    self.count('delivery_uidnext_pairs_checked')
                    if s0 > dstep and nxt <= u:
                        rep('uidnext-not-above-delivered-message',
                            'a message delivered at step %d has UID %d, but '
                            'UIDNEXT %d was reported at steps %d-%d' % (
                                dstep, u, nxt, s0, e0))
                        break
        for key, lst in self.assign.items():
            by_uid: dict[int, tuple[int, int, int, bytes | None, str]] = {}
            fresh = [a for a in lst if a[4] in ('APPENDUID', 'COPYUID')]
            for a in lst:
                u = a[2]
                if u in by_uid:
                    o = by_uid[u]
                    if a[3] is not None and o[3] is not None \
                            and a[3] != o[3]:
                        rep('uid-denotes-two-messages' + (
                            ':stale-selection-of-replaced-mailbox'
                            if self.stale(key, a) or self.stale(key, o)
                            else ''),
                            'lineage/validity %r UID %d: %r (%s) and %r (%s)'
                            % (key, u, o[3], o[4], a[3], a[4]))
                    elif a[4] in ('APPENDUID', 'COPYUID') and \
                            o[4] in ('APPENDUID', 'COPYUID'):
                        rep('uid-assigned-twice',
                            'lineage/validity %r UID %d assigned by two '
                            'commands' % (key, u))
                else:
                    by_uid[u] = a
            # every UID a dump shows was announced by the command that
            # created the message (mailboxes other than INBOX receive nothing
            # but acknowledged APPEND/COPY/MOVE in these histories)
            announced = {a[2] for a in fresh}
            if key[0] not in self.unacked_into and \
                    key[0] != self.lineage.get(b'INBOX') and \
                    key[0] not in self.provisioned_unknown:
                for a in lst:
                    if a[4] == 'FETCH':
                        self.count('dumped_uids_checked_announced')
                        if a[2] not in announced and not self.stale(key, a):
                            rep('fetch-finds-unannounced-uid',
                                'lineage/validity %r: UID %d (%r) is listed '
                                '(steps %d-%d) but no APPENDUID/COPYUID ever '
                                'announced it; announced: %r' % (
                                    key, a[2], a[3], a[0], a[1],
                                    sorted(announced)))
                            break
            # real-time order between assignments
            fresh.sort(key=lambda a: a[1])
            for i, a in enumerate(fresh):
                for b in fresh[i + 1:]:
                    self.count('order_pairs_checked')
                    if b[0] > a[1] and b[2] <= a[2]:
                        rep('uid-not-increasing',
                            'lineage/validity %r: UID %d was assigned '
                            '(steps %d-%d) after UID %d had been '
                            'acknowledged (step %d)' % (
                                key, b[2], b[0], b[1], a[2], a[1]))
                        break
            for s0, e0, nxt in self.uidnext.get(key, []):
                for a in fresh:
                    self.count('uidnext_pairs_checked')
                    if a[1] < s0 and a[2] >= nxt:
                        rep('uidnext-not-above-existing',
                            'lineage/validity %r: UIDNEXT %d reported at '
                            'steps %d-%d although UID %d had been assigned '
                            'before' % (key, nxt, s0, e0, a[2]))
                        break
                    if a[0] > e0 and a[2] < nxt:
                        rep('uidnext-above-next-assigned',
                            'lineage/validity %r: UIDNEXT %d reported at '
                            'steps %d-%d but UID %d was assigned afterwards'
                            % (key, nxt, s0, e0, a[2]))
                        break


class USession(Session):
    """Session that records every UID-bearing response."""

    ulog: UidLog

    async def cmd(self, rest: bytes, **kw: Any) -> Any:     # type: ignore
        r = await super().cmd(rest, **kw)
        return r


async def do_append(s: USession, box: bytes) -> None:
    n = s.rng.choice([1, 1, 1, 2, 3])
    cids_before = s.hist.ncid
    r = await s.append(box, [s.rng.choice(FLAGS)]
                       if s.rng.random() < 0.3 else None, n=n)
    if r.tagged is None:
        s.ulog.unacked_into.add(s.ulog.lin(box))
    if r.ok and r.tagged is not None and r.tagged.code == b'APPENDUID' \
            and isinstance(r.tagged.data, tuple):
        val, uids = r.tagged.data
        for k, u in enumerate(uids):
            cid = b'm%s-%d' % (s.hist.case_id.encode(), cids_before + 1 + k)
            s.ulog.add(box, val, u, cid, r.step_call, r.step_ret,
                       'APPENDUID')
        s.ulog.count('appenduid_checked')


async def do_copy(s: USession, dest: bytes, move: bool) -> None:
    sset, uid = s._pick_seqset()
    src = s.shadow.mailbox or b'INBOX'
    r = await s.copy(sset, dest, uid=uid, move=move)
    if r.tagged is None:
        s.ulog.unacked_into.add(s.ulog.lin(dest))
    for x in [r.tagged] + list(r.untagged):
        if x is not None and x.code == b'COPYUID' and \
                isinstance(x.data, tuple) and r.ok:
            val, srcs, dsts = x.data
            if len(srcs) != len(dsts):
                continue
            s.ulog.count('copyuid_checked')
            for su, du in zip(srcs, dsts):
                cid = s.hist.lookup(src, su, getattr(s, 'validity', None))
                if any(getattr(s, 'select_step', 0) < r1
                       for _, r1 in s.ulog.replaced.get(
                           s.ulog.lin(src), [])):
                    # the selection predates a replacement of that mailbox:
                    # which incarnation the source UID means is the known
                    # finding itself, not something to build on
                    cid = None
                    s.ulog.count('copies_from_stale_selection')
                    # ... and the shared UID->content map must forget what
                    # Session.copy() has just derived from it
                    s.hist.owner.pop(s.hist._key(dest, du, val), None)
                s.ulog.add(dest, val, du, cid, r.step_call, r.step_ret,
                           'COPYUID')
                sval = getattr(s, 'validity', None)
                if move and sval is not None and dest != src:
                    s.ulog.add_removed(src, sval, su, r.step_ret)


async def do_select(s: USession, box: bytes) -> bool:
    r = await s.select(box, examine=s.rng.random() < 0.3)
    if not r.ok:
        return False
    val = nxt = None
    for u in r.untagged:
        if u.code == b'UIDVALIDITY':
            val = u.data
        elif u.code == b'UIDNEXT':
            nxt = u.data
    if val is not None and nxt is not None:
        s.ulog.add_uidnext(box, val, nxt, r.step_call, r.step_ret)
        s.validity = val        # type: ignore[attr-defined]
        s.select_step = r.step_call     # type: ignore[attr-defined]
    return True


async def do_status(s: USession, box: bytes) -> None:
    r = await s.cmd(b'STATUS ' + astring(box) + b' (UIDNEXT UIDVALIDITY)')
    for u in r.untagged:
        if u.typ == b'STATUS' and u.data and r.ok:
            att = u.data['att']
            if b'UIDNEXT' in att and b'UIDVALIDITY' in att:
                s.ulog.add_uidnext(box, att[b'UIDVALIDITY'],
                                   att[b'UIDNEXT'], r.step_call, r.step_ret)


async def do_dump(s: USession) -> None:
    """UID FETCH: the UIDs reported earlier must be found with the expected
    content."""
    box = s.shadow.mailbox
    val = getattr(s, 'validity', None)
    if box is None or val is None:
        return
    r = await s.cmd(b'UID FETCH 1:* (UID BODY.PEEK[HEADER.FIELDS (X-VF-ID)])')
    if not r.ok:
        return
    for u in r.untagged:
        if u.typ == b'FETCH' and isinstance(u.data, dict) and \
                b'UID' in u.data:
            cid = content_id(u.data)
            s.ulog.add(box, val, u.data[b'UID'], cid, r.step_call,
                       r.step_ret, 'FETCH')
            s.ulog.fetch_sel[((s.ulog.lin(box), val), u.data[b'UID'],
                              r.step_call)] = getattr(s, 'select_step', 0)
            s.ulog.fresh_seen.setdefault((s.ulog.lin(box), val), []).append(
                (u.data[b'UID'], getattr(s, 'select_step', 0), r.step_call))
            s.ulog.count('fetch_uid_content_pairs')


def deliver(env: Any, s: USession, ulog: UidLog) -> None:
    """A mail delivery agent drops a file into INBOX/new (no IMAP involved,
    no UID-list record yet)."""
    import os
    from ..workload import make_msg
    cid = s.hist.new_cid()
    base = os.path.join(env.base_dir, 'testuser', 'new')
    if not os.path.isdir(base):
        return
    name = '1700000000.V%dI%d.vfdeliver' % (s.conn.cid, s.hist.ncid)
    tmp = os.path.join(env.base_dir, 'testuser', 'tmp', name)
    with open(tmp, 'wb') as f:
        f.write(make_msg(cid))
    os.rename(tmp, os.path.join(base, name))
    ulog.deliveries.append((b'INBOX', cid, getattr(s.conn.loop, 'steps', 0)))
    ulog.count('deliveries')


async def script_stale_selection(spec: dict[str, Any], hist: History,
                                 ulog: UidLog) -> None:
    """A has B1 selected; B renames B1 away, creates a new B1 and appends:
    A's selection must not show the new mailbox's messages under the
    UIDVALIDITY it was given for the old one."""
    env = await make_env(spec['backend'])
    try:
        a, b = (USession(env, hist, i, Sched(), i) for i in (1, 2))
        for s in (a, b):
            s.ulog = ulog
            await s.start()
        await b.cmd(b'CREATE B1')
        await do_append(b, b'B1')
        await do_select(a, b'B1')
        await do_dump(a)
        rr = await b.cmd(b'RENAME B1 B1-old1')
        if rr.ok:
            ulog.replaced.setdefault(ulog.lin(b'B1'), []).append(
                (rr.step_call, rr.step_ret))
        await b.cmd(b'CREATE B1')
        await do_append(b, b'B1')
        await a.noop()
        if a.alive:
            await do_dump(a)
    finally:
        env.cleanup()


async def run_hist(spec: dict[str, Any], hist: History, ulog: UidLog) -> None:
    if spec.get('script') == 'stale-selection':
        await script_stale_selection(spec, hist, ulog)
        return
    if spec.get('kind') == 'thist':
        # the maildir backend as deployed: every command in a worker thread
        from concurrent.futures import ThreadPoolExecutor
        from pymap.concurrent import Subsystem
        ex = ThreadPoolExecutor(spec.get('workers', 4))
        env = await make_env(spec['backend'],
                             subsystem=Subsystem.for_threading(ex))
        env.config.apply_context()
    else:
        ex = None
        env = await make_env(spec['backend'])
    try:
        rng = random.Random(spec['seed'])
        sched = sched_from(spec)
        prov = USession(env, hist, 0, Sched(), 0)
        prov.ulog = ulog
        hist.sessions.remove(prov)
        await prov.start()
        for b in BOXES[1:]:
            await prov.cmd(b'CREATE ' + b)
        for _ in range(spec['nmsgs']):
            await do_append(prov, rng.choice(BOXES))
        await prov.cmd(b'LOGOUT')
        sessions = []
        for i in range(spec['nsess']):
            s = USession(env, hist, i + 1, sched, spec['seed'] * 31 + i)
            s.ulog = ulog
            sessions.append(s)

        async def client(s: USession) -> None:
            if not await s.start():
                return
            await do_select(s, s.rng.choice(BOXES))
            await s.fetch_all()
            for _ in range(spec['ncmds']):
                if not s.alive:
                    return
                r = s.rng.random()
                sel = s.shadow.selected
                if r < 0.25:
                    await do_append(s, s.rng.choice(BOXES))
                elif r < 0.4 and sel:
                    await do_copy(s, s.rng.choice(BOXES), move=False)
                elif r < 0.5 and sel and not s.shadow.readonly:
                    dest = s.rng.choice([b for b in BOXES
                                         if b != s.shadow.mailbox])
                    await do_copy(s, dest, move=True)
                elif r < 0.62 and sel and not s.shadow.readonly:
                    # expunge the highest, then append: the classic reuse trap
                    if s.shadow.count:
                        await s.cmd(b'STORE %d +FLAGS.SILENT (\\Deleted)'
                                    % s.shadow.count)
                    await s.cmd(b'EXPUNGE')
                    await do_append(s, s.shadow.mailbox or b'INBOX')
                elif r < 0.66 and env.kind == 'maildir':
                    deliver(env, s, ulog)
                    await do_status(s, b'INBOX')
                elif r < 0.72:
                    await do_status(s, s.rng.choice(BOXES))
                elif r < 0.84:
                    if await do_select(s, s.rng.choice(BOXES)):
                        await s.fetch_all()
                elif r < 0.92 and sel:
                    await do_dump(s)
                elif r < 0.96 and spec['backend'] == 'dict':
                    # RENAME keeps the lineage
                    cands = [b for b in BOXES[1:] if b in ulog.lineage]
                    if cands:
                        a = s.rng.choice(cands)
                        new = a + b'r'
                        rr = await s.cmd(b'RENAME ' + a + b' ' + new)
                        if rr.ok:
                            ulog.renamed(a, new)
                            rr2 = await s.cmd(b'RENAME ' + new + b' ' + a)
                            if rr2.ok:
                                ulog.renamed(new, a)
                elif r < 0.975 and sel:
                    await s.cmd(b'CHECK')
                    ulog.count('checks_issued')
                elif r < 0.985:
                    # replace a mailbox by a new one of the same name while
                    # other sessions know (or have selected) the old one
                    a = s.rng.choice(BOXES[1:])
                    ulog.count('replace_attempts')
                    n = ulog.counters['replace_attempts']
                    how = s.rng.random() < 0.5
                    rr = await s.cmd(
                        b'RENAME ' + a + b' ' + a + b'-old%d' % n if how
                        else b'DELETE ' + a)
                    if rr.ok:
                        ulog.replaced.setdefault(ulog.lin(a), []).append(
                            (rr.step_call, rr.step_ret))
                        rc = await s.cmd(b'CREATE ' + a)
                        if rc.ok:
                            ulog.count('mailboxes_replaced')
                            await do_append(s, a)
                else:
                    await s.noop()
            if s.alive and s.shadow.selected:
                await do_dump(s)

        await asyncio.gather(*(client(s) for s in sessions))
        # final truthfulness pass from a fresh session
        fin = USession(env, hist, 9, Sched(), 9)
        fin.ulog = ulog
        if await fin.start():
            for b in BOXES:
                if await do_select(fin, b):
                    await do_dump(fin)
    finally:
        env.cleanup()
        if ex is not None:
            ex.shutdown(wait=False, cancel_futures=True)


class C04(Check):
    pid = 'C04'
    level = 'exploration'
    rule = ('case kinds: (hist) 1-3 sessions on 3 mailboxes issuing APPEND/'
            'MULTIAPPEND/COPY/MOVE/"expunge the highest then append"/STATUS/'
            'SELECT/RENAME there-and-back/replace a mailbox by a new one of '
            'the same name/deliveries into maildir new/ under one '
            'external-event schedule, '
            'all UID-bearing responses recorded with call/return steps and '
            'checked offline; (crash) a maildir history of UID-assigning '
            'commands swept over every crash point with restart; distinct = '
            'hash of completion order / (history, chunk); non-trivial = at '
            'least 3 UIDs were recorded')
    assumptions = [
        'UIDVALIDITY collisions of the random part are not searched for',
        'real-time order is taken from loop steps at the client boundary',
        'crash = process death between filesystem operations (see C15)']
    floors = {'uids_recorded': 20000, 'order_pairs_checked': 20000,
              'uidnext_pairs_checked': 5000, 'crash_points_run': 100,
              'post_restart_appends': 100}
    time_cap = {'quick': 90.0, 'thorough': 900.0}

    def cases(self, tier: str, seed: int) -> Iterable[dict[str, Any]]:
        n = 1000 if tier == 'quick' else 30000
        ncrash = 3 if tier == 'quick' else 60
        rng = random.Random(seed * 8861 + 4)
        for i in range(n):
            nsess = rng.choice([1, 2, 2, 3])
            backend = 'dict' if rng.random() < 0.75 else rng.choice(
                ['maildir', 'maildir-fs'])
            yield {'kind': 'hist', 'seed': seed * 1_000_003 + i,
                   'backend': backend, 'nsess': nsess,
                   'nmsgs': rng.randint(1, 5),
                   'ncmds': rng.randint(3, 10 if backend == 'dict' else 6),
                   'sched': schedule_family(rng, nsess)}
        # maildir with its real worker threads (sampled, not reproducible)
        import os
        nthr = (40 if tier == 'quick' else 1500) \
            if os.environ.get('VF_C04_THREADS') == '1' else 0
        for i in range(nthr):
            yield {'kind': 'thist', 'seed': seed * 1_000_003 + 500_000 + i,
                   'backend': rng.choice(['maildir', 'maildir-fs']),
                   'nsess': rng.choice([2, 3, 3, 4]),
                   'workers': rng.choice([2, 4, 8]),
                   'nmsgs': rng.randint(1, 4),
                   'ncmds': rng.randint(4, 8),
                   'sched': schedule_family(rng, 3)}
        for h in range(ncrash):
            for j in range(8):
                yield {'kind': 'crash', 'hseed': seed * 1_000_003 + h,
                       'layout': rng.choice(['++', 'fs']), 'chunk': j,
                       'nchunks': 8}

    def run_case(self, spec: dict[str, Any]) -> dict[str, Any]:
        if spec.get('kind') == 'crash':
            return self.run_crash(spec)
        random.seed(spec['seed'])
        hist = History(str(spec['seed']))
        ulog = UidLog(hist)

        async def main(loop: L.CtlLoop) -> None:
            await run_hist(spec, hist, ulog)

        if spec.get('kind') == 'thist':
            # real worker threads: the schedule is the operating system's,
            # the case is not reproducible; call/return order is taken from
            # a counter read in the loop thread at the client boundary, so
            # the real-time rules stay sound.  The watchdog only makes the
            # case inconclusive.
            from .c02 import _RealLoop
            rl = _RealLoop()
            asyncio.set_event_loop(rl)
            try:
                rl.run_until_complete(asyncio.wait_for(
                    run_hist(spec, hist, ulog), 120))
                ulog.count('threaded_histories')
            except asyncio.TimeoutError:
                hist.aborted = 'wall-clock-watchdog'
            finally:
                try:
                    tasks = [t for t in asyncio.all_tasks(rl)
                             if not t.done()]
                    for t in tasks:
                        t.cancel()
                    if tasks:
                        rl.run_until_complete(asyncio.wait(tasks, timeout=5))
                except Exception:
                    pass
                asyncio.set_event_loop(None)
                rl.close()
        else:
            try:
                L.run(main, max_steps=800_000)
            except L.Deadlock:
                hist.aborted = 'deadlock'
        ulog.check()
        aborted = hist.aborted
        for s in hist.sessions:
            # "BYE Selected mailbox no longer exists" after a RENAME by
            # another session is a legitimate end of a session here
            if s.failed and aborted is None and s.failed != 'closed:bye':
                aborted = 'session-' + s.failed
        mine = ('uid-resurrected', 'uidnext-not-above-delivered-message',
                'uid-denotes-two-messages',
                'uid-denotes-two-messages:'
                'stale-selection-of-replaced-mailbox', 'uid-assigned-twice',
                'uid-not-increasing', 'uidnext-not-above-existing',
                'uidnext-above-next-assigned', 'appenduid-count',
                'fetch-finds-unannounced-uid',
                'copyuid-length-mismatch')
        viol = [v for v in hist.violations if v['mech'] in mine]
        hist.violations = viol
        hist.attach_transcripts()
        sig = hashlib.sha1(repr(hist.order).encode()).hexdigest()[:16]
        return {'violations': viol, 'counters': ulog.counters, 'sig': sig,
                'nontrivial': ulog.counters.get('uids_recorded', 0) >= 3,
                'sample': {'spec': spec, 'order': [
                    '%d:%s' % (c, v.decode()) for c, v in hist.order[:40]]},
                'aborted': aborted}

    def run_crash(self, spec: dict[str, Any]) -> dict[str, Any]:
        rng = random.Random(spec['hseed'])
        history = crash.gen_history(rng, rng.randint(3, 6), ops=(
            'append', 'multiappend', 'copy', 'move', 'expunge', 'append',
            'create'))
        violations: list[dict[str, Any]] = []
        counters: dict[str, int] = {}
        uid_mechs = ('uid-reused-after-restart',
                     'uid-not-increasing-after-restart', 'uidnext-too-high',
                     'uid-names-different-message',
                     'duplicate-uid-after-restart',
                     'acked-message-changed-uid')
        st, log, dump, note = run_point(history, spec['layout'], 'tmp', None)
        done = [r for r in log if r.get('done')]
        if note or not done:
            return {'violations': [], 'counters': {}, 'sig': None,
                    'nontrivial': False, 'sample': None,
                    'aborted': note or 'reference-run-incomplete'}
        n_ops = done[0]['mutating_ops']
        kinds = done[0].get('kinds', [])
        allp = [('b', k) for k in range(n_ops)] + \
            [('a', k) for k, kd in enumerate(kinds) if kd == 'open:w']
        points = [p for n, p in enumerate(allp)
                  if n % spec['nchunks'] == spec['chunk']]
        aborted = None
        for fam, k in points:
            st, log, dump, note = run_point(
                history, spec['layout'], 'tmp', k if fam == 'b' else None,
                kill_after=k if fam == 'a' else None)
            if note or dump is None:
                aborted = note
                continue
            counters['crash_points_run'] = \
                counters.get('crash_points_run', 0) + 1
            model = crash.Model()
            model.apply_log(log)

            def report(mech: str, detail: str) -> None:
                if mech in uid_mechs and len(violations) < 5:
                    violations.append({
                        'mech': mech, 'detail': 'crash point %s%d: %s' % (
                            fam, k, detail),
                        'witness': {'history': history, 'crash': [fam, k],
                                    'layout': spec['layout'],
                                    'ack_log': log[-8:]}})
            crash.judge(model, dump, report, counters)
        hh = hashlib.sha1(repr(history).encode()).hexdigest()[:10]
        return {'violations': violations, 'counters': {
            k: v for k, v in counters.items() if k in (
                'crash_points_run', 'post_restart_appends',
                'acked_messages_checked')},
            'sig': 'crash:%s:%d' % (hh, spec['chunk']),
            'nontrivial': counters.get('crash_points_run', 0) > 0,
            'sample': {'history': history, 'points': points[:6]},
            'aborted': aborted}


CHECK = C04()
