"""C02 -- cross-session convergence: no lost, phantom or stuck updates.

Deciding monitor: at every quiescent point of a history (all sessions paused,
loop quiescent, no command in flight) each session issues NOOP and its shadow
view (UID set + flags per UID, as a real client would hold them) is compared
with the actual mailbox contents obtained through a fresh read-only probe
session (and, on dict, cross-checked against the backend's own table)."""

from __future__ import annotations

import asyncio
import hashlib
import itertools
import random
from typing import Any, Iterable

from .. import loop as L
from ..runner import Check
from ..servers import make_env
from ..shadow import install_glass
from ..workload import History, Session, probe_dump, provision
from .c01 import schedule_family, sched_from, summarize

WEIGHTS = {'store': 4, 'expunge': 2.5, 'uid_expunge': 1, 'copy': 1.2,
           'move': 0.8, 'append': 2, 'fetch_body': 1.2, 'noop': 0.4,
           'fetch_all': 0.5, 'idle': 0.5, 'fetch_some': 0.5}


async def converge_check(env: Any, hist: History, sessions: list[Session],
                         counters: dict[str, int], where: str) -> None:
    """All sessions are paused and the loop is quiescent."""
    truth = await probe_dump(env, hist, b'INBOX')
    if truth is None:
        hist.aborted = 'probe-failed'
        return
    if env.kind == 'dict':
        try:
            mset, _ = env.config.set_cache['testuser']
            direct = {uid: frozenset(f.value.lower() for f in
                                     m.permanent_flags)
                      for uid, m in mset._inbox._messages.items()}
            counters['direct_crosscheck'] = \
                counters.get('direct_crosscheck', 0) + 1
            if set(direct) != set(truth):
                hist.report('probe-disagrees-with-backend-table',
                            'probe %r table %r' % (sorted(truth),
                                                   sorted(direct)))
        except Exception:
            counters['direct_unavailable'] = \
                counters.get('direct_unavailable', 0) + 1
    truth_uids = sorted(truth)
    for s in sessions:
        if not s.alive:
            continue
        sh = s.shadow
        r = await s.cmd(b'NOOP', delay=False)
        if not r.ok:
            continue
        # a real client fetches what it has never been told
        unknown_pos = [k + 1 for k, (u, f) in enumerate(
            zip(sh.uids, sh.flags)) if u is None or f is None]
        for n in unknown_pos:
            if s.alive and n <= sh.count:
                await s.cmd(b'FETCH %d (UID FLAGS)' % n, delay=False)
                counters['filled_unknown'] = \
                    counters.get('filled_unknown', 0) + 1
        if not s.alive:
            continue
        counters['convergence_comparisons'] = \
            counters.get('convergence_comparisons', 0) + 1
        mine = list(sh.uids)
        if mine != truth_uids:
            phantom = [u for u in mine if u not in truth]
            missing = [u for u in truth_uids if u not in mine]
            mech = 'stuck-phantom' if phantom and not missing else \
                'lost-new-message' if missing and not phantom else \
                'uid-set-diverged'
            hist.report(mech,
                        '%s: session %d believes %r, mailbox has %r '
                        '(phantom %r, missing %r)' % (
                            where, s.conn.cid, mine, truth_uids, phantom,
                            missing),
                        {'conn': s.conn.cid})
            continue
        for u, f in zip(sh.uids, sh.flags):
            assert u is not None
            have = (f or frozenset()) - {b'\\recent'}
            want = truth[u]['flags']
            counters['flag_comparisons'] = \
                counters.get('flag_comparisons', 0) + 1
            if have != want:
                hist.report('lost-flag-update',
                            '%s: session %d believes UID %d has %r, mailbox '
                            'has %r' % (where, s.conn.cid, u, sorted(have),
                                        sorted(want)),
                            {'conn': s.conn.cid})
                break


class _RealLoop(asyncio.SelectorEventLoop):
    """An ordinary event loop for the threaded slice (worker threads need
    real wake-ups); ``steps`` only orders the transcripts."""
    _ctr = itertools.count(1)

    @property
    def steps(self) -> int:
        return next(self._ctr)

    def quiescent(self) -> 'asyncio.Future[None]':
        # all bursts are done and the maildir backend has no tasks of its own
        fut = self.create_future()
        self.call_soon(lambda: fut.done() or fut.set_result(None))
        return fut


def run_threaded(spec: dict[str, Any], hist: History,
                 counters: dict[str, int]) -> None:
    """The maildir backend as it is deployed: ``Config.parse_args`` always
    gives it a thread pool, every command runs in a worker thread and
    commands of different connections really overlap.  The schedule is the
    operating system's, so a case is not reproducible; the oracle is the
    ordinary one (views = mailbox after NOOPs) and sound for any schedule.  A
    wall-clock watchdog makes the case inconclusive, never violated."""
    from concurrent.futures import ThreadPoolExecutor
    from pymap.concurrent import Subsystem
    ex = ThreadPoolExecutor(spec.get('workers', 4))
    loop = _RealLoop()
    asyncio.set_event_loop(loop)
    try:
        loop.run_until_complete(asyncio.wait_for(run_history(
            spec, hist, counters,
            subsystem=Subsystem.for_threading(ex)), 120))
        counters['threaded_histories'] = 1
    except asyncio.TimeoutError:
        hist.aborted = 'wall-clock-watchdog'
    finally:
        try:
            tasks = [t for t in asyncio.all_tasks(loop) if not t.done()]
            for t in tasks:
                t.cancel()
            if tasks:
                loop.run_until_complete(asyncio.wait(tasks, timeout=5))
        except Exception:
            pass
        ex.shutdown(wait=False, cancel_futures=True)
        asyncio.set_event_loop(None)
        loop.close()


async def run_history(spec: dict[str, Any], hist: History,
                      counters: dict[str, int],
                      subsystem: Any = None) -> None:
    if subsystem is not None:
        env = await make_env(spec.get('backend', 'maildir'),
                             subsystem=subsystem)
        env.config.apply_context()
    else:
        env = await make_env(spec.get('backend', 'dict'))
    loop = asyncio.get_event_loop()
    try:
        rng = random.Random(spec['seed'])
        if not await provision(env, hist, spec['nmsgs'], rng):
            return
        sched = sched_from(spec)
        sessions = [Session(env, hist, i + 1, sched, spec['seed'] * 31 + i)
                    for i in range(spec['nsess'])]
        for i, s in enumerate(sessions):
            if not await s.start():
                return
            # some observers are read-only: their STORE/EXPUNGE/MOVE are
            # refused, and a refusal must not cost them any later report
            ro = i > 0 and rng.random() < 0.3
            r = await s.select(b'INBOX', examine=ro)
            if not r.ok:
                return
            if ro:
                counters['readonly_sessions'] = \
                    counters.get('readonly_sessions', 0) + 1
            await s.fetch_all()
        rounds = spec['rounds']
        for rnd in range(rounds):
            async def burst(s: Session) -> None:
                for _ in range(spec['per_round']):
                    if not s.alive:
                        return
                    await s.random_step(WEIGHTS)
            await asyncio.gather(*(burst(s) for s in sessions))
            await loop.quiescent()      # type: ignore[attr-defined]
            await converge_check(env, hist, sessions, counters,
                                 'round %d' % rnd)
            if hist.violations or hist.aborted:
                break
    finally:
        env.cleanup()


async def script_store_on_expunged(hist: History,
                                   counters: dict[str, int]) -> None:
    """Defect #2: C stores a flag on a message B has expunged; A, which has
    not yet consumed the expunge, must still be told about it."""
    env = await make_env('dict')
    loop = asyncio.get_event_loop()
    await provision(env, hist, 3, random.Random(1))
    from ..net import Sched
    a, b, c = (Session(env, hist, i, Sched(), i) for i in (1, 2, 3))
    for s in (a, b, c):
        await s.start()
        await s.select(b'INBOX')
        await s.fetch_all()
    await b.cmd(b'STORE 2 +FLAGS (\\Deleted)')
    await b.cmd(b'EXPUNGE')
    await c.store(b'102', True, b'+FLAGS', False, [b'\\Seen'])
    await loop.quiescent()          # type: ignore[attr-defined]
    await converge_check(env, hist, [a, b, c], counters, 'script')


async def script_silent_store(hist: History,
                              counters: dict[str, int]) -> None:
    """B flags a message; A, not yet told, does STORE .SILENT on it: A must
    still learn B's change (only A's own change may be silenced)."""
    env = await make_env('dict')
    loop = asyncio.get_event_loop()
    await provision(env, hist, 3, random.Random(1))
    from ..net import Sched
    a, b = (Session(env, hist, i, Sched(), i) for i in (1, 2))
    for s in (a, b):
        await s.start()
        await s.select(b'INBOX')
        await s.fetch_all()
    await b.store(b'2', False, b'+FLAGS', False, [b'\\Flagged'])
    await a.store(b'2', False, b'+FLAGS', True, [b'\\Seen'])
    await loop.quiescent()          # type: ignore[attr-defined]
    await converge_check(env, hist, [a, b], counters, 'script')


async def script_refused_store(hist: History, counters: dict[str, int],
                               silent: bool = False) -> None:
    """A read-only observer's non-UID STORE is refused; the refusal must not
    cost it the report of B's expunge (or, .SILENT, of B's flag change)."""
    env = await make_env('dict')
    loop = asyncio.get_event_loop()
    await provision(env, hist, 3, random.Random(1))
    from ..net import Sched
    a, b = (Session(env, hist, i, Sched(), i) for i in (1, 2))
    for s in (a, b):
        await s.start()
        await s.select(b'INBOX', examine=s is a)
        await s.fetch_all()
    if silent:
        await a.store(b'1', False, b'+FLAGS', True, [b'\\Flagged'])
        await b.store(b'1', False, b'+FLAGS', False, [b'\\Flagged'])
    else:
        await b.cmd(b'STORE 2 +FLAGS (\\Deleted)')
        await b.cmd(b'EXPUNGE')
        await a.store(b'1', False, b'+FLAGS', False, [b'\\Flagged'])
    await loop.quiescent()          # type: ignore[attr-defined]
    await converge_check(env, hist, [a, b], counters, 'script')


async def script_refused_silent_store(hist: History,
                                      counters: dict[str, int]) -> None:
    await script_refused_store(hist, counters, silent=True)


# -- maildir is a multi-process format ----------------------------------------
#
# pymap's maildir backend runs every command in a worker thread by default
# (``Config.parse_args`` always builds a ThreadPoolExecutor), and other
# processes (a delivery agent, a second server) work on the same directories.
# The controlled loop cannot produce their interleavings: between two awaits a
# command's filesystem calls are one atomic block.  The slice below therefore
# lets an *external actor* act at the two windows that matter, exactly as
# another thread or process could: (1) right after the server has looked a
# message file up and before it uses the name, the file is renamed (a flag
# change, which is how maildir stores flags); (2) after a STORE has renamed the
# file and before the session takes its post-command snapshot, the flag is
# changed back.  The oracle is the ordinary one: after NOOPs every session's
# view must equal the mailbox.

def _flag_rename(path: str, flag: str, add: bool, colon: str = ':') -> str:
    """Rename a message file the way a maildir flag change does."""
    import os
    d, name = os.path.split(path)
    base, _, info = name.partition(colon + '2,')
    flags = set(info)
    if add:
        flags.add(flag)
    else:
        flags.discard(flag)
    new = os.path.join(d, base + colon + '2,' + ''.join(sorted(flags)))
    if new != path:
        os.rename(path, new)
    return new


async def run_external(spec: dict[str, Any], hist: History,
                       counters: dict[str, int]) -> None:
    import os
    from ..net import Sched
    from pymap.backend.maildir import mailbox as mb
    env = await make_env('maildir')
    loop = asyncio.get_event_loop()
    rng = random.Random(spec['seed'])
    state = {'armed': None, 'fired': 0}
    orig_lookup = mb.Maildir._lookup
    orig_update_selected = mb.MailboxData.update_selected

    def lookup(self: Any, key: str) -> str:
        sub = orig_lookup(self, key)
        arm = state['armed']
        if arm and arm[0] == 'lookup' and sub.startswith('cur/'):
            arm[1] -= 1
            if arm[1] < 0:
                state['armed'] = None
                state['fired'] += 1
                path = os.path.join(self._path, sub)
                if os.path.exists(path):
                    # toggle one flag letter
                    _flag_rename(path, arm[2],
                                 arm[2] not in sub.partition(':2,')[2])
        return sub

    async def update_selected(self: Any, selected: Any, *,
                              wait_on: Any = None) -> Any:
        arm = state['armed']
        if arm and arm[0] == 'snapshot':
            state['armed'] = None
            cur = os.path.join(self._path, 'cur')
            for name in sorted(os.listdir(cur)):
                info = name.partition(':2,')[2]
                if arm[1] in info:
                    state['fired'] += 1
                    _flag_rename(os.path.join(cur, name), arm[1], False)
                    break
        return await orig_update_selected(self, selected, wait_on=wait_on)

    mb.Maildir._lookup = lookup                             # type: ignore
    mb.MailboxData.update_selected = update_selected        # type: ignore
    try:
        if not await provision(env, hist, spec['nmsgs'], rng):
            return
        sessions = [Session(env, hist, i + 1, Sched(), spec['seed'] * 31 + i)
                    for i in range(spec['nsess'])]
        for s in sessions:
            if not await s.start():
                return
            if not (await s.select(b'INBOX')).ok:
                return
            await s.fetch_all()
        for rnd in range(spec['rounds']):
            a = rng.choice(sessions)
            kind = spec.get('window') or rng.choice(['lookup', 'snapshot',
                                                     'fetch'])
            if kind == 'lookup':
                # the k-th lookup of A's next command races with a rename
                # (a command looks every message up several times: listing
                # the directory, reading the UID list, taking the snapshot)
                state['armed'] = ['lookup',
                                  rng.randrange(4 * spec['nmsgs'] + 2),
                                  rng.choice('SFRT')]
                verb = rng.choice(['noop', 'fetch', 'store', 'expunge',
                                   'check'])
                if verb == 'noop':
                    await a.noop()
                elif verb == 'fetch':
                    await a.fetch_all()
                elif verb == 'check':
                    await a.cmd(b'CHECK')
                elif verb == 'expunge':
                    await a.cmd(b'EXPUNGE')
                else:
                    await a.store(b'1:*', False, rng.choice(
                        [b'+FLAGS', b'-FLAGS']), rng.random() < 0.5,
                        [rng.choice([b'\\Seen', b'\\Flagged'])])
            elif kind == 'fetch':
                # a flag appears before A's FETCH reads the flags and is
                # gone again before A takes its snapshot: what FETCH told
                # is not what the message has, although nothing differs
                # between the snapshots before and after
                letter = rng.choice('FRS')
                cur = os.path.join(env.base_dir, 'testuser', 'cur')
                names = [n for n in sorted(os.listdir(cur))
                         if letter not in n.partition(':2,')[2]]
                if not names:
                    continue
                _flag_rename(os.path.join(cur, rng.choice(names)), letter,
                             True)
                state['fired'] += 1
                state['armed'] = ['snapshot', letter]
                if rng.random() < 0.5:
                    await a.fetch_all()
                else:
                    await a.cmd(b'FETCH 1:* (FLAGS)')
            else:
                # A stores a flag; it is taken away again before A looks
                flag, letter = rng.choice([(b'\\Answered', 'R'),
                                           (b'\\Flagged', 'F'),
                                           (b'\\Seen', 'S')])
                state['armed'] = ['snapshot', letter]
                n = len(a.shadow.uids)
                if n == 0:
                    state['armed'] = None
                    continue
                await a.store(b'%d' % rng.randint(1, n), False, b'+FLAGS',
                              rng.random() < 0.4, [flag])
            state['armed'] = None
            await loop.quiescent()      # type: ignore[attr-defined]
            # every session polls twice: the first NOOP may find the change
            for s in sessions:
                if s.alive:
                    await s.noop()
            await converge_check(env, hist, sessions, counters,
                                 'external %s, round %d' % (kind, rnd))
            if hist.violations or hist.aborted:
                break
        counters['external_actions'] = counters.get(
            'external_actions', 0) + state['fired']
    finally:
        mb.Maildir._lookup = orig_lookup                    # type: ignore
        mb.MailboxData.update_selected = orig_update_selected  # type: ignore
        env.cleanup()


async def script_external_lookup(hist: History,
                                 counters: dict[str, int]) -> None:
    await run_external({'seed': 5, 'nmsgs': 4, 'nsess': 2, 'rounds': 6,
                        'window': 'lookup'}, hist, counters)


async def script_external_fetch(hist: History,
                                counters: dict[str, int]) -> None:
    await run_external({'seed': 5, 'nmsgs': 4, 'nsess': 2, 'rounds': 6,
                        'window': 'fetch'}, hist, counters)


async def script_external_snapshot(hist: History,
                                   counters: dict[str, int]) -> None:
    await run_external({'seed': 5, 'nmsgs': 4, 'nsess': 2, 'rounds': 6,
                        'window': 'snapshot'}, hist, counters)


SCRIPTS = {'external-lookup': script_external_lookup,
           'external-fetch': script_external_fetch,
           'external-snapshot': script_external_snapshot,
           'store-on-expunged': script_store_on_expunged,
           'silent-store': script_silent_store,
           'refused-store': script_refused_store,
           'refused-silent-store': script_refused_silent_store}


class C02(Check):
    pid = 'C02'
    level = 'exploration'
    rule = ('case = history of mutating commands by 2-4 sessions on one '
            'mailbox (programs drawn from each session\'s own view, biased '
            'towards messages another session has just expunged) x one '
            'external-event schedule, checked at every quiescent point; '
            'distinct = hash of the completion order; non-trivial = at least '
            'one EXPUNGE applied and >= 2 convergence comparisons made')
    assumptions = [
        'asyncio subsystem; dict and maildir(++) backends; threaded / '
        'multi-process maildir is stress-sampled separately (thorough tier)',
        'a client applies its own .SILENT stores optimistically and fetches '
        'flags/UIDs only for positions it was never told about']
    floors = {'convergence_comparisons': 500, 'flag_comparisons': 2000,
              'expunge': 100}

    def cases(self, tier: str, seed: int) -> Iterable[dict[str, Any]]:
        n = 1200 if tier == 'quick' else 30000
        rng = random.Random(seed * 104729 + 2)
        for i in range(n):
            nsess = rng.choice([2, 2, 3, 3, 4])
            backend = 'dict' if rng.random() < 0.85 else 'maildir'
            yield {'seed': seed * 1_000_003 + i, 'backend': backend,
                   'nsess': nsess, 'nmsgs': rng.randint(3, 8),
                   'rounds': rng.randint(1, 3),
                   'per_round': rng.randint(1, 5 if backend == 'dict' else 3),
                   'sched': schedule_family(rng, nsess)}
        # maildir with its real worker threads (not reproducible, see
        # run_threaded)
        for i in range(160 if tier == 'quick' else 4000):
            nsess = rng.choice([2, 3, 4])
            yield {'kind': 'threaded', 'backend': 'maildir',
                   'seed': seed * 1_000_003 + 700_000 + i, 'nsess': nsess,
                   'nmsgs': rng.randint(3, 6), 'rounds': rng.randint(2, 4),
                   'per_round': rng.choice([3, 6, 10]),
                   'workers': rng.choice([2, 4, 8]),
                   'sched': {'kind': 'timing', 'max_delay': 3,
                             'max_drain': 2}}
        # maildir: another thread or process renames message files in the
        # two windows described above run_external()
        for i in range(200 if tier == 'quick' else 4000):
            yield {'kind': 'external', 'seed': seed * 1_000_003 + 500_000 + i,
                   'nmsgs': rng.randint(3, 7), 'nsess': rng.choice([2, 3]),
                   'rounds': rng.randint(2, 5)}

    def setup_worker(self) -> None:
        install_glass()

    def run_case(self, spec: dict[str, Any]) -> dict[str, Any]:
        random.seed(spec['seed'])
        hist = History(str(spec['seed']))
        extra: dict[str, int] = {}

        async def main(loop: L.CtlLoop) -> None:
            if 'script' in spec:
                await SCRIPTS[spec['script']](hist, extra)
            elif spec.get('kind') == 'external':
                await run_external(spec, hist, extra)
            else:
                await run_history(spec, hist, extra)

        try:
            if spec.get('kind') == 'threaded':
                run_threaded(spec, hist, extra)
            else:
                L.run(main, max_steps=600_000)
        except L.Deadlock:
            hist.aborted = 'deadlock'
        counters = summarize(hist)
        counters.update(extra)
        aborted = hist.aborted
        for s in hist.sessions:
            if s.failed and aborted is None:
                aborted = 'session-' + s.failed
        # C01-owned mechanisms seen in passing are not C02 verdicts
        viol = [v for v in hist.violations if v['mech'] in (
            'stuck-phantom', 'lost-new-message', 'uid-set-diverged',
            'lost-flag-update', 'probe-disagrees-with-backend-table')
            # C01 has no slice with threads or external actors: a spurious
            # EXPUNGE or a message re-inserted in mid-view is reported here
            or spec.get('kind') in ('threaded', 'external')]
        other = [v['mech'] for v in hist.violations if v not in viol]
        if other and aborted is None and not viol:
            aborted = 'other-property:' + other[0]
        hist.attach_transcripts()
        sig = hashlib.sha1(repr(hist.order).encode()).hexdigest()[:16]
        return {'violations': viol, 'counters': counters, 'sig': sig,
                'nontrivial': counters.get('expunge', 0) > 0 and
                counters.get('convergence_comparisons', 0) >= 2,
                'sample': {'spec': spec, 'order': [
                    '%d:%s' % (c, v.decode()) for c, v in hist.order[:60]]},
                'aborted': aborted}


CHECK = C02()
