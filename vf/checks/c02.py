"""C02 -- cross-session convergence: no lost, phantom or stuck updates.

Deciding monitor: at every quiescent point of a history (all sessions paused,
loop quiescent, no command in flight) each session issues NOOP and its shadow
view (UID set + flags per UID, as a real client would hold them) is compared
with the actual mailbox contents obtained through a fresh read-only probe
session (and, on dict, cross-checked against the backend's own table)."""

from __future__ import annotations

import asyncio
import hashlib
import random
from typing import Any, Iterable

from .. import loop as L
from ..runner import Check
from ..servers import make_env
from ..shadow import install_glass
from ..workload import History, Session, probe_dump, provision
from .c01 import schedule_family, sched_from, summarize

WEIGHTS = {'store': 4, 'expunge': 2.5, 'uid_expunge': 1, 'copy': 1.2,
           'move': 0.8, 'append': 2, 'fetch_body': 1.2, 'noop': 0.4,
           'fetch_all': 0.5, 'idle': 0.5, 'fetch_some': 0.5}


async def converge_check(env: Any, hist: History, sessions: list[Session],
                         counters: dict[str, int], where: str) -> None:
    """All sessions are paused and the loop is quiescent."""
    truth = await probe_dump(env, hist, b'INBOX')
    if truth is None:
        hist.aborted = 'probe-failed'
        return
    if env.kind == 'dict':
        try:
            mset, _ = env.config.set_cache['testuser']
            direct = {uid: frozenset(f.value.lower() for f in
                                     m.permanent_flags)
                      for uid, m in mset._inbox._messages.items()}
            counters['direct_crosscheck'] = \
                counters.get('direct_crosscheck', 0) + 1
            if set(direct) != set(truth):
                hist.report('probe-disagrees-with-backend-table',
                            'probe %r table %r' % (sorted(truth),
                                                   sorted(direct)))
        except Exception:
            counters['direct_unavailable'] = \
                counters.get('direct_unavailable', 0) + 1
    truth_uids = sorted(truth)
    for s in sessions:
        if not s.alive:
            continue
        sh = s.shadow
        r = await s.cmd(b'NOOP', delay=False)
        if not r.ok:
            continue
        # a real client fetches what it has never been told
        unknown_pos = [k + 1 for k, (u, f) in enumerate(
            zip(sh.uids, sh.flags)) if u is None or f is None]
        for n in unknown_pos:
            if s.alive and n <= sh.count:
                await s.cmd(b'FETCH %d (UID FLAGS)' % n, delay=False)
                counters['filled_unknown'] = \
                    counters.get('filled_unknown', 0) + 1
        if not s.alive:
            continue
        counters['convergence_comparisons'] = \
            counters.get('convergence_comparisons', 0) + 1
        mine = list(sh.uids)
        if mine != truth_uids:
            phantom = [u for u in mine if u not in truth]
            missing = [u for u in truth_uids if u not in mine]
            mech = 'stuck-phantom' if phantom and not missing else \
                'lost-new-message' if missing and not phantom else \
                'uid-set-diverged'
            hist.report(mech,
                        '%s: session %d believes %r, mailbox has %r '
                        '(phantom %r, missing %r)' % (
                            where, s.conn.cid, mine, truth_uids, phantom,
                            missing),
                        {'conn': s.conn.cid})
            continue
        for u, f in zip(sh.uids, sh.flags):
            assert u is not None
            have = (f or frozenset()) - {b'\\recent'}
            want = truth[u]['flags']
            counters['flag_comparisons'] = \
                counters.get('flag_comparisons', 0) + 1
            if have != want:
                hist.report('lost-flag-update',
                            '%s: session %d believes UID %d has %r, mailbox '
                            'has %r' % (where, s.conn.cid, u, sorted(have),
                                        sorted(want)),
                            {'conn': s.conn.cid})
                break


async def run_history(spec: dict[str, Any], hist: History,
                      counters: dict[str, int]) -> None:
    env = await make_env(spec.get('backend', 'dict'))
    loop = asyncio.get_event_loop()
    try:
        rng = random.Random(spec['seed'])
        if not await provision(env, hist, spec['nmsgs'], rng):
            return
        sched = sched_from(spec)
        sessions = [Session(env, hist, i + 1, sched, spec['seed'] * 31 + i)
                    for i in range(spec['nsess'])]
        for i, s in enumerate(sessions):
            if not await s.start():
                return
            # some observers are read-only: their STORE/EXPUNGE/MOVE are
            # refused, and a refusal must not cost them any later report
            ro = i > 0 and rng.random() < 0.3
            r = await s.select(b'INBOX', examine=ro)
            if not r.ok:
                return
            if ro:
                counters['readonly_sessions'] = \
                    counters.get('readonly_sessions', 0) + 1
            await s.fetch_all()
        rounds = spec['rounds']
        for rnd in range(rounds):
            async def burst(s: Session) -> None:
                for _ in range(spec['per_round']):
                    if not s.alive:
                        return
                    await s.random_step(WEIGHTS)
            await asyncio.gather(*(burst(s) for s in sessions))
            await loop.quiescent()      # type: ignore[attr-defined]
            await converge_check(env, hist, sessions, counters,
                                 'round %d' % rnd)
            if hist.violations or hist.aborted:
                break
    finally:
        env.cleanup()


async def script_store_on_expunged(hist: History,
                                   counters: dict[str, int]) -> None:
    """Defect #2: C stores a flag on a message B has expunged; A, which has
    not yet consumed the expunge, must still be told about it."""
    env = await make_env('dict')
    loop = asyncio.get_event_loop()
    await provision(env, hist, 3, random.Random(1))
    from ..net import Sched
    a, b, c = (Session(env, hist, i, Sched(), i) for i in (1, 2, 3))
    for s in (a, b, c):
        await s.start()
        await s.select(b'INBOX')
        await s.fetch_all()
    await b.cmd(b'STORE 2 +FLAGS (\\Deleted)')
    await b.cmd(b'EXPUNGE')
    await c.store(b'102', True, b'+FLAGS', False, [b'\\Seen'])
    await loop.quiescent()          # type: ignore[attr-defined]
    await converge_check(env, hist, [a, b, c], counters, 'script')


async def script_silent_store(hist: History,
                              counters: dict[str, int]) -> None:
    """B flags a message; A, not yet told, does STORE .SILENT on it: A must
    still learn B's change (only A's own change may be silenced)."""
    env = await make_env('dict')
    loop = asyncio.get_event_loop()
    await provision(env, hist, 3, random.Random(1))
    from ..net import Sched
    a, b = (Session(env, hist, i, Sched(), i) for i in (1, 2))
    for s in (a, b):
        await s.start()
        await s.select(b'INBOX')
        await s.fetch_all()
    await b.store(b'2', False, b'+FLAGS', False, [b'\\Flagged'])
    await a.store(b'2', False, b'+FLAGS', True, [b'\\Seen'])
    await loop.quiescent()          # type: ignore[attr-defined]
    await converge_check(env, hist, [a, b], counters, 'script')


async def script_refused_store(hist: History, counters: dict[str, int],
                               silent: bool = False) -> None:
    """A read-only observer's non-UID STORE is refused; the refusal must not
    cost it the report of B's expunge (or, .SILENT, of B's flag change)."""
    env = await make_env('dict')
    loop = asyncio.get_event_loop()
    await provision(env, hist, 3, random.Random(1))
    from ..net import Sched
    a, b = (Session(env, hist, i, Sched(), i) for i in (1, 2))
    for s in (a, b):
        await s.start()
        await s.select(b'INBOX', examine=s is a)
        await s.fetch_all()
    if silent:
        await a.store(b'1', False, b'+FLAGS', True, [b'\\Flagged'])
        await b.store(b'1', False, b'+FLAGS', False, [b'\\Flagged'])
    else:
        await b.cmd(b'STORE 2 +FLAGS (\\Deleted)')
        await b.cmd(b'EXPUNGE')
        await a.store(b'1', False, b'+FLAGS', False, [b'\\Flagged'])
    await loop.quiescent()          # type: ignore[attr-defined]
    await converge_check(env, hist, [a, b], counters, 'script')


async def script_refused_silent_store(hist: History,
                                      counters: dict[str, int]) -> None:
    await script_refused_store(hist, counters, silent=True)


SCRIPTS = {'store-on-expunged': script_store_on_expunged,
           'silent-store': script_silent_store,
           'refused-store': script_refused_store,
           'refused-silent-store': script_refused_silent_store}


class C02(Check):
    pid = 'C02'
    level = 'exploration'
    rule = ('case = history of mutating commands by 2-4 sessions on one '
            'mailbox (programs drawn from each session\'s own view, biased '
            'towards messages another session has just expunged) x one '
            'external-event schedule, checked at every quiescent point; '
            'distinct = hash of the completion order; non-trivial = at least '
            'one EXPUNGE applied and >= 2 convergence comparisons made')
    assumptions = [
        'asyncio subsystem; dict and maildir(++) backends; threaded / '
        'multi-process maildir is stress-sampled separately (thorough tier)',
        'a client applies its own .SILENT stores optimistically and fetches '
        'flags/UIDs only for positions it was never told about']
    floors = {'convergence_comparisons': 500, 'flag_comparisons': 2000,
              'expunge': 100}

    def cases(self, tier: str, seed: int) -> Iterable[dict[str, Any]]:
        n = 1200 if tier == 'quick' else 30000
        rng = random.Random(seed * 104729 + 2)
        for i in range(n):
            nsess = rng.choice([2, 2, 3, 3, 4])
            backend = 'dict' if rng.random() < 0.85 else 'maildir'
            yield {'seed': seed * 1_000_003 + i, 'backend': backend,
                   'nsess': nsess, 'nmsgs': rng.randint(3, 8),
                   'rounds': rng.randint(1, 3),
                   'per_round': rng.randint(1, 5 if backend == 'dict' else 3),
                   'sched': schedule_family(rng, nsess)}

    def setup_worker(self) -> None:
        install_glass()

    def run_case(self, spec: dict[str, Any]) -> dict[str, Any]:
        random.seed(spec['seed'])
        hist = History(str(spec['seed']))
        extra: dict[str, int] = {}

        async def main(loop: L.CtlLoop) -> None:
            if 'script' in spec:
                await SCRIPTS[spec['script']](hist, extra)
            else:
                await run_history(spec, hist, extra)

        try:
            L.run(main, max_steps=600_000)
        except L.Deadlock:
            hist.aborted = 'deadlock'
        counters = summarize(hist)
        counters.update(extra)
        aborted = hist.aborted
        for s in hist.sessions:
            if s.failed and aborted is None:
                aborted = 'session-' + s.failed
        # C01-owned mechanisms seen in passing are not C02 verdicts
        viol = [v for v in hist.violations if v['mech'] in (
            'stuck-phantom', 'lost-new-message', 'uid-set-diverged',
            'lost-flag-update', 'probe-disagrees-with-backend-table')]
        other = [v['mech'] for v in hist.violations if v not in viol]
        if other and aborted is None and not viol:
            aborted = 'other-property:' + other[0]
        hist.attach_transcripts()
        sig = hashlib.sha1(repr(hist.order).encode()).hexdigest()[:16]
        return {'violations': viol, 'counters': counters, 'sig': sig,
                'nontrivial': counters.get('expunge', 0) > 0 and
                counters.get('convergence_comparisons', 0) >= 2,
                'sample': {'spec': spec, 'order': [
                    '%d:%s' % (c, v.decode()) for c, v in hist.order[:60]]},
                'aborted': aborted}


CHECK = C02()
