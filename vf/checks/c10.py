"""C10 -- message commands behave as the IMAP reference model says.

One IMAP session runs a program of message commands (APPEND, STORE, EXPUNGE,
UID EXPUNGE, COPY, MOVE, FETCH, CLOSE and the UID variants) against a real
pymap backend.  A plain reference model (in this file) keeps, per mailbox
(``INBOX`` and ``Other``), the ordered list of messages: unique content id
(``X-VF-ID``), flag set, internal date, size, UID once seen.  After EVERY step

(a) the tagged condition and the untagged responses of the step are compared
    with the model (``n EXPUNGE`` / ``n EXISTS`` are applied to a client view
    in arrival order, the view must then equal the model's list; ``n FETCH``
    is resolved through that view),
(b) the selected mailbox is dumped from the same session
    (``UID FETCH 1:* (UID FLAGS INTERNALDATE RFC822.SIZE
    BODY.PEEK[HEADER.FIELDS (X-VF-ID)])``) and compared message by message,
(c) the non-selected mailbox is counted with ``STATUS (MESSAGES)`` and, after
    every command that writes to it (APPEND/COPY/MOVE) and after CLOSE, dumped
    through a second, read-only (EXAMINE) probe connection.  At the end of the
    case both mailboxes are dumped through the probe.

Sequence sets are evaluated by ``vf.seqset`` (independent of pymap): ``*`` is
the highest sequence number / highest UID, ranges are unordered pairs,
duplicates collapse, UID sets naming expunged or never-assigned UIDs address
nothing (the command is still OK).

The model is a RELATION where RFC 3501/4315/6851 or the statement leave
latitude.  Every use is counted (``lat_*`` counters):

1. Flags the mailbox does not permit (PERMANENTFLAGS of the read-write
   SELECT; no ``\\*``): a non-permitted keyword named in STORE may be applied
   or ignored (``lat_kw_store_ignored`` / ``lat_kw_store_applied``; a
   non-permitted keyword already on a message may survive a replace/remove),
   the named PERMITTED flags must be applied exactly.  Non-permitted keywords
   given in APPEND, or carried by the source of a COPY/MOVE, may be kept or
   dropped (``lat_kw_append_kept/dropped``, ``lat_kw_copy_dropped``); the
   first dump decides the model's value.
2. Out-of-range message sequence numbers (a number > EXISTS, any set on an
   empty mailbox): BAD/NO or OK are all fine (``lat_oor_ok/refused``); if OK,
   exactly the in-range addressed messages are affected.
3. Absolute UID values are free (C04 owns them): only ascending order and
   stability while the message stays in the mailbox are checked.  (A message
   that LEFT the mailbox and is listed again under its old UID is not UID
   policy but wrong mailbox content: ``expunged-uid-resurrected``.)
4. ``\\Recent`` is stripped from every comparison and never stored (C17).
5. INTERNALDATE without a date-time in APPEND: anything (adopted from the first
   dump).  With one: the same instant (both sides parsed, compared in UTC).
   COPY/MOVE keep the instant at 1 s resolution.
6. A FETCH response may carry more than was asked (merged FLAGS); untagged
   FETCH FLAGS for messages not addressed are fine if truthful
   (``lat_unaddressed_fetch``); the LAST flags told for a message during a
   command must equal the flags the following dump shows.
7. The order in which COPY/MOVE place several messages in the destination is
   not fixed by the RFC (``lat_copy_order``); COPYUID may be absent
   (``lat_no_copyuid``), when present its pairs must map equal content.
8. STORE / EXPUNGE on a mailbox selected with EXAMINE: NO/BAD, or OK without
   any change (``lat_readonly_ok``).

A step that violates the model ends the case (no cascades), except a refusal
of a valid command that verifiably left everything unchanged: the model then
follows the server and the program continues.

Case parameters besides the program: backend (dict / maildir / maildir with a
``dovecot-keywords`` file so that ``$Forwarded`` and ``kw1`` are permitted),
and the time zone the server process runs in (``TZ``; a quarter of the cases
use a zone with DST or a non-UTC offset -- INTERNALDATE is compared as an
instant, so the zone must not matter).

Mechanism ids are computed from the witness: which command, which relation
failed, and -- when 'the wrong messages were addressed' -- which part of the
sequence set explains the difference (``blame``).  Two diagnoses are confirmed
by an experiment before they are reported: an unexpected ``\\Seen`` is blamed on
the dump's own ``BODY.PEEK[..]`` only if a fresh message gains ``\\Seen`` from
one more dump; a short dump is blamed on ``*`` only if ``UID FETCH
1:4294967295`` returns the complete list.

Scripted triggers: ``{'script': 'cmds', 'backend': .., 'seed': 1, 'cmds':
[..]}`` (optional ``tz``, ``kwfile``) runs the given command lines (latin-1,
no tag; a trailing ``{msg}`` is replaced by a literal with a fresh message)
through the same model and oracle after ``LOGIN`` and ``CREATE Other``.
"""

from __future__ import annotations

import hashlib
import os
import random
import re
import time
from collections import Counter
from datetime import datetime, timedelta, timezone
from typing import Any, Iterable

from .. import loop as L
from .. import seqset
from ..net import Conn, Result, Sched
from ..runner import Check
from ..servers import make_env
from ..shadow import content_id
from ..workload import make_msg

INBOX = b'INBOX'
OTHER = b'Other'
SEEN = b'\\seen'
DELETED = b'\\deleted'
SYSTEM = (b'\\Answered', b'\\Flagged', b'\\Deleted', b'\\Seen', b'\\Draft')
SYSTEM_L = frozenset(f.lower() for f in SYSTEM)
KEYWORDS = (b'$Forwarded', b'kw1', b'NonJunk')
KWFILE = '0 $Forwarded\n1 kw1\n'          # NonJunk stays non-permitted
DUMP_ATTRS = (b'(UID FLAGS INTERNALDATE RFC822.SIZE '
              b'BODY.PEEK[HEADER.FIELDS (X-VF-ID)])')
MONTHS = (b'Jan', b'Feb', b'Mar', b'Apr', b'May', b'Jun', b'Jul', b'Aug',
          b'Sep', b'Oct', b'Nov', b'Dec')
TZS = ('America/New_York', 'Europe/Berlin', 'Australia/Sydney',
       'Asia/Kolkata')
ZONES = (b'+0000', b'-0500', b'+0530', b'+1400', b'-1200', b'+0100', b'-0330')

_dt_re = re.compile(rb'\A([ \d]\d)-([A-Za-z]{3})-(\d{4}) (\d\d):(\d\d):(\d\d) '
                    rb'([+-])(\d\d)(\d\d)\Z')
_lit_re = re.compile(rb'\{(\d+)(\+?)\}\r\n')


def parse_dt(s: bytes | None) -> datetime | None:
    """IMAP date-time -> naive UTC datetime (own parser, not pymap's)."""
    if not s:
        return None
    m = _dt_re.match(s)
    if not m:
        return None
    try:
        mon = [x.lower() for x in MONTHS].index(m.group(2).lower()) + 1
        off = timedelta(hours=int(m.group(8)), minutes=int(m.group(9)))
        if m.group(7) == b'-':
            off = -off
        local = datetime(int(m.group(3)), mon, int(m.group(1)),
                         int(m.group(4)), int(m.group(5)), int(m.group(6)))
        return local - off
    except (ValueError, OverflowError):
        return None


def traw(r: Result) -> bytes | None:
    return r.tagged.raw if r.tagged is not None else None


def nf(flags: Iterable[bytes]) -> frozenset[bytes]:
    return frozenset(f.lower() for f in flags) - {b'\\recent'}


class Msg:
    __slots__ = ('cid', 'flags', 'date', 'size', 'uid')

    def __init__(self, cid: bytes | None, flags: frozenset[bytes],
                 date: datetime | None, size: int | None,
                 uid: int | None = None) -> None:
        self.cid = cid
        self.flags = flags
        self.date = date
        self.size = size
        self.uid = uid

    def __repr__(self) -> str:
        return '<%s uid=%s %s>' % (
            (self.cid or b'?').decode('latin-1'), self.uid,
            ' '.join(sorted(f.decode('latin-1') for f in self.flags)))


class Row:
    """One line of a dump."""
    __slots__ = ('seq', 'uid', 'cid', 'flags', 'date', 'size', 'rawdate')

    def __init__(self, seq: int, att: dict[bytes, Any]) -> None:
        self.seq = seq
        self.uid = att.get(b'UID')
        self.cid = content_id(att)
        self.flags = nf(att.get(b'FLAGS') or [])
        self.rawdate = att.get(b'INTERNALDATE')
        self.date = parse_dt(self.rawdate)
        self.size = att.get(b'RFC822.SIZE')

    def __repr__(self) -> str:
        return '(%s uid=%s %s %s)' % (
            (self.cid or b'?').decode('latin-1'), self.uid,
            ' '.join(sorted(f.decode('latin-1') for f in self.flags)),
            (self.rawdate or b'').decode('latin-1'))


class _New:
    """Placeholder in the client view for a message announced by EXISTS."""


# -- command text -> operation -------------------------------------------------

def _tokens(head: bytes) -> list[bytes]:
    out: list[bytes] = []
    cur = bytearray()
    depth = 0
    quoted = False
    i = 0
    while i < len(head):
        c = head[i:i + 1]
        if quoted:
            cur += c
            if c == b'\\' and i + 1 < len(head):
                cur += head[i + 1:i + 2]
                i += 1
            elif c == b'"':
                quoted = False
        elif c == b'"':
            quoted = True
            cur += c
        elif c in b'([':
            depth += 1
            cur += c
        elif c in b')]':
            depth -= 1
            cur += c
        elif c == b' ' and depth <= 0:
            if cur:
                out.append(bytes(cur))
                cur = bytearray()
        else:
            cur += c
        i += 1
    if cur:
        out.append(bytes(cur))
    return out


def _mbox(tok: bytes) -> bytes:
    if tok.startswith(b'"') and tok.endswith(b'"') and len(tok) >= 2:
        tok = tok[1:-1].replace(b'\\"', b'"').replace(b'\\\\', b'\\')
    return INBOX if tok.upper() == INBOX else tok


class Attr:
    """One FETCH data item of a request."""

    def __init__(self, raw: bytes) -> None:
        self.raw = raw
        m = re.match(rb'\A([A-Za-z0-9.]+)(?:\[(.*)\])?(?:<(\d+)\.(\d+)>)?\Z',
                     raw, re.S)
        self.ok = bool(m)
        self.name = (m.group(1) if m else raw).upper()
        self.section = m.group(2) if m else None
        self.origin = int(m.group(3)) if m and m.group(3) else None

    @property
    def sets_seen(self) -> bool:
        """RFC 3501 6.4.5 / RFC 3516: BODY[..], BINARY[..], RFC822 and
        RFC822.TEXT set \\Seen; the PEEK forms, RFC822.HEADER, RFC822.SIZE and
        the metadata items do not."""
        if self.name == b'BODY' and self.section is not None:
            return True
        if self.name == b'BINARY' and self.section is not None:
            return True
        return self.name in (b'RFC822', b'RFC822.TEXT')

    @property
    def keys(self) -> list[bytes]:
        """Normalised names of the response items this request item needs."""
        n = self.name
        if n in (b'ALL', b'FAST', b'FULL') and self.section is None:
            ks = [b'FLAGS', b'INTERNALDATE', b'RFC822.SIZE']
            if n != b'FAST':
                ks.append(b'ENVELOPE')
            if n == b'FULL':
                ks.append(b'BODY')
            return ks
        if n == b'BODY.PEEK':
            n = b'BODY'
        elif n == b'BINARY.PEEK':
            n = b'BINARY'
        if self.section is not None:
            n = n + b'[' + self.section + b']'
            if self.origin is not None:
                n += b'<%d>' % self.origin
        return [norm_key(n)]

    @property
    def label(self) -> str:
        s = self.name.decode('latin-1')
        if self.section is not None:
            sec = self.section.split(b' ')[0].upper().decode('latin-1')
            s += '[%s]' % sec
            if self.origin is not None:
                s += '<partial>'
        return s


def norm_key(k: bytes) -> bytes:
    return re.sub(rb' +', b' ', k.upper())


def parse_cmd(line: bytes) -> dict[str, Any]:
    """Command text (no tag) -> operation for the model.  ``valid`` False
    means the arguments are not syntactically valid IMAP (must be refused)."""
    op: dict[str, Any] = {'raw': line, 'verb': '?', 'uid': False,
                          'valid': True, 'literal': None}
    head = line
    m = _lit_re.search(line)
    if m:
        head = line[:m.start()].rstrip(b' ')
        op['literal'] = line[m.end():m.end() + int(m.group(1))]
    toks = _tokens(head)
    if not toks:
        return op
    if toks[0].upper() == b'UID' and len(toks) > 1:
        op['uid'] = True
        toks = toks[1:]
    verb = toks[0].upper().decode('latin-1')
    args = toks[1:]
    op['verb'] = verb
    op['name'] = ('UID ' if op['uid'] else '') + verb

    def want_set(tok: bytes) -> None:
        op['set'] = tok
        try:
            parts = seqset.parse(tok)
            if any(v is not None and v > 4294967295
                   for p in parts for v in p):
                op['valid'] = False
        except ValueError:
            op['valid'] = False

    if verb in ('SELECT', 'EXAMINE'):
        op['mbox'] = _mbox(args[0]) if args else b''
    elif verb in ('CLOSE', 'NOOP', 'CHECK'):
        pass
    elif verb == 'EXPUNGE':
        if op['uid']:
            if args:
                want_set(args[0])
            else:
                op['valid'] = False
                op['set'] = b''
    elif verb == 'STORE':
        if len(args) < 2:
            op['valid'] = False
            return op
        want_set(args[0])
        m2 = re.match(rb'\A([+-]?)FLAGS(\.SILENT)?\Z', args[1], re.I)
        if not m2:
            op['valid'] = False
            return op
        op['mode'] = m2.group(1).decode()
        op['silent'] = bool(m2.group(2))
        rest = args[2:]
        if len(rest) == 1 and rest[0].startswith(b'('):
            fl = rest[0][1:-1].split()
        else:
            fl = rest
            if not fl:
                op['valid'] = False
        op['flags'] = nf(fl)
    elif verb in ('COPY', 'MOVE'):
        if len(args) < 2:
            op['valid'] = False
            return op
        want_set(args[0])
        op['mbox'] = _mbox(args[1])
    elif verb == 'FETCH':
        if len(args) < 2:
            op['valid'] = False
            return op
        want_set(args[0])
        spec = b' '.join(args[1:])
        if spec.startswith(b'(') and spec.endswith(b')'):
            items = _tokens(spec[1:-1])
        else:
            items = [spec]
        op['attrs'] = [Attr(i) for i in items]
    elif verb == 'APPEND':
        op['mbox'] = _mbox(args[0]) if args else b''
        op['flags'] = None
        op['date'] = None
        op['rawdate'] = None
        for a in args[1:]:
            if a.startswith(b'('):
                op['flags'] = nf(a[1:-1].split())
            elif a.startswith(b'"'):
                op['rawdate'] = a[1:-1]
                op['date'] = parse_dt(a[1:-1])
                if op['date'] is None:
                    op['valid'] = False
        if op['literal'] is None:
            op['valid'] = False
        else:
            op['cid'] = content_id({b'BODY[]': op['literal']})
    return op


def set_shape(s: bytes, uid: bool) -> str:
    try:
        parts = seqset.parse(s)
    except ValueError:
        return 'invalid'
    kinds = []
    for a, b in parts:
        if a is None and b is None:
            kinds.append('star')
        elif a is None or b is None:
            kinds.append('star-range')
        elif a == b:
            kinds.append('one')
        elif a > b:
            kinds.append('reversed')
        else:
            kinds.append('range')
    if len(kinds) == 1:
        k = kinds[0]
    elif len(set(parts)) < len(parts):
        k = 'dup'
    else:
        k = 'list:' + '+'.join(sorted(set(kinds)))
    return ('u-' if uid else '') + k


# -- the case -------------------------------------------------------------------

class Stop(Exception):
    """The step violated the model: end the case."""


class Case:

    def __init__(self, spec: dict[str, Any]) -> None:
        self.spec = spec
        self.backend = spec.get('backend', 'dict')
        self.rng = random.Random(spec.get('seed', 0))
        self.rng_peer = random.Random(spec.get('seed', 0) * 31 + 7)
        self.npeer = 0
        self.viol: list[dict[str, Any]] = []
        self.cnt: Counter[str] = Counter()
        self.boxes: dict[bytes, list[Msg]] = {INBOX: [], OTHER: []}
        self.perm: dict[bytes, frozenset[bytes] | None] = {INBOX: None,
                                                           OTHER: None}
        self.gone: dict[bytes, dict[int, bytes | None]] = {INBOX: {},
                                                           OTHER: {}}
        self.sel: bytes | None = None
        self.ro = False
        self.view: list[Any] = []
        self.ncid = 0
        self.sig: list[str] = []
        self.lines: list[bytes] = []
        self.aborted: str | None = None
        self.mutations = 0
        self.conn: Conn = None      # type: ignore[assignment]
        self.probe: Conn = None     # type: ignore[assignment]
        self.cur: dict[str, Any] = {}
        self.shape = ''
        self.step_failed = False
        self.suspect_seen = False
        self.boxes_pre: list[Msg] = []
        self.view_after: list[Any] = []

    # -- reporting ------------------------------------------------------------

    def report(self, mech: str, detail: str, **w: Any) -> None:
        self.step_failed = True
        if any(v['mech'] == mech for v in self.viol) or len(self.viol) >= 8:
            return
        line = self.cur.get('raw', b'')
        wit = {'step': len(self.lines), 'command': line[:200],
               'selected': self.sel, 'readonly': self.ro,
               'backend': self.backend}
        wit.update(w)
        self.viol.append({
            'mech': mech,
            'detail': 'step %d %r: %s' % (len(self.lines),
                                          line[:80].decode('latin-1'),
                                          detail),
            'witness': wit})

    def fail(self, mech: str, detail: str, **w: Any) -> None:
        self.report(mech, detail, **w)
        raise Stop()

    def program(self) -> list[str]:
        out = []
        for ln in self.lines:
            m = _lit_re.search(ln)
            if m:
                lit_ = ln[m.end():]
                cid = content_id({b'BODY[]': lit_}) or b'?'
                ln = ln[:m.start()] + b'{msg ' + cid + b'}'
            out.append(ln.decode('latin-1'))
        return out

    # -- wire -----------------------------------------------------------------

    async def send(self, line: bytes, conn: Conn | None = None) -> Result:
        c = conn or self.conn
        tag = c.next_tag()
        m = _lit_re.search(line)
        if m and not m.group(2):
            segs = [tag + b' ' + line[:m.end()], line[m.end():] + b'\r\n']
        else:
            segs = [tag + b' ' + line + b'\r\n']
        r = await c.command(tag, segs)
        if r.closed or r.tagged is None or \
                any(u.cond == b'BYE' for u in r.untagged):
            if self.aborted is None:
                self.aborted = 'connection-died'
            raise Stop()
        return r

    def absorb(self, op: dict[str, Any], r: Result) -> dict[str, Any]:
        """Apply the untagged responses, in order, to the client view."""
        info: dict[str, Any] = {'expunged': [], 'fetch': [], 'exists': None,
                                'copyuid': None, 'appenduid': None,
                                'permflags': None, 'problems': []}
        selecting = op['verb'] in ('SELECT', 'EXAMINE')
        for u in r.untagged:
            if u.cond is not None:
                if u.code == b'COPYUID' and isinstance(u.data, tuple):
                    info['copyuid'] = u.data
                elif u.code == b'PERMANENTFLAGS' and u.data is not None:
                    info['permflags'] = u.data
                continue
            if u.typ == b'EXISTS':
                n = u.num or 0
                info['exists'] = n
                if selecting:
                    continue
                if self.sel is None:
                    info['problems'].append('EXISTS while nothing selected')
                elif n < len(self.view):
                    info['problems'].append('EXISTS %d < view %d' % (
                        n, len(self.view)))
                else:
                    self.view.extend(_New() for _ in
                                     range(n - len(self.view)))
            elif u.typ == b'EXPUNGE':
                n = u.num or 0
                if selecting or not 1 <= n <= len(self.view):
                    info['problems'].append('EXPUNGE %d with view of %d' % (
                        n, len(self.view)))
                else:
                    info['expunged'].append(self.view.pop(n - 1))
            elif u.typ == b'FETCH':
                n = u.num or 0
                if selecting or not 1 <= n <= len(self.view):
                    info['problems'].append('FETCH %d with view of %d' % (
                        n, len(self.view)))
                else:
                    info['fetch'].append((n, self.view[n - 1], u.data or {}))
        t = r.tagged
        if t is not None and isinstance(t.data, tuple):
            if t.code == b'COPYUID':
                info['copyuid'] = t.data
            elif t.code == b'APPENDUID':
                info['appenduid'] = t.data
        return info

    def _rows(self, r: Result) -> list[Row]:
        return [Row(u.num or 0, u.data) for u in r.untagged
                if u.typ == b'FETCH' and isinstance(u.data, dict)]

    async def _dump(self, conn: Conn, told: int | None, who: str,
                    box: bytes | None) -> tuple[list[Row], Result]:
        r = await self.send(b'UID FETCH 1:* ' + DUMP_ATTRS, conn)
        self.cnt['dumps_compared'] += 1
        if not r.ok:
            self.fail('dump-refused', '%s: UID FETCH 1:* answered %r' % (
                who, traw(r)))
        rows = self._rows(r)
        if told is not None and len(rows) != told:
            # is it the dump's own '1:*'?  ask again without '*'
            r2 = await self.send(b'UID FETCH 1:4294967295 ' + DUMP_ATTRS,
                                 conn)
            rows2 = self._rows(r2)
            if r2.ok and len(rows2) == told:
                self.fail('uidset-star-wrong',
                          '%s: UID FETCH 1:* returned %d of the %d messages '
                          'the server announced, UID FETCH 1:4294967295 '
                          'returned all of them' % (who, len(rows), told))
        self._shape_check(rows, who, box)
        return rows, r

    async def dump_sel(self) -> list[Row]:
        rows, r = await self._dump(self.conn, len(self.view), 'session',
                                   self.sel)
        stray = [u.raw for u in r.untagged
                 if u.typ in (b'EXPUNGE', b'EXISTS')]
        if stray:
            self.fail('update-withheld:%s' % self.cur.get('name', '?'),
                      'the dump right after the command carried %r: the '
                      'command itself did not report the change' % stray)
        return rows

    async def dump_sel_quiet(self) -> list[Row]:
        """Dump where a count mismatch with the view is analysed by the
        caller (so no 'update-withheld' short cut)."""
        rows, _ = await self._dump(self.conn, len(self.view), 'session',
                                   self.sel)
        return rows

    async def dump_probe(self, box: bytes) -> list[Row]:
        r = await self.send(b'EXAMINE ' + box, self.probe)
        if not r.ok:
            self.fail('probe-examine-refused', '%r' % traw(r))
        told = None
        for u in r.untagged:
            if u.typ == b'EXISTS':
                told = u.num
        self.cnt['probe_dumps'] += 1
        rows, _ = await self._dump(self.probe, told, 'probe', box)
        return rows

    def _shape_check(self, rows: list[Row], who: str,
                     box: bytes | None) -> None:
        left = self.gone.get(box or b'', {})
        back = [row for row in rows
                if row.uid in left and left[row.uid] == row.cid]
        if back:
            # not a question of UID assignment (latitude 3): the very message
            # that left the mailbox is listed again under its old UID
            self.fail('expunged-uid-resurrected:%s' % self.cur.get(
                'verb', '?'),
                '%s lists %r again: UIDs %r had left the mailbox (expunged '
                'or moved away) earlier in this session; %s dump: %r' % (
                    (box or b'?').decode(), back, [r.uid for r in back],
                    who, rows))
        seqs = [row.seq for row in rows]
        if seqs != list(range(1, len(rows) + 1)):
            self.fail('dump-seq-not-consecutive',
                      '%s dump sequence numbers %r' % (who, seqs))
        uids = [row.uid for row in rows]
        if any(u is None for u in uids) or \
                any(a >= b for a, b in zip(uids, uids[1:])):  # type: ignore
            self.fail('uids-not-ascending', '%s dump UIDs %r' % (who, uids))

    async def status_count(self, box: bytes) -> None:
        r = await self.send(b'STATUS ' + box + b' (MESSAGES)')
        n = None
        for u in r.untagged:
            if u.typ == b'STATUS' and isinstance(u.data, dict):
                n = u.data['att'].get(b'MESSAGES')
        self.cnt['status_compared'] += 1
        if not r.ok or n != len(self.boxes[box]):
            self.fail('mailbox-count-wrong:%s' % self.cur.get('name', '?'),
                      'STATUS %s (MESSAGES) says %r, model has %d' % (
                          box.decode(), n, len(self.boxes[box])))

    # -- model helpers --------------------------------------------------------

    def permitted(self, f: bytes, box: bytes) -> bool:
        perm = self.perm.get(box)
        if f in SYSTEM_L:
            return perm is None or f in perm
        if perm is None:
            return False
        return f in perm or (b'\\*' in perm and not f.startswith(b'\\'))

    def addressed(self, op: dict[str, Any]) -> list[int]:
        """1-based positions in the selected mailbox addressed by the set."""
        assert self.sel is not None
        msgs = self.boxes[self.sel]
        if op['uid']:
            uids = [m.uid for m in msgs]
            hit = set(seqset.select_uids(op['set'], uids))  # type: ignore
            return [p for p, m in enumerate(msgs, 1) if m.uid in hit]
        return seqset.select_seqs(op['set'], len(msgs))

    def out_of_range(self, op: dict[str, Any]) -> bool:
        if op['uid'] or self.sel is None:
            return False
        n = len(self.boxes[self.sel])
        if n == 0:
            return True
        return any(v is not None and v > n
                   for p in seqset.parse(op['set']) for v in p)

    def blame(self, op: dict[str, Any], wrong: set[int], fallback: str) \
            -> str:
        """Structural mechanism id for 'the wrong messages were addressed':
        which part of the set explains the positions that differ."""
        assert self.sel is not None
        msgs = self.boxes_pre
        n = len(msgs)
        uid = op['uid']
        parts = seqset.parse(op['set'])

        def ev(ps: list[tuple[int | None, int | None]]) -> set[int]:
            if not ps or not n:
                return set()
            if uid:
                mx = max(m.uid for m in msgs)   # type: ignore[type-var]
                return {p for p, m in enumerate(msgs, 1)
                        if seqset.contains(ps, m.uid, mx)}  # type: ignore
            return {p for p in range(1, n + 1) if seqset.contains(ps, p, n)}

        star = [p for p in parts if p[0] is None or p[1] is None]
        rev = [p for p in parts if p[0] is not None and p[1] is not None
               and p[0] > p[1]]
        plain = [p for p in parts if p not in star and p not in rev]
        pre = 'uidset' if uid else 'seqset'
        if star and not (wrong & ev(plain)):
            return pre + '-star-wrong'
        if rev and wrong and wrong <= ev(rev):
            return pre + '-reversed-range-wrong'
        return fallback

    def same_list(self, box: bytes, rows: list[Row], verb: str) -> None:
        """The dump lists exactly the model's messages, in order, with the
        same UIDs, sizes and dates (flags are compared by the caller)."""
        msgs = self.boxes[box]
        if len(rows) != len(msgs):
            self.fail('%s-changed-message-list' % verb,
                      '%s: model %r, dump %r' % (box.decode(), msgs, rows))
        for p, (m, row) in enumerate(zip(msgs, rows), 1):
            self.same_msg(m, row, verb, p)

    def same_msg(self, m: Msg, row: Row, verb: str, p: int) -> None:
        self.cnt['messages_compared'] += 1
        if row.cid != m.cid:
            self.fail('%s-changed-message-list' % verb,
                      'position %d is %r, expected %r' % (p, row, m))
        if m.uid is not None and row.uid != m.uid:
            self.fail('uid-changed:%s' % verb,
                      'position %d %r now has UID %r' % (p, m, row.uid))
        if m.size is not None and row.size != m.size:
            self.fail('size-changed:%s' % verb,
                      'position %d %r: RFC822.SIZE %r, expected %r' % (
                          p, m, row.size, m.size))
        if row.date is None:
            self.cnt['unparsed_internaldate'] += 1
        elif m.date is not None and \
                abs((row.date - m.date).total_seconds()) > 1:
            self.fail('internaldate-changed:%s' % verb,
                      'position %d %r: INTERNALDATE %r, expected instant '
                      '%s UTC' % (p, m, row.rawdate, m.date))

    def flags_same(self, box: bytes, rows: list[Row], verb: str,
                   mech: str) -> None:
        bad = []
        for p, (m, row) in enumerate(zip(self.boxes[box], rows), 1):
            self.cnt['flag_comparisons'] += 1
            if row.flags != m.flags:
                bad.append((p, m, row))
        if not bad:
            return
        if box == self.sel:
            for _, m, row in bad:
                self.sus(m.flags, row.flags)
        p, m, row = bad[0]
        self.fail(mech, '%s position %d: flags %r, expected %r' % (
            box.decode(), p, sorted(row.flags), sorted(m.flags)))

    def adopt(self, box: bytes, rows: list[Row]) -> None:
        for m, row in zip(self.boxes[box], rows):
            m.uid = row.uid
            m.flags = row.flags
            if m.date is None:
                m.date = row.date
            if m.size is None:
                m.size = row.size

    def told_flags(self, info: dict[str, Any]) -> dict[int, Any]:
        """Last FLAGS told per message during the command."""
        out: dict[int, Any] = {}
        for n, m, att in info['fetch']:
            if b'FLAGS' in att:
                out[id(m)] = (m, nf(att[b'FLAGS']), n)
        return out

    def check_told(self, op: dict[str, Any], info: dict[str, Any]) -> None:
        """Latitude 6: whatever FLAGS the command reported last for a message
        must be what the dump (already adopted into the model) shows."""
        sel = self.boxes[self.sel] if self.sel else []
        for m, fl, n in self.told_flags(info).values():
            if isinstance(m, _New):
                k = self.view_index(m)
                if k is None or k >= len(sel):
                    continue
                m = sel[k]
            if not any(m is x for x in sel):
                continue
            self.cnt['told_flags_checked'] += 1
            if fl != m.flags:
                self.fail('flags-response-untruthful:%s' % op['name'],
                          '* %d FETCH told %r for %r, the dump shows %r' % (
                              n, sorted(fl), m, sorted(m.flags)))

    def view_index(self, obj: Any) -> int | None:
        for k, x in enumerate(self.view_after):
            if x is obj:
                return k
        return None

    def check_view(self, op: dict[str, Any], info: dict[str, Any]) -> None:
        """After the model was updated: the client view built from untagged
        EXISTS/EXPUNGE must be the model's list of the selected mailbox."""
        self.view_after = list(self.view)
        fam = 'expunge-responses-wrong' \
            if op['verb'] in ('EXPUNGE', 'MOVE') else 'untagged-view-wrong'
        if info['problems']:
            self.fail('%s:%s' % (fam, op['name']),
                      '; '.join(info['problems']))
        if self.sel is None:
            self.view = []
            return
        msgs = self.boxes[self.sel]
        ok = len(self.view) == len(msgs) and all(
            isinstance(v, _New) or v is m for v, m in zip(self.view, msgs))
        self.cnt['views_compared'] += 1
        if not ok:
            self.fail('%s:%s' % (fam, op['name']),
                      'after applying the untagged EXISTS/EXPUNGE responses '
                      'the client sees %r, the mailbox is %r (expunged by '
                      'response: %r)' % (
                          [v if not isinstance(v, _New) else 'new'
                           for v in self.view], msgs, info['expunged']))
        self.view = list(msgs)

    # -- one step -------------------------------------------------------------

    def sus(self, expected: frozenset[bytes], obs: frozenset[bytes]) -> None:
        """A mismatch that is exactly an unexpected \\Seen: the dump's own
        BODY.PEEK[...] is a suspect; confirmed by experiment at Stop."""
        if SEEN not in expected and obs == expected | {SEEN}:
            self.suspect_seen = True

    async def confirm_peek(self) -> bool:
        """Fresh message, FLAGS before and after one dump."""
        assert self.sel is not None
        msg = make_msg(b'peek-experiment')
        r = await self.send(b'APPEND ' + self.sel + b' {%d+}\r\n' % len(msg)
                            + msg)
        n = None
        for u in r.untagged:
            if u.typ == b'EXISTS':
                n = u.num
        if not r.ok or not n:
            return False

        async def flags() -> frozenset[bytes] | None:
            r = await self.send(b'FETCH %d (FLAGS)' % n)
            for u in r.untagged:
                if u.typ == b'FETCH' and u.num == n and \
                        isinstance(u.data, dict) and b'FLAGS' in u.data:
                    return nf(u.data[b'FLAGS'])
            return None
        before = await flags()
        await self.send(b'UID FETCH 1:4294967295 ' + DUMP_ATTRS)
        after = await flags()
        return before is not None and after is not None and \
            SEEN not in before and SEEN in after

    async def step(self, line: bytes) -> None:
        self.suspect_seen = False
        n0 = len(self.viol)
        try:
            await self._step(line)
        except Stop:
            if self.suspect_seen and len(self.viol) > n0 and self.sel \
                    and not self.ro and self.aborted is None:
                try:
                    confirmed = await self.confirm_peek()
                except Stop:
                    confirmed = False
                if confirmed:
                    v = self.viol[n0]
                    del self.viol[n0 + 1:]
                    mech = 'fetch-sets-seen-on-peek:BODY.PEEK'
                    if any(x['mech'] == mech for x in self.viol[:n0]):
                        del self.viol[n0:]
                    else:
                        v['detail'] = (
                            'experiment: a fresh message had no \\Seen, got '
                            'it after UID FETCH .. (%s) -- first seen as %s: '
                            '%s' % (DUMP_ATTRS.decode(), v['mech'],
                                    v['detail']))
                        v['mech'] = mech
            raise

    async def _step(self, line: bytes) -> None:
        op = parse_cmd(line)
        self.cur = op
        self.lines.append(line)
        verb = op['verb']
        shape = set_shape(op['set'], op['uid']) if op.get('set') else ''
        self.shape = shape
        self.sig.append('%s/%s/%s%s' % (
            op.get('name', verb), shape, op.get('mode', ''),
            's' if op.get('silent') else ''))
        if verb == 'FETCH' and self.sel is not None \
                and self.boxes[self.sel] and 'cmds' not in self.spec \
                and self.rng_peer.random() < 0.2:
            await self.peer_edit()
        self.boxes_pre = list(self.boxes[self.sel]) if self.sel else []
        self.step_failed = False
        r = await self.send(line)
        info = self.absorb(op, r)
        self.cnt['steps_compared'] += 1
        self.cnt['cmd_' + op.get('name', verb).lower().replace(' ', '_')] += 1
        if shape:
            self.cnt['shape_' + shape] += 1
        handler = getattr(self, 'h_' + verb.lower(), None)
        if handler is None:
            raise RuntimeError('harness: unknown command %r' % verb)
        allowed, lat = self.allowed(op)
        cond = (r.cond or b'?').decode()
        if cond not in allowed:
            if cond == 'OK':
                self.fail('ok-but-should-refuse:%s' % self.refuse_reason(op),
                          'answered %r, the model allows %s' % (
                              traw(r), sorted(allowed)))
            # a refusal of a valid command: record, and if verifiably
            # nothing changed follow the server
            why = ':readonly' if self.ro and self.sel else ''
            self.report('refused-valid-command:%s%s' % (op['name'], why),
                        'answered %r, the model allows only %s' % (
                            traw(r), sorted(allowed)))
            self.step_failed = False
            await self.unchanged(op, info)
            return
        if lat and cond == 'OK':
            self.cnt['lat_%s_ok' % lat] += 1
        elif lat:
            self.cnt['lat_%s_refused' % lat] += 1
        if cond != 'OK':
            self.cnt['refusals_expected'] += 1
            if verb in ('SELECT', 'EXAMINE'):
                self.sel = None
                self.view = []
            await self.unchanged(op, info)
            return
        if lat == 'readonly':
            await self.unchanged(op, info)
            return
        await handler(op, r, info)
        if self.step_failed:
            raise Stop()

    def refuse_reason(self, op: dict[str, Any]) -> str:
        verb = op['name']
        if not op['valid']:
            return verb + ':invalid-arguments'
        if op['verb'] in ('SELECT', 'EXAMINE', 'COPY', 'MOVE', 'APPEND') \
                and op.get('mbox') not in self.boxes \
                and not (self.sel is None and op['verb'] in ('COPY', 'MOVE')):
            return verb + ':no-such-mailbox'
        if self.sel is None:
            return verb + ':not-selected'
        return verb + ':readonly'

    def allowed(self, op: dict[str, Any]) -> tuple[set[str], str | None]:
        verb = op['verb']
        refuse = {'NO', 'BAD'}
        if not op['valid']:
            return refuse, None
        if verb in ('SELECT', 'EXAMINE'):
            return ({'OK'} if op['mbox'] in self.boxes else refuse), None
        if verb == 'APPEND':
            return ({'OK'} if op['mbox'] in self.boxes else refuse), None
        if verb == 'NOOP':
            return {'OK'}, None
        if self.sel is None:
            return refuse, None
        if verb in ('COPY', 'MOVE') and op['mbox'] not in self.boxes:
            return refuse, None
        if self.ro and verb == 'MOVE':
            return refuse, None
        if self.ro and verb in ('STORE', 'EXPUNGE'):
            return {'OK', 'NO', 'BAD'}, 'readonly'
        if verb in ('STORE', 'FETCH', 'COPY', 'MOVE') \
                and self.out_of_range(op):
            return {'OK', 'NO', 'BAD'}, 'oor'
        return {'OK'}, None

    async def unchanged(self, op: dict[str, Any], info: dict[str, Any]) \
            -> None:
        """The command must not have had any effect."""
        name = op.get('name', op['verb'])
        self.check_view(op, info)
        if self.sel is not None:
            rows = await self.dump_sel()
            self.same_list(self.sel, rows, name + '-refused-but')
            self.flags_same(self.sel, rows, name,
                            '%s-refused-but-changed-flags' % name)
            self.adopt(self.sel, rows)
        for box in self.boxes:
            if box != self.sel:
                await self.status_count(box)

    async def others(self) -> None:
        for box in self.boxes:
            if box != self.sel:
                await self.status_count(box)

    # -- handlers (tagged OK, command valid) ------------------------------------

    async def h_noop(self, op: dict[str, Any], r: Result,
                     info: dict[str, Any]) -> None:
        await self.unchanged(op, info)

    h_check = h_noop

    async def h_select(self, op: dict[str, Any], r: Result,
                       info: dict[str, Any]) -> None:
        box = op['mbox']
        self.sel = box
        self.ro = op['verb'] == 'EXAMINE'
        msgs = self.boxes[box]
        if info['exists'] != len(msgs):
            self.fail('select-wrong-exists',
                      '%r EXISTS, the mailbox has %d messages' % (
                          info['exists'], len(msgs)))
        code = r.tagged.code if r.tagged else None
        if code in (b'READ-ONLY', b'READ-WRITE') and \
                (code == b'READ-ONLY') != self.ro:
            self.fail('select-wrong-access-code',
                      '%s answered [%s]' % (op['verb'], code.decode()))
        if not self.ro and info['permflags'] is not None:
            self.perm[box] = frozenset(f.lower() for f in info['permflags'])
            self.cnt['permanentflags_learned'] += 1
        self.view = list(msgs)
        info['problems'] = []
        self.check_view(op, info)
        rows = await self.dump_sel()
        self.same_list(box, rows, op['verb'])
        self.flags_same(box, rows, op['verb'], 'select-changed-flags')
        self.adopt(box, rows)
        await self.others()

    h_examine = h_select

    def store_relation(self, old: frozenset[bytes], obs: frozenset[bytes],
                       mode: str, named: frozenset[bytes], box: bytes) \
            -> tuple[bool, list[str]]:
        if mode == '+':
            rfc = old | named
        elif mode == '-':
            rfc = old - named
        else:
            rfc = named
        ok = True
        lat: list[str] = []
        for f in old | named | obs:
            if f == b'\\recent':
                continue
            if self.permitted(f, box):
                if (f in obs) != (f in rfc):
                    ok = False
            else:
                have = f in obs
                if have == (f in rfc):
                    if (f in rfc) != (f in old):
                        lat.append('lat_kw_store_applied')
                elif have == (f in old):
                    lat.append('lat_kw_store_ignored')
                elif mode == '' and not have:
                    # the keyword was dropped from the list, then the
                    # (remaining) list replaced the flags
                    lat.append('lat_kw_store_ignored')
                else:
                    ok = False
        return ok, lat

    async def h_store(self, op: dict[str, Any], r: Result,
                      info: dict[str, Any]) -> None:
        box = self.sel
        assert box is not None
        msgs = self.boxes[box]
        aset = set(self.addressed(op))
        self.check_view(op, info)
        rows = await self.dump_sel()
        self.same_list(box, rows, op['name'])
        told = self.told_flags(info)
        mode = {'+': 'add', '-': 'remove', '': 'replace'}[op['mode']]
        wrong: set[int] = set()
        noeffect: set[int] = set()
        unanswered: set[int] = set()
        applied = 0
        lats: list[str] = []
        for p, (m, row) in enumerate(zip(msgs, rows), 1):
            self.cnt['flag_comparisons'] += 1
            old, obs = m.flags, row.flags
            ok, lat = self.store_relation(old, obs, op['mode'], op['flags'],
                                          box)
            same = obs == old
            responded = id(m) in told
            want = {'+': old | op['flags'], '-': old - op['flags'],
                    '': op['flags']}[op['mode']]
            if not ok:
                self.sus(want if p in aset else old, obs)
            if p in aset and ok and not same:
                applied += 1
            if p in aset:
                self.cnt['store_messages_addressed'] += 1
                if ok:
                    lats += lat
                    if not op['silent'] and not responded:
                        if same:
                            unanswered.add(p)
                        else:
                            self.report(
                                'store-nonsilent-missing-fetch',
                                'position %d %r changed to %r but no FETCH '
                                'FLAGS response was sent' % (p, m,
                                                             sorted(obs)))
                    elif op['silent'] and responded:
                        self.report(
                            'store-silent-sent-fetch',
                            'position %d: .SILENT but the response carried '
                            'FLAGS %r' % (p, sorted(told[id(m)][1])))
                    elif responded and op['uid']:
                        att = [a for n, x, a in info['fetch'] if x is m
                               and b'FLAGS' in a][-1]
                        if att.get(b'UID') != m.uid:
                            self.report(
                                'uid-command-fetch-without-uid:UID STORE',
                                'position %d: %r' % (p, sorted(att)))
                elif same and not responded:
                    noeffect.add(p)
                else:
                    self.report(
                        'store-wrong-flags:%s' % mode,
                        'position %d: flags were %r, %sFLAGS %r gave %r, '
                        'expected %r (non-permitted keywords free)' % (
                            p, sorted(old), op['mode'], sorted(op['flags']),
                            sorted(obs), sorted(want)))
            elif not same:
                if ok:
                    wrong.add(p)
                else:
                    self.report('store-changed-unaddressed',
                                'position %d not addressed by %r: flags %r '
                                '-> %r' % (p, op['set'], sorted(old),
                                           sorted(obs)))
            elif responded:
                self.cnt['lat_unaddressed_fetch'] += 1
        if noeffect and not wrong and not applied:
            # nothing that should have changed did, nothing else changed,
            # and no response says which messages the server addressed
            p = min(noeffect)
            self.report('store-no-effect:%s' % mode,
                        '%sFLAGS %r on %r (positions %r): flags stayed %r' % (
                            op['mode'], sorted(op['flags']), op['set'],
                            sorted(noeffect), sorted(msgs[p - 1].flags)))
        else:
            wrong |= noeffect
        if unanswered and not wrong and not self.step_failed:
            # flags already had the requested value, so only the missing
            # response shows: required for every addressed message
            self.report(self.blame(op, unanswered,
                                   'store-nonsilent-missing-fetch'),
                        'positions %r are addressed by %r, their flags needed '
                        'no change, and no FETCH FLAGS response was sent for '
                        'them (responses for %r)' % (
                            sorted(unanswered), op['set'],
                            sorted(n for n, _, _ in info['fetch'])))
        else:
            wrong |= unanswered
        if wrong:
            self.report(self.blame(op, wrong, 'uidset-wrong' if op['uid']
                                   else 'store-wrong-messages'),
                        'set %r over %d messages addresses %r; positions '
                        '%r behaved the other way (flags before %r, after '
                        '%r)' % (op['set'], len(msgs), sorted(aset),
                                 sorted(wrong),
                                 [sorted(m.flags) for m in msgs],
                                 [sorted(x.flags) for x in rows]))
        if self.step_failed:
            raise Stop()
        for k in lats:
            self.cnt[k] += 1
        self.adopt(box, rows)
        self.check_told(op, info)
        if aset:
            self.mutations += 1
        await self.others()

    async def h_fetch(self, op: dict[str, Any], r: Result,
                      info: dict[str, Any]) -> None:
        box = self.sel
        assert box is not None
        msgs = self.boxes[box]
        aset = set(self.addressed(op))
        attrs: list[Attr] = op['attrs']
        seen_attrs = [a for a in attrs if a.sets_seen]
        setting = bool(seen_attrs) and not self.ro
        need = [k for a in attrs for k in a.keys]
        if op['uid']:
            need.append(b'UID')
        self.check_view(op, info)
        rows = await self.dump_sel()
        self.same_list(box, rows, op['name'])
        got: dict[int, dict[bytes, Any]] = {}
        for n, m, att in info['fetch']:
            d = got.setdefault(id(m), {})
            for k, v in att.items():
                d[norm_key(k)] = v
        wrong: set[int] = set()
        for p, (m, row) in enumerate(zip(msgs, rows), 1):
            self.cnt['flag_comparisons'] += 1
            old, obs = m.flags, row.flags
            att = got.get(id(m))
            full = att is not None and all(k in att for k in need)
            extra = att is not None and any(
                k not in (b'FLAGS', b'UID', b'MODSEQ') for k in att)
            exp = old | {SEEN} if (p in aset and setting) else old
            if p in aset:
                self.cnt['fetch_messages_addressed'] += 1
                if setting:
                    self.cnt['seen_set_checks'] += 1
                else:
                    self.cnt['seen_kept_checks'] += 1
            if obs != exp:
                self.sus(exp, obs)
                if p in aset and setting and obs == old:
                    if full:
                        self.report(
                            'fetch-does-not-set-seen:%s' % '+'.join(sorted(
                                {a.label for a in seen_attrs})),
                            'position %d was fetched with %r, the dump shows '
                            'flags %r' % (p, [a.raw for a in seen_attrs],
                                          sorted(obs)))
                    else:
                        wrong.add(p)
                elif p in aset and obs == old | {SEEN}:
                    if self.ro:
                        self.report('fetch-sets-seen-readonly',
                                    'mailbox selected with EXAMINE, FETCH %r '
                                    'set \\Seen on position %d' % (
                                        [a.raw for a in attrs], p))
                    else:
                        self.report(
                            'fetch-sets-seen-on-peek:%s' % '+'.join(sorted(
                                {a.label for a in attrs})),
                            'FETCH %r set \\Seen on position %d' % (
                                [a.raw for a in attrs], p))
                elif p not in aset and setting and obs == old | {SEEN}:
                    wrong.add(p)
                else:
                    self.report('fetch-changed-flags',
                                'position %d (%saddressed): flags %r -> %r, '
                                'expected %r' % (
                                    p, '' if p in aset else 'not ',
                                    sorted(old), sorted(obs), sorted(exp)))
                continue
            if p in aset:
                if att is None:
                    wrong.add(p)
                    continue
                if not full:
                    self.report(
                        'fetch-missing-item:%s' % '+'.join(sorted(
                            k.split(b'[')[0].decode('latin-1')
                            for k in need if k not in att)),
                        'position %d: asked %r, the response(s) carried %r'
                        % (p, [a.raw for a in attrs], sorted(att)))
                    continue
                self.cnt['fetch_responses_checked'] += 1
                cid = content_id(att)
                if cid is not None and cid != m.cid:
                    self.report('fetch-wrong-message',
                                'position %d is %r, the body returned is %r'
                                % (p, m, cid))
                if b'UID' in att and att[b'UID'] != m.uid:
                    self.report('fetch-wrong-message',
                                'position %d is %r, response says UID %r' % (
                                    p, m, att[b'UID']))
                if b'RFC822.SIZE' in att and att[b'RFC822.SIZE'] != m.size:
                    self.report('fetch-wrong-size', 'position %d: %r vs %r'
                                % (p, att[b'RFC822.SIZE'], m.size))
                if b'INTERNALDATE' in att and m.date is not None:
                    dt = parse_dt(att[b'INTERNALDATE'])
                    if dt is not None and \
                            abs((dt - m.date).total_seconds()) > 1:
                        self.report('fetch-wrong-internaldate',
                                    'position %d: %r vs %s UTC' % (
                                        p, att[b'INTERNALDATE'], m.date))
            elif extra:
                wrong.add(p)
            elif att is not None:
                self.cnt['lat_unaddressed_fetch'] += 1
        if wrong:
            self.report(self.blame(op, wrong, 'uidset-wrong' if op['uid']
                                   else 'fetch-wrong-messages'),
                        'set %r over %d messages addresses %r; positions %r '
                        'behaved the other way (responses for %r)' % (
                            op['set'], len(msgs), sorted(aset), sorted(wrong),
                            sorted(n for n, _, _ in info['fetch'])))
        if self.step_failed:
            raise Stop()
        self.adopt(box, rows)
        self.check_told(op, info)
        if setting and aset:
            self.mutations += 1
        await self.others()

    async def h_expunge(self, op: dict[str, Any], r: Result,
                        info: dict[str, Any]) -> None:
        box = self.sel
        assert box is not None
        msgs = list(self.boxes[box])
        name = op['name']
        uid = op['uid']
        if uid:
            hit = set(seqset.select_uids(
                op['set'], [m.uid for m in msgs]))      # type: ignore
        dele = [m for m in msgs if DELETED in m.flags
                and (not uid or m.uid in hit)]
        alldel = [m for m in msgs if DELETED in m.flags]
        self.cnt['expunge_expected_removals'] += len(dele)
        if uid and len(alldel) > len(dele):
            self.cnt['uid_expunge_set_spares_deleted'] += 1
        rows = await self.dump_sel_quiet()
        left = {row.uid for row in rows}
        removed = [m for m in msgs if m.uid not in left]
        known = {m.uid for m in msgs}
        if any(row.uid not in known for row in rows):
            self.fail('%s-created-message' % name.lower().replace(' ', '-'),
                      'dump %r' % rows)
        if {id(m) for m in removed} != {id(m) for m in dele}:
            kept = [m for m in dele if m.uid in left]
            extra = [m for m in removed if not any(m is x for x in dele)]
            detail = ('\\Deleted%s: %r; removed: %r; kept although '
                      'expected to go: %r; removed although expected to '
                      'stay: %r' % (' and in %r' % op['set'] if uid else '',
                                    dele, removed, kept, extra))
            if uid and {id(m) for m in removed} == {id(m) for m in alldel}:
                self.fail('uid-expunge-ignores-set', detail)
            if uid and any(DELETED not in m.flags for m in extra):
                self.fail('uid-expunge-removed-undeleted', detail)
            if uid:
                wrong = {p for p, m in enumerate(msgs, 1)
                         if any(m is x for x in kept + extra)}
                self.fail(self.blame(op, wrong, 'uidset-wrong'), detail)
            self.fail('expunge-wrong-set:%s' % (
                'kept-deleted' if kept and not extra else
                'removed-undeleted' if extra and not kept else 'both'),
                detail)
        self.boxes[box] = [m for m in msgs
                           if not any(m is x for x in dele)]
        self.gone[box].update((m.uid, m.cid) for m in dele)  # type: ignore
        self.check_view(op, info)
        self.same_list(box, rows, name)
        self.flags_same(box, rows, name, 'expunge-changed-flags')
        self.adopt(box, rows)
        self.check_told(op, info)
        if dele:
            self.mutations += 1
        await self.others()

    async def h_close(self, op: dict[str, Any], r: Result,
                      info: dict[str, Any]) -> None:
        box = self.sel
        assert box is not None
        msgs = list(self.boxes[box])
        if info['expunged'] or any(u.typ == b'EXPUNGE' for u in r.untagged):
            self.fail('close-sent-expunge',
                      'CLOSE sent untagged EXPUNGE responses')
        dele = [] if self.ro else [m for m in msgs if DELETED in m.flags]
        was_ro = self.ro
        self.sel = None
        self.ro = False
        self.view = []
        rows = await self.dump_probe(box)
        left = {row.uid for row in rows}
        kept = [m for m in dele if m.uid in left]
        extra = [m for m in msgs if m.uid not in left
                 and not any(m is x for x in dele)]
        if kept:
            self.fail('close-did-not-expunge',
                      'still there after CLOSE: %r' % kept)
        if extra:
            self.fail('close-expunged-readonly' if was_ro else
                      'close-removed-undeleted',
                      'removed by CLOSE: %r' % extra)
        self.boxes[box] = [m for m in msgs if not any(m is x for x in dele)]
        self.gone[box].update((m.uid, m.cid) for m in dele)  # type: ignore
        self.same_list(box, rows, 'CLOSE')
        self.flags_same(box, rows, 'CLOSE', 'close-changed-flags')
        self.adopt(box, rows)
        r2 = await self.send(b'CHECK')
        if r2.ok:
            self.fail('close-did-not-deselect',
                      'CHECK after CLOSE answered %r' % traw(r2))
        self.cnt['close_expunged'] += len(dele)
        if dele:
            self.mutations += 1
        await self.others()

    def verify_tail(self, op: dict[str, Any], kind: str, dest: bytes,
                    old: list[Msg], sources: list[Msg], rows: list[Row]) \
            -> list[Msg]:
        """``rows`` is the destination after the command: ``old`` untouched,
        then one copy per source (content, size, flags, date)."""
        k = len(old)
        if len(rows) < k:
            self.fail('%s-changed-destination' % kind,
                      'destination had %r, now %r' % (old, rows))
        for p, (m, row) in enumerate(zip(old, rows), 1):
            self.same_msg(m, row, kind + '-destination', p)
            if row.flags != m.flags:
                self.fail('%s-changed-destination' % kind,
                          'existing message %r now has flags %r' % (
                              m, sorted(row.flags)))
        tail = rows[k:]
        want = [s.cid for s in sources]
        have = [t.cid for t in tail]
        if have != want:
            if sorted(have, key=repr) == sorted(want, key=repr):
                self.cnt['lat_copy_order'] += 1
                pool = list(sources)
                ordered = []
                for t in tail:
                    s = next(x for x in pool if x.cid == t.cid)
                    pool.remove(s)
                    ordered.append(s)
                sources = ordered
            else:
                srcc = Counter(m.cid for m in self.boxes_pre)
                if any(c is None or c not in srcc for c in have):
                    self.fail('%s-wrong-content' % kind,
                              'new messages in %s: %r, expected copies of '
                              '%r' % (dest.decode(), tail, sources))
                wc, hc = Counter(want), Counter(have)
                wrong = {p for p, m in enumerate(self.boxes_pre, 1)
                         if wc[m.cid] != hc[m.cid]}
                self.fail(self.blame(op, wrong, 'uidset-wrong' if op['uid']
                                     else '%s-wrong-messages' % kind),
                          'set %r over %d messages addresses %r; new in %s: '
                          '%r' % (op['set'], len(self.boxes_pre), sources,
                                  dest.decode(), tail))
        new: list[Msg] = []
        for s, t in zip(sources, tail):
            self.cnt['copies_compared'] += 1
            if t.size != s.size:
                self.fail('%s-wrong-content' % kind,
                          'copy of %r has RFC822.SIZE %r, source %r' % (
                              s, t.size, s.size))
            for f in s.flags | t.flags:
                self.cnt['flag_comparisons'] += 1
                if (f in s.flags) == (f in t.flags):
                    continue
                if not self.permitted(f, dest):
                    self.cnt['lat_kw_copy_dropped' if f in s.flags
                             else 'lat_kw_copy_added'] += 1
                    if f not in s.flags:
                        self.fail('%s-extra-flags' % kind,
                                  'copy of %r has flags %r' % (
                                      s, sorted(t.flags)))
                    continue
                if dest == self.sel:
                    self.sus(s.flags, t.flags)
                self.fail('%s-lost-flags' % kind if f in s.flags
                          else '%s-extra-flags' % kind,
                          'copy of %r has flags %r' % (s, sorted(t.flags)))
            if t.date is None:
                self.cnt['unparsed_internaldate'] += 1
            elif s.date is not None and \
                    abs((t.date - s.date).total_seconds()) > 1:
                self.fail('%s-lost-date' % kind,
                          'copy of %r has INTERNALDATE %r, source instant '
                          '%s UTC' % (s, t.rawdate, s.date))
            new.append(Msg(s.cid, t.flags, t.date or s.date, t.size, t.uid))
        return new

    def check_copyuid(self, op: dict[str, Any], info: dict[str, Any],
                      sources: list[Msg], new: list[Msg]) -> None:
        cu = info['copyuid']
        if cu is None:
            if sources:
                self.cnt['lat_no_copyuid'] += 1
            return
        _, su, du = cu
        self.cnt['copyuid_checked'] += 1
        if not sources:
            self.fail('copyuid-pairs-wrong',
                      'COPYUID %r %r although nothing was addressed' % (
                          su, du))
        if len(su) != len(du) or sorted(su) != sorted(
                m.uid for m in sources):        # type: ignore[type-var]
            self.fail('copyuid-pairs-wrong',
                      'COPYUID source %r dest %r; addressed source UIDs %r'
                      % (su, du, [m.uid for m in sources]))
        by_src = {m.uid: m for m in sources}
        by_dst = {m.uid: m for m in new}
        for s, d in zip(su, du):
            if d not in by_dst or by_dst[d].cid != by_src[s].cid:
                self.fail('copyuid-pairs-wrong',
                          'COPYUID pairs source UID %d (%r) with destination '
                          'UID %d (%r)' % (s, by_src[s], d, by_dst.get(d)))

    async def h_copy(self, op: dict[str, Any], r: Result,
                     info: dict[str, Any]) -> None:
        box = self.sel
        assert box is not None
        dest = op['mbox']
        msgs = list(self.boxes[box])
        sources = [msgs[p - 1] for p in self.addressed(op)]
        old = list(self.boxes[dest])
        self.cnt['copy_messages_addressed'] += len(sources)
        rows = await self.dump_sel_quiet()
        if dest == box:
            new = self.verify_tail(op, 'copy', dest, old, sources, rows)
            self.boxes[dest] = old + new
            self.check_view(op, info)
        else:
            self.check_view(op, info)
            self.same_list(box, rows, op['name'])
            self.flags_same(box, rows, op['name'], 'copy-changed-source')
            self.adopt(box, rows)
            drows = await self.dump_probe(dest)
            new = self.verify_tail(op, 'copy', dest, old, sources, drows)
            self.boxes[dest] = old + new
        self.check_copyuid(op, info, sources, new)
        self.check_told(op, info)
        if sources:
            self.mutations += 1
        await self.others()

    async def h_move(self, op: dict[str, Any], r: Result,
                     info: dict[str, Any]) -> None:
        box = self.sel
        assert box is not None
        dest = op['mbox']
        if dest == box:
            # not generated; RFC 6851 does not define it
            self.aborted = 'move-to-self'
            raise Stop()
        msgs = list(self.boxes[box])
        apos = self.addressed(op)
        sources = [msgs[p - 1] for p in apos]
        old = list(self.boxes[dest])
        self.cnt['move_messages_addressed'] += len(sources)
        rows = await self.dump_sel_quiet()
        drows = await self.dump_probe(dest)
        left = {row.uid for row in rows}
        tail = Counter(t.cid for t in drows[len(old):])
        wrong: set[int] = set()
        is_src = {id(m) for m in sources}
        # legitimately moved first, so that copies are accounted to them
        for p, m in enumerate(msgs, 1):
            if id(m) in is_src and m.uid not in left:
                if tail[m.cid] > 0:
                    tail[m.cid] -= 1
                else:
                    self.fail('move-lost-message',
                              '%r left %s but is not in %s: %r' % (
                                  m, box.decode(), dest.decode(), drows))
        for p, m in enumerate(msgs, 1):
            if id(m) in is_src and m.uid in left:
                if tail[m.cid] > 0:
                    self.fail('move-not-removed',
                              '%r was copied to %s but is still in %s' % (
                                  m, dest.decode(), box.decode()))
                wrong.add(p)
            elif id(m) not in is_src and m.uid not in left:
                if tail[m.cid] > 0:
                    tail[m.cid] -= 1
                    wrong.add(p)
                else:
                    self.fail('move-lost-message',
                              '%r (not addressed) left %s and is not in %s'
                              % (m, box.decode(), dest.decode()))
        for cid, k in tail.items():
            if k > 0:
                ps = {p for p, m in enumerate(msgs, 1) if m.cid == cid}
                if not ps:
                    self.fail('move-wrong-content',
                              'new in %s: %r' % (dest.decode(),
                                                 drows[len(old):]))
                wrong |= ps
        if wrong:
            self.fail(self.blame(op, wrong, 'uidset-wrong' if op['uid']
                                 else 'move-wrong-messages'),
                      'set %r over %d messages addresses %r; source now %r, '
                      'new in destination %r' % (
                          op['set'], len(msgs), apos, rows,
                          drows[len(old):]))
        self.boxes[box] = [m for m in msgs if id(m) not in is_src]
        self.gone[box].update((m.uid, m.cid)        # type: ignore
                              for m in sources)
        self.check_view(op, info)
        self.same_list(box, rows, op['name'])
        self.flags_same(box, rows, op['name'], 'move-changed-source')
        self.adopt(box, rows)
        new = self.verify_tail(op, 'move', dest, old, sources, drows)
        self.boxes[dest] = old + new
        self.check_copyuid(op, info, sources, new)
        self.check_told(op, info)
        if sources:
            self.mutations += 1
        await self.others()

    async def h_append(self, op: dict[str, Any], r: Result,
                       info: dict[str, Any]) -> None:
        dest = op['mbox']
        old = list(self.boxes[dest])
        named = op['flags'] or frozenset()
        req = frozenset(f for f in named if self.permitted(f, dest))
        opt = named - req
        if dest == self.sel:
            rows = await self.dump_sel_quiet()
        else:
            rows = await self.dump_probe(dest)
        if len(rows) < len(old):
            self.fail('append-changed-existing', '%r -> %r' % (old, rows))
        for p, (m, row) in enumerate(zip(old, rows), 1):
            self.same_msg(m, row, 'APPEND', p)
        self.flags_same(dest, rows[:len(old)], 'APPEND',
                        'append-changed-existing')
        tail = rows[len(old):]
        if len(tail) != 1:
            self.fail('append-lost-message' if not tail
                      else 'append-duplicated',
                      'new messages in %s after APPEND: %r' % (
                          dest.decode(), tail))
        t = tail[0]
        if t.cid != op['cid'] or t.size != len(op['literal']):
            self.fail('append-wrong-content',
                      'appended %r (%d octets), the mailbox shows %r size %r'
                      % (op['cid'], len(op['literal']), t, t.size))
        self.cnt['flag_comparisons'] += 1
        if not req <= t.flags:
            self.fail('append-lost-flags',
                      'APPEND flags %r, the message has %r' % (
                          sorted(named), sorted(t.flags)))
        if not t.flags <= req | opt:
            if dest == self.sel and t.flags - (req | opt) == {SEEN}:
                self.suspect_seen = True
            self.fail('append-extra-flags',
                      'APPEND flags %r, the message has %r' % (
                          sorted(named), sorted(t.flags)))
        for f in opt:
            self.cnt['lat_kw_append_kept' if f in t.flags
                     else 'lat_kw_append_dropped'] += 1
        if op['date'] is not None:
            self.cnt['append_dates_compared'] += 1
            if t.date is None:
                self.cnt['unparsed_internaldate'] += 1
            elif t.date != op['date']:
                # structural: the wall-clock time is right for the zone the
                # server runs in, but labelled with today's UTC offset
                # instead of the offset in force at that date (DST)
                then = op['date'].replace(tzinfo=timezone.utc).astimezone() \
                    .utcoffset()
                now = datetime.now().astimezone().utcoffset()
                sub = ':utc-offset-of-today' if then != now and \
                    t.date - op['date'] == then - now else ''
                self.fail('append-wrong-date' + sub,
                          'APPEND date-time %r (%s UTC), INTERNALDATE %r '
                          '(%s UTC); server time zone %s' % (
                              op['rawdate'], op['date'], t.rawdate, t.date,
                              os.environ.get('TZ', '(default)')))
        else:
            self.cnt['lat_append_date_free'] += 1
        au = info['appenduid']
        if au is not None:
            self.cnt['appenduid_checked'] += 1
            if list(au[1]) != [t.uid]:
                self.fail('appenduid-wrong',
                          'APPENDUID %r, the message has UID %r' % (
                              au[1], t.uid))
        self.boxes[dest] = old + [Msg(t.cid, t.flags, t.date, t.size, t.uid)]
        self.check_view(op, info)
        if dest == self.sel:
            self.adopt(dest, rows)
        self.check_told(op, info)
        self.mutations += 1
        await self.others()

    # -- final ----------------------------------------------------------------

    async def final(self) -> None:
        self.cur = {'raw': b'(final dump through a fresh EXAMINE)',
                    'name': 'final'}
        for box in self.boxes:
            rows = await self.dump_probe(box)
            self.same_list(box, rows, 'fresh-session')
            self.flags_same(box, rows, 'fresh-session',
                            'fresh-session-sees-different-flags')
            self.cnt['final_dumps'] += 1

    # -- program generation -----------------------------------------------------

    def gen_flag(self, kw: float = 0.25) -> bytes:
        rng = self.rng
        if rng.random() < kw:
            return rng.choice(KEYWORDS)
        f = rng.choice(SYSTEM)
        return rng.choice([f, f, f.upper(), f.lower(), f.swapcase()])

    def gen_flags(self, allow_empty: bool, deleted_bias: float) \
            -> list[bytes]:
        rng = self.rng
        k = rng.choice([0, 1, 1, 1, 2, 2, 3] if allow_empty
                       else [1, 1, 1, 2, 2, 3])
        out: list[bytes] = []
        while len(out) < k:
            f = self.gen_flag()
            if f.lower() not in [x.lower() for x in out]:
                out.append(f)
        if out and rng.random() < deleted_bias and \
                DELETED not in [x.lower() for x in out]:
            out[0] = rng.choice([b'\\Deleted', b'\\DELETED', b'\\deleted'])
        return out

    def gen_seqset(self) -> bytes:
        rng = self.rng
        n = len(self.boxes[self.sel]) if self.sel else 0
        if n == 0:
            return rng.choice([b'*', b'1:*', b'1', b'*:1', b'1:3', b'2:*'])
        a, b = rng.randint(1, n), rng.randint(1, n)
        lo, hi = min(a, b), max(a, b)
        r = rng.random()
        if r < 0.22:
            return b'%d' % a
        if r < 0.34:
            return b'%d:%d' % (lo, hi)
        if r < 0.42:
            return b'%d:%d' % (hi, lo) if hi > lo else b'2:1'
        if r < 0.49:
            return b'*'
        if r < 0.56:
            return b'1:*'
        if r < 0.61:
            return rng.choice([b'*:1', b'*:%d' % a])
        if r < 0.68:
            return b'%d:*' % a
        if r < 0.72:
            return b'%d,%d,%d' % (a, a, a) if rng.random() < 0.6 \
                else b'1,1,1'
        if r < 0.76:
            return b'1:2,2:3' if rng.random() < 0.5 \
                else b'%d:%d,%d:%d' % (lo, hi, lo, hi)
        if r < 0.84:
            k = rng.randint(2, 4)
            return b','.join(b'%d' % rng.randint(1, n) for _ in range(k))
        if r < 0.90:
            return b'%d,%d:%d,*' % (a, hi, lo)
        if r < 0.95:
            return rng.choice([b'%d' % (n + 1), b'%d:%d' % (n + 1, n + 3),
                               b'1:%d' % (n + 2), b'%d,%d' % (a, n + 5),
                               b'%d:*' % (n + 1), b'*:%d' % (n + 7),
                               b'%d:%d' % (n + 2, lo)])
        return rng.choice([b'4294967295', b'1:4294967295',
                           b'4294967295:*', b'%d,4294967295' % a])

    def gen_uidset(self) -> bytes:
        rng = self.rng
        assert self.sel is not None
        uids = [m.uid or 1 for m in self.boxes[self.sel]]
        gone = list(self.gone[self.sel])
        top = max(uids + gone + [0])
        if not uids:
            pool = gone[-3:] + [top + 1, 1]
            return rng.choice([b'*', b'1:*', b'%d' % rng.choice(pool),
                               b'%d:*' % rng.choice(pool),
                               b'%d:%d' % (1, top + 5)])
        a, b = rng.choice(uids), rng.choice(uids)
        lo, hi = min(a, b), max(a, b)
        g = rng.choice(gone) if gone else top + rng.randint(1, 9)
        r = rng.random()
        if r < 0.22:
            return b'%d' % a
        if r < 0.34:
            return b'%d:%d' % (lo, hi)
        if r < 0.42:
            return b'%d:%d' % (hi, lo)
        if r < 0.48:
            return b'*'
        if r < 0.54:
            return b'1:*'
        if r < 0.60:
            return b'%d:*' % a
        if r < 0.65:
            return b'%d:*' % (top + rng.randint(1, 50))
        if r < 0.69:
            return b'*:%d' % a
        if r < 0.73:
            return b'%d,%d,%d' % (a, a, a)
        if r < 0.81:
            k = rng.randint(2, 4)
            return b','.join(b'%d' % rng.choice(uids + [g])
                             for _ in range(k))
        if r < 0.87:
            return b'%d' % g
        if r < 0.91:
            return b'%d:%d' % (min(g, a), max(g, a))
        if r < 0.94:
            return b'%d:%d' % (top + 1, top + rng.randint(1, 9))
        if r < 0.97:
            return b'%d,%d:%d,*' % (g, hi, lo)
        return rng.choice([b'4294967295', b'1:4294967295',
                           b'4294967295:*'])

    def gen_set(self) -> tuple[bytes, bytes]:
        """(prefix, set)"""
        if self.rng.random() < 0.45:
            return b'UID ', self.gen_uidset()
        return b'', self.gen_seqset()

    def gen_date(self) -> bytes:
        rng = self.rng
        day = rng.randint(1, 28)
        d = b'%2d' % day if rng.random() < 0.5 else b'%02d' % day
        year = rng.choice([rng.randint(1971, 2037), rng.randint(1995, 2030),
                           2000, 2024])
        return b'"%s-%s-%d %02d:%02d:%02d %s"' % (
            d, rng.choice(MONTHS), year, rng.randint(0, 23),
            rng.randint(0, 59), rng.randint(0, 59), rng.choice(ZONES))

    def gen_append(self, dest: bytes | None = None) -> bytes:
        rng = self.rng
        if dest is None:
            r = rng.random()
            if self.sel is not None and r < 0.6:
                dest = self.sel
            elif r < 0.96:
                dest = rng.choice([b for b in self.boxes if b != self.sel])
            else:
                dest = b'Nope'
        self.ncid += 1
        cid = b'c%d-%d' % (self.spec.get('seed', 0) % 100000, self.ncid)
        body = b'body of ' + cid + b'\r\n' + b'x' * rng.choice(
            [0, 0, 1, 17, 300, 300, 3900, 4096, 5000, 9000]) + (
                b'\r\n' if rng.random() < 0.8 else b'')
        msg = make_msg(cid, body=body)
        line = b'APPEND ' + (rng.choice([b'INBOX', b'inbox', b'"INBOX"'])
                             if dest == INBOX else dest)
        if rng.random() < 0.55:
            line += b' (' + b' '.join(self.gen_flags(True, 0.25)) + b')'
        if rng.random() < 0.5:
            line += b' ' + self.gen_date()
        plus = b'' if rng.random() < 0.15 else b'+'
        return line + b' {%d%s}\r\n' % (len(msg), plus) + msg

    def gen_fetch_attrs(self) -> bytes:
        rng = self.rng
        seen = [b'BODY[]', b'BODY[TEXT]', b'BODY[HEADER]', b'BODY[1]',
                b'BODY[HEADER.FIELDS (X-VF-ID)]', b'BODY[]<0.20>', b'RFC822',
                b'RFC822.TEXT', b'BINARY[1]', b'BINARY[]', b'BODY[]<5.1000>']
        peek = [b'BODY.PEEK[]', b'BODY.PEEK[TEXT]', b'BODY.PEEK[HEADER]',
                b'BODY.PEEK[HEADER.FIELDS (X-VF-ID)]', b'BODY.PEEK[]<0.20>',
                b'BODY.PEEK[1]', b'BINARY.PEEK[1]', b'BINARY.PEEK[]',
                b'RFC822.HEADER', b'RFC822.SIZE', b'ENVELOPE', b'FLAGS',
                b'INTERNALDATE', b'UID', b'BODYSTRUCTURE', b'BODY']
        r = rng.random()
        if r < 0.08:
            return rng.choice([b'ALL', b'FAST', b'FULL'])
        if r < 0.5:
            items = [rng.choice(seen)]
            items += rng.sample(peek, rng.choice([0, 0, 1, 2]))
        else:
            items = rng.sample(peek, rng.choice([1, 1, 2, 3]))
        rng.shuffle(items)
        if len(items) == 1 and rng.random() < 0.5:
            return items[0]
        return b'(' + b' '.join(items) + b')'

    def gen_step(self) -> bytes:
        rng = self.rng
        if self.sel is None:
            r = rng.random()
            box = rng.choice([INBOX, INBOX, OTHER])
            if r < 0.78:
                return b'SELECT ' + box
            if r < 0.86:
                return b'EXAMINE ' + box
            if r < 0.93:
                return self.gen_append()
            if r < 0.96:
                return b'SELECT Nope'
            return rng.choice([b'EXPUNGE', b'STORE 1 +FLAGS (\\Seen)',
                               b'FETCH 1 FLAGS', b'COPY 1 Other', b'CLOSE',
                               b'UID EXPUNGE 1:*'])
        n = len(self.boxes[self.sel])
        other = rng.choice([b for b in self.boxes if b != self.sel])
        w = {'store': 5.0, 'fetch': 3.0, 'expunge': 1.3, 'uid_expunge': 1.5,
             'copy': 1.8, 'move': 1.3,
             'append': 4.5 if n < 4 else 2.5 if n < 8 else 1.0,
             'close': 0.7, 'reselect': 0.35, 'invalid': 0.3}
        names = list(w)
        kind = rng.choices(names, [w[k] for k in names])[0]
        if kind == 'store':
            pre, s = self.gen_set()
            mode = rng.choice([b'+FLAGS', b'+FLAGS', b'-FLAGS', b'FLAGS'])
            if rng.random() < 0.1:
                mode = mode.lower()
            silent = b'.SILENT' if rng.random() < 0.4 else b''
            fl = self.gen_flags(mode.upper() == b'FLAGS'
                                or rng.random() < 0.08,
                                0.4 if mode.upper() != b'-FLAGS' else 0.1)
            if fl and rng.random() < 0.15:
                fls = b' '.join(fl)
            else:
                fls = b'(' + b' '.join(fl) + b')'
            return pre + b'STORE ' + s + b' ' + mode + silent + b' ' + fls
        if kind == 'fetch':
            pre, s = self.gen_set()
            return pre + b'FETCH ' + s + b' ' + self.gen_fetch_attrs()
        if kind == 'expunge':
            return b'EXPUNGE'
        if kind == 'uid_expunge':
            return b'UID EXPUNGE ' + self.gen_uidset()
        if kind == 'copy':
            pre, s = self.gen_set()
            r = rng.random()
            dest = other if r < 0.75 else self.sel if r < 0.95 else b'Nope'
            return pre + b'COPY ' + s + b' ' + dest
        if kind == 'move':
            pre, s = self.gen_set()
            if n >= 4 and rng.random() < 0.6 and len(self.addressed(
                    {'uid': bool(pre), 'set': s})) > n // 2:
                pre, s = self.gen_set()     # do not drain the mailbox
            dest = other if rng.random() < 0.95 else b'Nope'
            return pre + b'MOVE ' + s + b' ' + dest
        if kind == 'append':
            return self.gen_append()
        if kind == 'close':
            return b'CLOSE'
        if kind == 'reselect':
            return rng.choice([b'SELECT ', b'SELECT ', b'EXAMINE ']) + \
                rng.choice([INBOX, OTHER])
        return rng.choice([
            b'STORE 0 +FLAGS (\\Seen)', b'STORE 1:0 FLAGS (\\Seen)',
            b'COPY 0:* Other', b'UID EXPUNGE', b'FETCH 1, FLAGS',
            b'UID STORE 0 -FLAGS (\\Seen)', b'MOVE *:0 Other',
            b'UID FETCH 1:: FLAGS', b'STORE 1 FLAGS',
            b'UID COPY 5- Other'])

    # -- driver -----------------------------------------------------------------

    async def peer_edit(self) -> None:
        """Another connection changes flags in the selected mailbox right
        before the next command of the session under test (nothing of that
        session runs in between, so whatever it cached is stale now).  The
        model takes the result from the probe's dump."""
        box = self.sel
        assert box is not None
        rng = self.rng_peer
        self.npeer += 1
        peer = await self.connect(self.env, 10 + self.npeer)
        r = await self.send(b'SELECT ' + box, peer)
        if r.ok:
            mode = rng.choice([b'-FLAGS.SILENT', b'-FLAGS.SILENT',
                               b'+FLAGS.SILENT', b'FLAGS.SILENT'])
            fl = rng.choice([b'\\Seen', b'\\Seen', b'\\Seen \\Flagged',
                             b'\\Answered', b'\\Draft \\Seen'])
            sset = rng.choice([b'1:*', b'1', b'*'])
            await self.send(b'STORE ' + sset + b' ' + mode + b' (' + fl +
                            b')', peer)
            self.cnt['peer_edits'] += 1
        peer.feed(b'zz LOGOUT\r\n')
        await peer.wait_closed()
        rows = await self.dump_probe(box)
        if len(rows) == len(self.boxes[box]):
            self.adopt(box, rows)

    async def connect(self, env: Any, cid: int) -> Conn:
        c = Conn(cid, Sched())
        c.start(env.imap)
        g = await c.greeting()
        if g is None or g.cond != b'OK':
            self.aborted = 'no-greeting'
            raise Stop()
        r = await self.send(b'LOGIN u1 pw1', c)
        if not r.ok:
            self.aborted = 'login-failed'
            raise Stop()
        return c

    async def run(self) -> None:
        spec = self.spec
        over: dict[str, Any] = {}
        if spec.get('seed', 0) % 7 == 3:
            # a deployment without APPENDLIMIT
            over['max_append_len'] = None
        env = await make_env(self.backend, {'u1': 'pw1'}, **over)
        try:
            try:
                self.env = env
                self.conn = await self.connect(env, 1)
                r = await self.send(b'CREATE Other')
                if not r.ok:
                    self.aborted = 'create-failed'
                    return
                if spec.get('kwfile') and env.base_dir:
                    base = os.path.join(env.base_dir, 'u1')
                    for d in (base, os.path.join(base, '.Other')):
                        if os.path.isdir(d):
                            with open(os.path.join(
                                    d, 'dovecot-keywords'), 'w') as f:
                                f.write(KWFILE)
                    # a fresh login reads the keyword files
                    await self.conn.simple(b'LOGOUT')
                    await self.conn.wait_closed()
                    self.conn = await self.connect(env, 1)
                self.probe = await self.connect(env, 2)
                if 'cmds' in spec:
                    for c in spec['cmds']:
                        line = c.encode('latin-1')
                        if line.endswith(b'{msg}'):
                            self.ncid += 1
                            msg = make_msg(b's%d' % self.ncid)
                            line = line[:-5] + b'{%d+}\r\n' % len(msg) + msg
                        await self.step(line)
                else:
                    for _ in range(spec.get('nmsgs', 3)):
                        await self.step(self.gen_append(
                            INBOX if self.rng.random() < 0.8 else OTHER))
                    for _ in range(spec.get('nsteps', 10)):
                        await self.step(self.gen_step())
                await self.final()
            except Stop:
                pass
        finally:
            env.cleanup()


def transcript(c: Conn | None, limit: int) -> list[str]:
    """Wire transcript, server fragments joined into response lines."""
    if c is None:
        return []
    groups: list[tuple[str, bytearray]] = []
    for _, d, data in c.transcript:
        if groups and groups[-1][0] == d and d == 'S':
            groups[-1][1].extend(data)
        else:
            groups.append((d, bytearray(data)))
    out = []
    for d, blob in groups:
        parts = re.split(rb'(?<=\r\n)(?=\* |t\d+\.\d+ |\+ )', bytes(blob)) \
            if d == 'S' else [bytes(blob)]
        for part in parts:
            out.append('%s%d %s' % (d, c.cid, repr(
                part if len(part) <= 300 else part[:300] + b'...')))
    return out[-limit:]


class C10(Check):
    pid = 'C10'
    level = 'exploration'
    title = 'message commands vs. reference model'
    rule = ('case = one session running a program of 0-10 provisioning APPENDs '
            '+ 5-25 message commands (APPEND with flags/date-time, STORE '
            '[+-]FLAGS[.SILENT], EXPUNGE, UID EXPUNGE, COPY, MOVE, FETCH of '
            'seen-setting and peeking items, CLOSE, SELECT/EXAMINE, and '
            'commands that must be refused) generated from the model state, '
            'with another connection editing flags in the selected mailbox '
            'right before one FETCH in five, '
            'sequence/UID sets drawn from shapes single / range / reversed / '
            '* / 1:* / *:n / n:* / duplicates / overlapping / lists / '
            'out-of-range / 4294967295 / expunged and never-assigned UIDs, '
            'on dict, maildir and maildir with a dovecot-keywords file '
            '(keywords permitted), a quarter of the cases with the server '
            'process in a non-UTC zone (TZ); every step compared with the reference '
            'model (tagged condition, untagged responses, full dump); '
            'distinct = hash of the (command, set shape, store mode) sequence;'
            ' non-trivial = >= 3 steps compared and >= 1 mutation applied')
    assumptions = [
        'one session under test per case (concurrency: C01/C02); a second '
        'connection EXAMINEs for the dumps and, before one FETCH in five, '
        'edits flags while nothing else is in flight',
        'UID values, \\Recent, response syntax and message bytes are owned by '
        'C04, C17, C07, C03 and only used here to identify messages',
        'latitudes 1-8 of the module docstring (counted as lat_*)',
        'dict and maildir(++) backends, maildir also with --colon; redis '
        'cannot run here']
    floors = {'steps_compared': 19000, 'dumps_compared': 22000,
              'flag_comparisons': 70000, 'views_compared': 13000,
              'cmd_store': 1900, 'cmd_uid_store': 1600, 'cmd_fetch': 1100,
              'cmd_uid_fetch': 900, 'cmd_expunge': 850,
              'cmd_uid_expunge': 1000, 'cmd_copy': 700, 'cmd_uid_copy': 550,
              'cmd_move': 450, 'cmd_uid_move': 400, 'cmd_append': 7000,
              'cmd_close': 450, 'store_messages_addressed': 4000,
              'seen_set_checks': 1100, 'seen_kept_checks': 1800,
              'expunge_expected_removals': 800, 'copies_compared': 2500,
              'copyuid_checked': 1400, 'append_dates_compared': 3500,
              'uid_expunge_set_spares_deleted': 180, 'final_dumps': 1900,
              'shape_star': 330, 'shape_reversed': 300,
              'shape_star-range': 1100, 'shape_u-star': 350,
              'shape_u-reversed': 170, 'shape_u-star-range': 1000,
              'shape_dup': 450, 'lat_oor_ok': 1000}
    time_cap = {'quick': 90.0, 'thorough': 720.0}

    def cases(self, tier: str, seed: int) -> Iterable[dict[str, Any]]:
        n = 2400 if tier == 'quick' else 40000
        rng = random.Random(seed * 7919 + 10)
        for i in range(n):
            r = rng.random()
            spec: dict[str, Any] = {
                'seed': seed * 1_000_003 + i,
                'backend': 'dict' if r < 0.6 else 'maildir',
                'nmsgs': rng.choice([0, 1, 2, 3, 4, 4, 5, 6, 6, 7, 8, 9,
                                     10]),
                'nsteps': rng.randint(5, 25)}
            if r >= 0.8:
                spec['kwfile'] = True
            elif r >= 0.72:
                # a deployment with --colon (file systems without ':')
                spec['backend'] = 'maildir-colon'
            if rng.random() < 0.25:
                spec['tz'] = rng.choice(TZS)
            yield spec

    def extra_evidence(self, agg: dict[str, Any]) -> dict[str, Any]:
        c = agg['counters']
        return {
            'latitude_uses': {k: v for k, v in c.items()
                              if k.startswith('lat_')},
            'commands_compared': {k[4:]: v for k, v in c.items()
                                  if k.startswith('cmd_')},
            'set_shapes': {k[6:]: v for k, v in c.items()
                           if k.startswith('shape_')}}

    def run_case(self, spec: dict[str, Any]) -> dict[str, Any]:
        random.seed(spec.get('seed', 0))
        case = Case(spec)

        async def main(loop: L.CtlLoop) -> None:
            await case.run()

        # the zone the server process runs in is a parameter of the case
        old_tz = os.environ.get('TZ')
        if spec.get('tz'):
            os.environ['TZ'] = spec['tz']
            time.tzset()
            case.cnt['cases_in_zone_' + spec['tz'].split('/')[-1]] += 1
        try:
            L.run(main, max_steps=3_000_000)
        except L.Deadlock:
            case.aborted = case.aborted or 'deadlock'
        except L.StepLimit:
            case.aborted = case.aborted or 'step-limit'
        finally:
            if spec.get('tz'):
                if old_tz is None:
                    os.environ.pop('TZ', None)
                else:
                    os.environ['TZ'] = old_tz
                time.tzset()
        if case.viol:
            w = case.viol[0].setdefault('witness', {})
            w['program'] = case.program()
            w['transcript'] = transcript(case.conn, 60)
            w['probe_transcript'] = transcript(case.probe, 12)
        sig = hashlib.sha1('|'.join(case.sig).encode()).hexdigest()[:16]
        return {'violations': case.viol, 'counters': dict(case.cnt),
                'sig': sig,
                'nontrivial': case.cnt['steps_compared'] >= 3
                and case.mutations >= 1,
                'sample': {'spec': spec, 'program': case.program()[:30]},
                'aborted': case.aborted}


CHECK = C10()
