"""C20 -- lock primitives give the exclusion they document.

Code under test: ``pymap.concurrent`` -- ``ReadWriteLock.for_asyncio()``,
``ReadWriteLock.for_threading()`` and ``FileLock``.

Events: ``req`` / ``enter`` / ``exit`` logged by the harness task itself, the
latter two *inside* the critical section, so log order is real order.

Oracle (online): at enter(W) nobody is inside; at enter(R) no writer is
inside.  Deadlock: the loop is quiescent, no task waits for a yield to
complete (every holder has been run to its release), yet a task is
unfinished.  After a cancellation a fixed follow-up (W || R || W, three
arrival orders) on the same lock object must keep exclusion and finish.
After every program (also when a body raised or a task was cancelled) a fresh
writer acquires without suspending (FileLock: the lock file is absent).

Latitude (false-alarm rules, DESIGN 9):
* FileLock: only what the property says -- two writers never hold the file at
  once, a granted write lock is always released.  Readers do not exclude
  writers by design ("If the file is absent, read-locks will not block"), so
  reader/writer overlap is *not* checked for it.  ``TimeoutError`` after the
  retry delays ran out is a documented outcome (counted, never a violation).
  Expiry stealing (600 s) is out of scope.
* Fairness/priority between readers and writers is not demanded.
* Glass-box reads of ``_counter`` only *name* a violation (mechanism id),
  they never decide one.
* Threads/processes: a join/wait timeout is *aborted*, never a violation,
  unless every live thread is parked on the lock while nobody is inside and
  all other threads have finished the repetition (explained deadlock).

Schedules: see ``vf.c20_inloop`` -- FIFO ready queue; the director chooses
which paused task's future fires next, whether the next external event comes
at quiescence or back-to-back (0/1 director passes later), and when the one
cancellation is delivered.  Small programs are swept exhaustively by
stateless re-execution with a choice prefix (<= ``bound`` leaves), larger ones
are sampled with seeded random choices.
"""

from __future__ import annotations

import hashlib
import itertools
import random
import shutil
import tempfile
from typing import Any, Iterable

from .. import loop as L
from ..c20_inloop import Chooser, Run, make_lock, next_prefix, task_steps
from ..runner import Check

PATS = (['R1'], ['W1'], ['R1', 'R1'], ['R1', 'W1'], ['W1', 'R1'],
        ['W1', 'W1'])
GAPS_Q = ['q']
GAPS_ALL = ['q', 0, 1]

REPLAYS: dict[str, dict[str, Any]] = {
    # defect 20a: a second reader is admitted while the first reader is
    # still queued behind the active writer
    'reader-passes-queued-reader': {
        'mode': 'replay', 'impl': 'asyncio', 'gaps': GAPS_Q, 'cancel': None,
        'tasks': [['W1'], ['R1'], ['R1']], 'choices': [0, 1, 1]},
    # same root, other face: the passing reader gets in during the hand-over
    # window, the already granted writer then joins it
    'writer-joins-passing-reader': {
        'mode': 'replay', 'impl': 'asyncio', 'gaps': GAPS_Q, 'cancel': None,
        'tasks': [['W1', 'R1'], ['W1'], ['R1']], 'choices': [0, 1, 1, 0]},
    # defect 20b: cancelling the queued first reader leaks the counter
    'cancel-queued-first-reader': {
        'mode': 'replay', 'impl': 'asyncio', 'gaps': GAPS_Q,
        'cancel': {'task': 1, 'step': 1},
        'tasks': [['W1'], ['R1']], 'choices': [0, 1, 1, 0]},
}


def small_programs(sizes: Iterable[int] = (2, 3)) -> list[list[list[str]]]:
    out = []
    for n in sizes:
        for combo in itertools.combinations_with_replacement(
                range(len(PATS)), n):
            out.append([list(PATS[i]) for i in combo])
    return out


def decorate(rng: random.Random, tasks: list[list[str]],
             raises: bool = True) -> list[list[str]]:
    """Randomly lengthen critical sections, add yields between
    acquisitions, make bodies raise."""
    out = []
    for t in tasks:
        nt = []
        for a in t:
            s = a[0] + ('2' if rng.random() < 0.35 else '1')
            if rng.random() < 0.35:
                s += 'b'
            if raises and rng.random() < 0.25:
                s += '!'
            nt.append(s)
        out.append(nt)
    return out


def random_program(rng: random.Random, ntasks: int, maxacq: int) \
        -> list[list[str]]:
    tasks = [[rng.choice('RW') + '1' for _ in range(rng.randint(1, maxacq))]
             for _ in range(ntasks)]
    return decorate(rng, tasks)


def cancel_points(tasks: list[list[str]]) -> list[dict[str, int]]:
    return [{'task': ti, 'step': si} for ti, t in enumerate(tasks)
            for si in range(len(task_steps(t)))]


# -- in-loop exploration -----------------------------------------------------

def explore(spec: dict[str, Any]) -> dict[str, Any]:
    impl = spec['impl']
    tasks = spec['tasks']
    gaps = spec.get('gaps', GAPS_Q)
    mode = spec['mode']
    bound = spec.get('bound', 20000)
    nrand = spec.get('nrand', 0)
    seed = spec.get('seed', 0)
    base = tempfile.mkdtemp(prefix='vf-c20-') if impl == 'file' else None
    path = (base + '/lock') if base else None
    c = {'schedules': 0, 'distinct_schedules': 0, 'enter_events_checked': 0,
         'exit_events': 0, 'cancel_deliveries': 0, 'followups_run': 0,
         'free_probes': 0, 'bodies_raised': 0, 'file_timeouts': 0,
         'sweeps_complete': 0, 'sweeps_truncated': 0,
         'cancel_points_enumerated': 0, 'cancel_points_run': 0,
         'cancel_points_unreachable': 0, 'cancelled_while_queued': 0,
         'cancelled_inside': 0, 'backtoback_events': 0}
    logs: set[int] = set()
    viols: dict[str, dict[str, Any]] = {}
    sample: dict[str, Any] = {}
    points = cancel_points(tasks)

    async def one(loop: L.CtlLoop, prefix: list[int],
                  rng: random.Random | None) -> Chooser:
        cancel = spec.get('cancel')
        if cancel == 'random':
            cancel = rng.choice(points) if rng and rng.random() < 0.7 \
                else None
        ch = Chooser(prefix, rng)
        r = Run(loop, make_lock(impl, path), impl, tasks, ch, gaps, cancel,
                path)
        await r.execute()
        c['schedules'] += 1
        c['enter_events_checked'] += r.checked
        c['file_timeouts'] += r.timeouts
        c['free_probes'] += r.probed
        for ev in r.log:
            if ev[0] == 'exit':
                c['exit_events'] += 1
            elif ev[0] == 'raised':
                c['bodies_raised'] += 1
        c['backtoback_events'] += sum(1 for s in r.sched if s[1] in (0, 1))
        if r.cancelled is not None:
            c['cancel_deliveries'] += 1
            c['followups_run'] += r.phase == 'followup'
            c['cancelled_while_queued'] += r.cancelled['state'] == 'waiting'
            c['cancelled_inside'] += bool(r.cancelled['inside'])
        logs.add(hash(tuple(r.log)))
        if not sample:
            sample.update({'tasks': tasks, 'impl': impl, 'cancel': cancel,
                           'schedule': r.sched[:40],
                           'events': [list(map(str, e)) for e in r.log[:60]]})
        v = r.viol
        if v is not None:
            old = viols.get(v['mech'])
            if old is None or v['at_event'] < old['witness']['at_event']:
                choices = [t[0] for t in ch.trail]
                viols[v['mech']] = {
                    'mech': v['mech'], 'detail': v['detail'],
                    'witness': {
                        'impl': impl, 'tasks': tasks, 'gaps': gaps,
                        'cancel': cancel, 'phase': v['phase'],
                        'cancelled': r.cancelled, 'diag': v['diag'],
                        'at_event': v['at_event'], 'schedule': r.sched,
                        'events': [list(e) for e in r.log],
                        'replay_spec': {
                            'mode': 'replay', 'impl': impl, 'tasks': tasks,
                            'gaps': gaps, 'cancel': cancel,
                            'choices': choices}}}
        return ch

    async def main(loop: L.CtlLoop) -> None:
        if mode == 'replay':
            await one(loop, list(spec['choices']), None)
            return
        complete = False
        if mode == 'sweep':
            prefix: list[int] | None = []
            n = 0
            while prefix is not None and n < bound:
                ch = await one(loop, prefix, None)
                n += 1
                prefix = next_prefix(ch.trail)
            complete = prefix is None
            c['sweeps_complete'] += complete
            c['sweeps_truncated'] += not complete
        if mode == 'random' or not complete:
            for i in range(nrand):
                await one(loop, [], random.Random(seed * 1_000_003 + i))

    try:
        L.run(main, max_steps=10 ** 15)
    finally:
        if base:
            shutil.rmtree(base, ignore_errors=True)
    if isinstance(spec.get('cancel'), dict):
        c['cancel_points_enumerated'] = 1
        if c['cancel_deliveries']:
            c['cancel_points_run'] = 1
        elif c['sweeps_complete']:
            c['cancel_points_unreachable'] = 1
    c['distinct_schedules'] = len(logs)
    sig = hashlib.sha1(repr((impl, tasks, gaps, spec.get('cancel'),
                             sorted(logs)[:2000])).encode()).hexdigest()[:16]
    return {'violations': list(viols.values()), 'counters': c, 'sig': sig,
            'nontrivial': c['enter_events_checked'] > 0, 'sample': sample,
            'aborted': None}


# -- threads / processes -----------------------------------------------------

def run_threads(spec: dict[str, Any]) -> dict[str, Any]:
    from ..c20_threads import ThreadRun
    r = ThreadRun(spec['tasks'], spec['reps'], spec.get('rounds', 10))
    aborted = r.run()
    viols = []
    if r.viol is not None:
        v = r.viol
        viols.append({'mech': v['mech'], 'detail': v['detail'],
                      'witness': {'impl': 'threading', 'tasks': spec['tasks'],
                                  'rep': v['rep'],
                                  'recent_events': v['recent_events']}})
    c = {'thread_reps': r.reps_done, 'thread_enter_events_checked': r.checked,
         'thread_requests_while_busy': r.req_while_busy,
         'thread_free_probes': r.reps_done}
    sig = hashlib.sha1(repr(('thr', spec['tasks'], spec.get('seed')))
                       .encode()).hexdigest()[:16]
    return {'violations': viols, 'counters': c, 'sig': sig,
            'nontrivial': r.req_while_busy > 0,
            'sample': {'impl': 'threading', 'tasks': spec['tasks'],
                       'last_events': [list(e) for e in r.log[-20:]]},
            'aborted': aborted}


def run_procs_case(spec: dict[str, Any]) -> dict[str, Any]:
    from ..c20_procs import run_procs
    res = run_procs(spec['nproc'], spec['iters'], spec.get('raise_every', 7))
    kids = [k for k in res['children'] if k]
    c = {'proc_rounds': 1 if not res['aborted'] else 0,
         'proc_entered': sum(k['entered'] for k in kids),
         'proc_found_busy': sum(k['found_busy'] for k in kids),
         'proc_bodies_raised': sum(k['raised'] for k in kids),
         'proc_timeouts': sum(k['timeout'] for k in kids)}
    viols = []
    if res['viol']:
        viols.append({'mech': res['viol']['mech'],
                      'detail': res['viol']['detail'],
                      'witness': {'impl': 'file', 'spec': spec,
                                  'children': res['children']}})
    sig = hashlib.sha1(repr(('proc', spec)).encode()).hexdigest()[:16]
    return {'violations': viols, 'counters': c, 'sig': sig,
            'nontrivial': c['proc_found_busy'] > 0,
            'sample': {'impl': 'file', 'mode': 'procs', 'spec': spec,
                       'children': res['children']},
            'aborted': res['aborted']}


def run_retry_edges(spec: dict[str, Any]) -> dict[str, Any]:
    """FileLock with a SHORT retry schedule (n delays): the holder leaves just
    before the waiter's k-th re-test, k = 1..n (k = n is the last re-test,
    k = n+1 a genuine time-out), the waiter's body optionally raises, an
    optional second waiter.  Whatever the waiters were told (entered or
    TimeoutError), two writers never overlap and once every task has left
    the lock file is gone and a fresh writer gets in without waiting."""
    import asyncio
    import os
    import tempfile
    from pymap.concurrent import FileLock
    from .. import loop as L
    n, k = spec['n'], spec['k']
    d = tempfile.mkdtemp(prefix='vf-c20r-')
    path = os.path.join(d, 'x.lock')
    viols: list[dict[str, Any]] = []
    counters = {'retry_edge_runs': 0, 'retry_edge_entered': 0,
                'retry_edge_timeouts': 0, 'retry_edge_last_retry_wins': 0}
    log: list[Any] = []

    def mk() -> Any:
        delay = (1.0,) * n
        return FileLock(path, read_retry_delay=delay,
                        write_retry_delay=delay)

    async def main(loop: Any) -> None:
        inside: list[str] = []
        release = loop.create_future()

        async def holder() -> None:
            async with mk().write_lock():
                inside.append('h')
                log.append(('enter', 'h'))
                await release
                inside.remove('h')
                log.append(('exit', 'h'))

        async def waiter(name: str, raises: bool) -> None:
            try:
                async with mk().write_lock():
                    if inside:
                        viols.append({
                            'mech': 'two-writers-inside',
                            'detail': '%s entered while %r inside'
                            % (name, inside)})
                    inside.append(name)
                    log.append(('enter', name))
                    counters['retry_edge_entered'] += 1
                    if k == n:
                        counters['retry_edge_last_retry_wins'] += 1
                    await asyncio.sleep(0)
                    inside.remove(name)
                    log.append(('exit', name))
                    if raises:
                        raise ZeroDivisionError()
            except ZeroDivisionError:
                pass
            except TimeoutError:
                counters['retry_edge_timeouts'] += 1
                log.append(('timeout', name))

        th = loop.create_task(holder())
        await loop.quiescent()
        tw = [loop.create_task(waiter('w1', spec['raises']))]
        await loop.quiescent()
        if spec['second']:
            await loop.advance(0.25)
            tw.append(loop.create_task(waiter('w2', False)))
            await loop.quiescent()
        await loop.advance(k - 0.5 - (0.25 if spec['second'] else 0.0))
        await loop.quiescent()
        release.set_result(None)
        await loop.quiescent()
        for _ in range(2 * n + 4):
            await loop.advance(1.0)
            await loop.quiescent()
        if not (th.done() and all(t.done() for t in tw)):
            for t in [th] + tw:
                t.cancel()
            return
        counters['retry_edge_runs'] += 1
        if os.path.exists(path):
            viols.append({
                'mech': 'lock-not-released',
                'detail': 'FileLock with %d retry delays, holder left before '
                're-test %d: every task has left (log %r) but the lock file '
                'is still there' % (n, k, log)})
            return
        got: list[int] = []

        async def fresh() -> None:
            async with mk().write_lock():
                got.append(1)
        co = fresh()
        try:
            co.send(None)
        except StopIteration:
            pass
        else:
            co.close()
            viols.append({'mech': 'lock-not-released',
                          'detail': 'a fresh writer has to wait'})

    aborted = None
    try:
        L.run(main, max_steps=200_000)
    except L.Deadlock:
        aborted = 'deadlock'
    finally:
        import shutil
        shutil.rmtree(d, ignore_errors=True)
    for v in viols:
        v['witness'] = {'impl': 'file', 'spec': spec,
                        'log': [list(e) for e in log]}
    sig = hashlib.sha1(repr(('retry', sorted(spec.items()))).encode()
                       ).hexdigest()[:16]
    return {'violations': viols, 'counters': counters, 'sig': sig,
            'nontrivial': counters['retry_edge_runs'] > 0,
            'sample': {'impl': 'file', 'mode': 'retry-edges', 'spec': spec,
                       'log': [list(e) for e in log]},
            'aborted': aborted}


def run_io_enter(spec: dict[str, Any]) -> dict[str, Any]:
    """pymap/backend/maildir/io.py takes the FileLock of a control file
    (dovecot-uidlist, subscriptions) and then reads the file.  When that read
    fails (damaged header, I/O or permission error) the ``async with`` block
    is left by the exception: the lock was granted, so its file must be gone
    when the statement has been left -- judged inside the handler, while the
    exception is still referenced, as a server that answers BYE and logs the
    error holds it -- and again once it was dropped and the loop is idle."""
    import asyncio
    import os
    import tempfile
    from .. import loop as L
    d = tempfile.mkdtemp(prefix='vf-c20io-')
    viols: list[dict[str, Any]] = []
    counters = {'io_enter_failures': 0, 'io_enter_controls': 0}
    what = spec['what']

    async def main(loop: Any) -> None:
        if spec['file'] == 'uidlist':
            from pymap.backend.maildir.uidlist import UidList as F
        else:
            from pymap.backend.maildir.subscriptions import Subscriptions as F
        fpath, lpath = F.get_file(d), F.get_lock(d)
        if what == 'garbage':
            with open(fpath, 'wb') as f:
                f.write(b'\xff\xfe not a header \x00\n\x80\x81\n')
        elif what == 'directory':
            os.mkdir(fpath)
        elif what == 'unreadable-text':
            with open(fpath, 'w') as f:
                f.write('x y z\n1 2 3 4 5\n:::\n')
        raised = None
        try:
            async with F.with_write(d) as obj:
                pass
        except Exception as exc:
            raised = exc
            if lpath is not None and os.path.exists(lpath):
                viols.append({
                    'mech': 'lock-not-released:enter-failed',
                    'detail': '%s.with_write: reading the %s file raised %r '
                    'after the lock was granted; the async-with statement '
                    'has been left and the lock file is still there'
                    % (F.__name__, what, exc)})
        if raised is None:
            counters['io_enter_controls'] += 1
        else:
            counters['io_enter_failures'] += 1
        raised = None
        await loop.quiescent()
        if lpath is not None and os.path.exists(lpath) and not viols:
            viols.append({'mech': 'lock-not-released',
                          'detail': '%s.with_write (%s): lock file present '
                          'after the block and an idle loop'
                          % (F.__name__, what)})

    aborted = None
    try:
        L.run(main, max_steps=100_000)
    except L.Deadlock:
        aborted = 'deadlock'
    finally:
        import shutil
        shutil.rmtree(d, ignore_errors=True)
    for v in viols:
        v['witness'] = {'impl': 'file', 'spec': spec}
    sig = hashlib.sha1(repr(('ioenter', sorted(spec.items()))).encode()
                       ).hexdigest()[:16]
    return {'violations': viols, 'counters': counters, 'sig': sig,
            'nontrivial': True,
            'sample': {'impl': 'file', 'mode': 'io-enter', 'spec': spec},
            'aborted': aborted}


def run_thread_script(spec: dict[str, Any]) -> dict[str, Any]:
    from .. import c20_threads as T
    if spec['script'] == 'threads-writer-joins-passing-reader':
        viol, aborted, checked = T.script_writer_joins_passing_reader()
    else:
        viol, aborted, checked = T.script_reader_passes_queued_reader()
    viols = []
    if viol:
        viols.append({'mech': viol['mech'], 'detail': viol['detail'],
                      'witness': {'impl': 'threading',
                                  'script': spec['script'],
                                  'events': viol['recent_events']}})
    return {'violations': viols,
            'counters': {'thread_enter_events_checked': checked},
            'sig': 'thread-script', 'nontrivial': True, 'sample': None,
            'aborted': aborted}


class C20(Check):
    pid = 'C20'
    level = 'exploration'
    title = 'lock primitives give the exclusion they document'
    rule = ('case = one program (2-4 tasks x 1-3 R/W acquisitions x 1-2 '
            'yields inside, optional yield before, optional raising body) x '
            'one lock implementation x {sweep of every director choice '
            'sequence up to a leaf bound | N seeded random schedules | one '
            'cancellation point (task, step) swept over every delivery '
            'instant | real threads | forked processes}; schedules counts '
            'executions, distinct_schedules counts distinct req/enter/exit/'
            'cancel event orders per case; non-trivial = at least one enter '
            'event was checked (threads/processes: at least one request '
            'arrived while the lock was held)')
    assumptions = [
        'asyncio ready queue is FIFO; the only freedom is which harness '
        'future fires next, whether two external events arrive back-to-back '
        '(0 or 1 director passes apart) or at quiescence, and when the one '
        'cancellation is delivered',
        'thread and process executions are stress-sampled, not controlled; '
        'timeouts there are inconclusive unless the deadlock is explained',
        'FileLock: only writer/writer exclusion and release-on-exit are '
        'demanded; readers do not exclude writers by design; TimeoutError '
        'after exhausted retries is a documented outcome; expiry stealing '
        '(600 s) is out of scope; retry sleeps run in virtual time with one '
        'retry period after every external event',
        'glass-box reads of _counter only name a mechanism']
    floors = {'schedules': 100000, 'enter_events_checked': 300000,
              'cancel_points_run': 150, 'followups_run': 5000,
              'free_probes': 50000, 'thread_reps': 300,
              'thread_requests_while_busy': 500, 'proc_rounds': 8,
              'proc_found_busy': 200, 'bodies_raised': 1000,
              'retry_edge_runs': 60, 'retry_edge_last_retry_wins': 10,
              'io_enter_failures': 3}
    time_cap = {'quick': 150.0, 'thorough': 1500.0}

    def cases(self, tier: str, seed: int) -> Iterable[dict[str, Any]]:
        quick = tier == 'quick'
        rng = random.Random(seed * 2_147_483_629 + 20)
        out: list[dict[str, Any]] = []
        small = small_programs((2, 3))
        four = small_programs((4,)) if not quick else \
            [[[k + '1'] for k in combo] for combo in
             itertools.combinations_with_replacement('RW', 4)]
        bound = 20000
        k = 0

        def add(**kw: Any) -> None:
            nonlocal k
            k += 1
            kw.setdefault('seed', seed * 1_000_003 + k)
            out.append(kw)

        # 1. complete sweeps, events only at quiescence
        for t in small:
            add(mode='sweep', impl='asyncio', tasks=t, gaps=GAPS_Q,
                cancel=None, bound=bound, nrand=0)
        # 2. sweeps with back-to-back external events
        for t in small + (four if quick else []):
            add(mode='sweep', impl='asyncio', tasks=t, gaps=GAPS_ALL,
                cancel=None, bound=bound if not quick else 4000,
                nrand=1000 if quick else 5000)
        if not quick:
            for t in rng.sample(four, 40):
                add(mode='sweep', impl='asyncio', tasks=t, gaps=GAPS_Q,
                    cancel=None, bound=bound, nrand=5000)
        # 3. decorated variants (longer sections, yields between, raising)
        for t in (small if quick else small * 6):
            add(mode='sweep', impl='asyncio', tasks=decorate(rng, t),
                gaps=GAPS_Q, cancel=None, bound=bound if not quick else 4000,
                nrand=1000)
        # 4. cancellation: every (task, step) of the chosen programs
        canc = [t for t in small if len(t) == 2 or
                all(len(x) == 1 for x in t)]
        rest = [t for t in small if t not in canc]
        canc += rng.sample(rest, 10) if quick else rest
        canc += [decorate(rng, t) for t in
                 (rng.sample(small, 12) if quick else small)]
        # sections without a yield inside: the task leaves in the same pass
        # in which it entered, while others are still on their way in
        canc += [[['W1'], ['R0'], ['R1'], ['R1']],
                 [['W1'], ['R0'], ['R0'], ['R1']],
                 [['W1'], ['R0'], ['R1']], [['R0'], ['W0'], ['R1']],
                 [['W1'], ['W0'], ['R0'], ['R1']]]
        for t in canc:
            for cp in cancel_points(t):
                add(mode='sweep', impl='asyncio', tasks=t, gaps=GAPS_ALL,
                    cancel=cp, bound=2000 if quick else 12000,
                    nrand=200 if quick else 2000)
        # 5. larger programs, random schedules, random cancellation
        for _ in range(160 if quick else 3000):
            add(mode='random', impl='asyncio',
                tasks=random_program(rng, rng.choice([3, 4, 4]), 3),
                gaps=rng.choice([GAPS_Q, GAPS_ALL]),
                cancel=rng.choice([None, 'random']),
                nrand=500 if quick else 1500)
        # 6. FileLock inside one loop (virtual-time retries)
        fsmall = [t for t in small if len(t) == 2 or
                  all(len(x) == 1 for x in t)]
        for t in small:
            add(mode='sweep', impl='file', tasks=t, gaps=GAPS_Q, cancel=None,
                bound=1500 if quick else bound, nrand=200)
            add(mode='sweep', impl='file', tasks=decorate(rng, t),
                gaps=GAPS_Q, cancel=None, bound=1000 if quick else bound,
                nrand=200)
        for t in (rng.sample(fsmall, 12) if quick else fsmall):
            for cp in cancel_points(t):
                add(mode='sweep', impl='file', tasks=t, gaps=GAPS_Q,
                    cancel=cp, bound=1000 if quick else bound, nrand=100)
        for _ in range(24 if quick else 600):
            add(mode='random', impl='file',
                tasks=random_program(rng, rng.choice([2, 3, 4]), 2),
                gaps=rng.choice([GAPS_Q, GAPS_ALL]),
                cancel=rng.choice([None, 'random']),
                nrand=150 if quick else 400)
        # 7. threading lock on real threads
        for i in range(64 if quick else 1200):
            t = rng.choice(small) if i % 2 else None
            if t is None or len(t) < 3:
                t = random_program(rng, rng.choice([3, 4]), 2)
            else:
                t = decorate(rng, t)
            add(mode='threads', tasks=t, reps=12 if quick else 25,
                rounds=10)
        # 8. FileLock across forked processes
        for i in range(24 if quick else 400):
            add(mode='procs', nproc=2 + i % 3, iters=120 if quick else 300,
                raise_every=rng.choice([0, 3, 7]))
        # 9. FileLock with short retry schedules: the holder leaves just
        # before each re-test of the waiter, the last one included
        for n in (1, 2, 3, 4, 6):
            for kk in range(1, n + 2):
                for raises in (False, True):
                    for second in (False, True):
                        add(mode='retry-edges', n=n, k=kk, raises=raises,
                            second=second)
        # 10. the users of FileLock in maildir/io.py: the read that follows
        # the acquisition fails
        for f in ('uidlist', 'subscriptions'):
            for w in ('garbage', 'directory', 'unreadable-text', 'fine'):
                add(mode='io-enter', file=f, what=w)
        rng.shuffle(out)
        # the cheap deterministic cases first: a time cap under load must
        # not cut them
        out.sort(key=lambda c: c.get('mode') not in ('retry-edges',
                                                      'io-enter'))
        return out

    def run_case(self, spec: dict[str, Any]) -> dict[str, Any]:
        if 'script' in spec:
            name = spec['script']
            if name.startswith('threads-'):
                return run_thread_script(spec)
            return explore(REPLAYS[name])
        mode = spec['mode']
        if mode == 'threads':
            return run_threads(spec)
        if mode == 'procs':
            return run_procs_case(spec)
        if mode == 'retry-edges':
            return run_retry_edges(spec)
        if mode == 'io-enter':
            return run_io_enter(spec)
        return explore(spec)


CHECK = C20()
