"""C11 -- mailbox namespace commands behave as the reference model says.

Deciding monitor: a reference model of the namespace (class ``Names``) that is
stepped alongside the real server over ONE authenticated connection.  After
EVERY program step the check compares

* the tagged condition (OK vs NO/BAD) with the model's allowed set,
* ``LIST "" *`` and ``LSUB "" *`` (sets of names, decoded from the wire
  spelling with the independent modified-UTF-7 decoder of ``vf.gen``),
* a few LIST/LSUB probes with reference/pattern pairs from a small hostile
  vocabulary, evaluated with the check's own glob matcher ``glob_match`` (a
  dynamic program over characters: ``*`` any sequence, ``%`` any sequence
  without the delimiter; reference prepended to the pattern, RFC 3501 6.3.8),
* a content dump of every existing mailbox: ``STATUS n (MESSAGES UIDNEXT
  UIDVALIDITY)`` + ``EXAMINE n`` + ``UID FETCH 1:* (UID BODY.PEEK[
  HEADER.FIELDS (X-VF-ID)])`` -- so RENAME is seen to keep messages, UIDs and
  UIDVALIDITY and a NO is seen to change nothing.

The connection is deselected after every dump by an EXAMINE of a name that is
never created (a failed SELECT/EXAMINE leaves no mailbox selected, RFC 3501
6.3.1), so every program command runs in the authenticated state.

Model (``Names``): ``real`` = names that exist as selectable mailboxes (with
the expected content of each), ``subs`` = subscribed names; both start from
the first ``LIST "" *`` / ``LSUB "" *`` of the fresh account.  *Implied* names
are proper hierarchy ancestors of real names that are not real themselves.

LATITUDE (every use is counted in a ``lat_*`` counter):

 1. hierarchy parents that were never created (implied names) may be listed
    as ``\\Noselect`` placeholders (``lat_parent_noselect``), may have been
    made real mailboxes by the CREATE/RENAME that implied them (maildir;
    ``lat_parent_real`` -- accepted only in the step that implied them, only
    when listed WITHOUT ``\\Noselect``, and then they must be selectable and
    empty and stay real), or may be omitted from a listing whose pattern does
    not end in ``%`` (``lat_parent_unlisted``).  SELECT/EXAMINE/STATUS/APPEND
    on a placeholder that the last full LIST flagged ``\\Noselect`` must be
    refused; on an unlisted placeholder anything goes.
 2. DELETE of a real name that has inferiors: NO and unchanged
    (``lat_delete_inferiors_refused``) or OK, the name then becomes a
    placeholder and the inferiors stay (``lat_delete_inferiors_noselect``).
 3. LSUB may keep a subscribed name after the mailbox was deleted/renamed
    away (``lat_lsub_keeps_missing``): it must, a subscription ends with
    UNSUBSCRIBE only; LSUB may list ancestors of subscribed names
    flagged ``\\Noselect`` (``lat_lsub_parent``, RFC 3501 6.3.9); a
    subscription may follow a RENAME (``lat_sub_follows_rename``).  A name
    that is not subscribed must never be in LSUB.
 4. RENAME INBOX: NO and unchanged is accepted (``lat_rename_inbox_refused``;
    maildir does not support it); on OK the target holds exactly INBOX's
    messages (UIDs are not compared), INBOX is empty, and every inferior of
    INBOX stays (``lat_inbox_inferior_stayed``; RFC 3501 6.3.5: they "are
    unaffected by a rename of INBOX").
 5. INBOX is case-insensitive: every argument whose upper-cased form is
    ``INBOX`` denotes INBOX (``lat_inbox_case_arg``); in patterns the first
    five characters of names whose first hierarchy level is a spelling of
    INBOX may be compared case-insensitively (``lat_inbox_case_pattern``);
    a wildcard-free pattern that spells INBOX in any case must return INBOX.
    Names *below* a differently spelled INBOX (``Inbox/x``) are ordinary
    names; their parent ``Inbox`` is the same mailbox as INBOX, and a listing
    of that spelling is not judged (``lat_inbox_variant_listed``).
 6. SUBSCRIBE of a name that does not exist: OK (``lat_subscribe_missing_ok``)
    or NO (``lat_subscribe_missing_no``).  UNSUBSCRIBE of a name that is not
    subscribed: OK or NO, nothing changes.
 7. Refusal (NO/BAD) of a CREATE or of a RENAME *target* is always allowed
    provided nothing changed (``lat_create_refused``, ``lat_rename_refused``;
    maildir refuses empty parts, '.', '..', NUL, > 240 bytes, unencodable).
    Refusing SELECT/EXAMINE/STATUS/APPEND/DELETE(without inferiors)/SUBSCRIBE
    for a name the model says EXISTS is a violation.  Floors on ``create_ok``
    and ``rename_ok`` make sure a server that refuses everything is not
    reported as held.
 8. RENAME of a placeholder (implied name): NO and unchanged or OK with all
    inferiors moved (``lat_rename_placeholder_*``).  RENAME onto a name that
    is only a placeholder: NO, or OK provided no moved inferior lands on an
    existing name.  RENAME of a name to one of its own inferiors: NO, or OK
    with the simultaneous substitution of the prefix.
 9. The empty name and names made of delimiters only are generated rarely;
    NO must leave everything unchanged, after an OK the trace is not
    continued (``degenerate_accepted``).  Names with empty, '.' or '..'
    levels are ordinary names: a server may refuse to create them (7), but
    once created they exist under exactly that name.  CREATE of a name with
    a trailing delimiter creates the name without it (RFC 3501 6.3.3,
    ``create_trailing_delimiter``).

Mechanism ids are structural (computed from the step and the difference):
``create-existing-not-refused``, ``delete-missing-not-refused[:noselect-
parent]``, ``rename-missing-not-refused``, ``rename-onto-existing-not-refused
[:inferior]``, ``rename-lost-inferior``, ``rename-left-source-behind``,
``rename-changed-uids``, ``rename-lost-messages``, ``rename-inbox-not-empty``,
``rename-inbox-lost-messages``, ``inbox-created-or-deleted``,
``inbox-overwritten-by-rename``, ``list-missing-existing-name:<class>``,
``list-reports-nonexistent-name[:rename-target-below-source]``,
``list-pattern-mismatch:<class>``, ``list-noselect-on-existing[:inbox-variant-
parent]`` (a line for INBOX flagged ``\\Noselect`` while a name below another
spelling of INBOX exists), ``list-selectable-name-not-selectable``,
``list-has[no]children-untruthful``, ``list-root-response-wrong``,
``list-wrong-delimiter``, ``lsub-missing-subscribed-name[:<class>]``,
``lsub-reports-never-subscribed[:inbox]``, ``lsub-pattern-mismatch:<class>``,
``no-but-state-changed:<CMD>:<content|list|lsub|parent-created>``,
``name-roundtrip-changed``, ``<cmd>-missing-not-refused`` and ``<cmd>-
noselect-not-refused`` (status, select, append), ``existing-name-refused:
<CMD>``, ``unsubscribe-subscribed-refused``, ``create-yields-nonempty-
mailbox``, ``unrelated-mailbox-changed:<CMD>``, ``append-result-wrong``,
``uidvalidity-unstable`` (STATUS and EXAMINE issued back to back disagree on
UIDVALIDITY only), ``status-examine-disagree``, ``command-kills-connection:
<CMD>[:inbox-inferior|:target-below-source]`` (a namespace command under test
got no tagged answer: outside every allowed set; a death during an
*observation* command aborts the trace instead, DESIGN section 9 rule 6).
``<class>`` is the pattern class ``star | percent | mixed | literal | ref |
empty``; it is replaced by ``newline-in-name`` when the name that makes the
difference contains CR or LF (regex '.'/'$' and line-oriented files treat
those specially) and, for LSUB only, by ``trailing-whitespace`` when it ends
in white space or is what remains of a subscribed name after stripping it.

Known findings and depth: ``cases`` reads the *listed* (status ``known``)
mechanisms of this property and switches their input class off in the
generator (``avoid_switch``; an entry may restrict that to some backends with
``"avoid_backends": [...]``) so that not every trace ends on the same defect;
the listed finding is still exercised by its scripted trigger.

Scripted triggers: ``{'script': 'ops', 'backend': ..., 'seed': n, 'ops':
[['CREATE', name], ['RENAME', a, b], ['LIST', ref, pattern], ...]}`` -- names
are plain (decoded) strings; the ops run under the same oracle, with full
LIST/LSUB/dump comparison after every step (LIST/LSUB ops are probes).
"""

from __future__ import annotations

import hashlib
import random
from typing import Any, Iterable

from .. import gen
from .. import loop as L
from ..net import Conn, Sched, lit, quote
from ..runner import Check, load_known
from ..servers import make_env


def ascii_upper(s: str) -> str:
    """Upper case of an all-ASCII name; INBOX is case-insensitive in its
    ASCII letters only (str.upper() maps U+0131 to I)."""
    return s.upper() if s.isascii() else s

DELIM = '/'
DESELECT = b'vf-c11-never-created'
FRESH = ('fresh',)
_SAFE_NAME_ATOM = frozenset(
    'abcdefghijklmnopqrstuvwxyzABCDEFGHIJKLMNOPQRSTUVWXYZ0123456789/_-.')
_SAFE_PATTERN_ATOM = frozenset(
    'abcdefghijklmnopqrstuvwxyzABCDEFGHIJKLMNOPQRSTUVWXYZ0123456789*%/_-')


# -- the glob matcher ---------------------------------------------------------

def glob_match(pattern: str, name: str, ci_upto: int = 0) -> bool:
    """RFC 3501 6.3.8 list-mailbox matching as a DP over characters.

    ``row[j]`` = "pattern[:i] matches name[:j]".  ``*`` matches any sequence
    (also the delimiter), ``%`` any sequence without the delimiter, every
    other character itself.  The first ``ci_upto`` characters of ``name``
    compare case-insensitively (latitude 5)."""
    n = len(name)
    row = [True] + [False] * n
    for ch in pattern:
        new = [False] * (n + 1)
        if ch == '*':
            new[0] = row[0]
            for j in range(1, n + 1):
                new[j] = row[j] or new[j - 1]
        elif ch == '%':
            new[0] = row[0]
            for j in range(1, n + 1):
                new[j] = row[j] or (new[j - 1] and name[j - 1] != DELIM)
        else:
            for j in range(1, n + 1):
                if row[j - 1]:
                    c = name[j - 1]
                    if c == ch or (j <= ci_upto and c.isascii() and ch.isascii()
                                and c.upper() == ch.upper()):
                        new[j] = True
        row = new
        if not any(row):
            return False
    return row[n]


def pattern_class(ref: str, pat: str) -> str:
    if pat == '':
        return 'empty'
    if ref != '':
        return 'ref'
    star, pct = '*' in pat, '%' in pat
    if star and pct:
        return 'mixed'
    if star:
        return 'star'
    if pct:
        return 'percent'
    return 'literal'


# -- names --------------------------------------------------------------------

def norm(name: str) -> str:
    return 'INBOX' if ascii_upper(name) == 'INBOX' else name


def ancestors(name: str) -> list[str]:
    parts = name.split(DELIM)
    return [DELIM.join(parts[:i]) for i in range(1, len(parts))]


def degenerate(name: str) -> bool:
    """The empty name and names made of delimiters only (latitude 9)."""
    return not name.strip(DELIM)


def create_target(name: str) -> str:
    """RFC 3501 6.3.3: the name created is without the trailing hierarchy
    delimiter."""
    if name.endswith(DELIM) and not degenerate(name):
        return name[:-len(DELIM)]
    return name


def first_is_inbox(name: str) -> bool:
    return ascii_upper(name.split(DELIM, 1)[0]) == 'INBOX'


def shape_suffix(name: str | None, lsub: bool = False) -> str:
    """Structural refinement of a mechanism id by the shape of the name that
    makes the difference: a line break in it (regex '.'/'$', line-oriented
    files), or -- subscriptions only -- trailing white space."""
    if name is None:
        return ''
    if '\n' in name or '\r' in name:
        return ':newline-in-name'
    if lsub and name != name.rstrip():
        return ':trailing-whitespace'
    parts = name.split(DELIM)
    if '' in parts:
        return ':empty-level-in-name'
    if any(p in ('cur', 'new', 'tmp') for p in parts):
        return ':maildir-directory-name'
    if '.' in name:
        return ':dot-in-name'
    return ''


def klass_suffix(klass: str, name: str | None, lsub: bool = False) -> str:
    """':<pattern class>' unless the name's shape already explains it."""
    return shape_suffix(name, lsub) or ':' + klass


def name_class(name: str) -> str:
    cl = []
    if degenerate(name):
        cl.append('degenerate')
    if first_is_inbox(name):
        cl.append('inbox' if name == 'INBOX' else 'inboxvar')
    if '\n' in name or '\r' in name:
        cl.append('newline')
    if any(ord(c) < 0x20 or ord(c) == 0x7f for c in name
           if c not in '\r\n'):
        cl.append('ctl')
    if '*' in name or '%' in name:
        cl.append('wild')
    if '"' in name or '\\' in name:
        cl.append('quote')
    if any(ord(c) > 0xffff for c in name):
        cl.append('astral')
    elif any(ord(c) > 0x7f for c in name):
        cl.append('nonascii')
    if any(c in name for c in '.+?[](){}|^$&'):
        cl.append('special')
    d = name.count(DELIM)
    if d:
        cl.append('d%d' % min(d + 1, 4))
    if len(name) > 100:
        cl.append('long')
    if name != name.rstrip() or name != name.lstrip():
        cl.append('edge-ws')
    return '+'.join(cl) or 'plain'


def wire_pattern(pat: str, rng: random.Random | None) -> bytes:
    enc = gen.modutf7_encode(pat)
    if pat and all(c in _SAFE_PATTERN_ATOM for c in pat) and \
            (rng is None or rng.random() < 0.5):
        return enc
    return quote(enc)


def wire_name(name: str) -> bytes:
    """Client spelling of a mailbox name: modified UTF-7 (printable ASCII by
    construction), as an atom only when it is plainly one, else quoted --
    parser corner cases of atoms ('}', ']', '~') belong to C18."""
    enc = gen.modutf7_encode(name)
    if name and all(c in _SAFE_NAME_ATOM for c in name) \
            and name.upper() != 'NIL':
        return enc
    return quote(enc)


WORDS = ['a', 'b', 'ab', 'bc', 'c', 'd', 'Work', 'Sent', 'x1', 'two words',
         'UPPER', 'mixedCase', 'z-9']
SPECIAL_NAMES = ['a.c', 'abc', 'a+b', 'aab', 'x[1]', '(p)', 'a|b', 'q?',
                 '^s$', '{n}', 'a&b', '&', 'a.', '.hidden', 'w..w', '~', '#n',
                 'NIL', 'nil', 'a.c/d', 'a/c', 'a.c.e', 'Work.Sent',
                 'cur', 'new', 'tmp', 'new/x', 'Work/tmp', 'Work/cur/x',
                 'Cur', 'cur.', 'dovecot-uidlist', 'subscriptions',
                 'maildirfolder', 'Work/dovecot-uidlist']
WILD_NAMES = ['a*b', '%x', 'w%/y*', '*', '%', 'a*', 'a%', 'st*r/p%ct', '**',
              'x/*', 'x/%']
QUOTE_NAMES = ['q"x', 'b\\s', '"', '\\', 'a"/b\\', '\\"', 'q" x']
NEWLINE_NAMES = ['nl\nx', 'x\n', '\nlead', 'cr\rx', 'a/b\nc', 'crlf\r\nx',
                 'a\n/b', 'tab\tx', 'x\n\n', 'ab\n']
INBOX_NAMES = ['inbox', 'Inbox', 'Inbox/x', 'INBOX/sub', 'INBOX/sub/deep',
               'inbox/y', 'INBOXx', 'INBO', 'INBOX/a', 'iNbOx/Z', 'INBOX ',
               'xINBOX', 'a/INBOX', 'INBOX/INBOX',
               # not INBOX: str.upper() maps the dotless i to I
               '\u0131nbox', '\u0131NBOX', '\u0131nbox/x', 'INBO\u03a7',
               '\uff29NBOX']
EDGE_WS_NAMES = ['a ', ' a', 'a \t', 'sp ace ', 'a/b ', 'a /b', 'a\xa0',
                 'w\x1f', 'a\x85',
                 # what str.splitlines() takes for a line boundary
                 'x\x1cy', 'p\u2028q', 'l\x0bm', 'r\x0cs', 'u\u2029',
                 'left\x1eright', 'n\x85/m']
DEGENERATE_NAMES = ['', '/', '//']
# ordinary names for the model (a server may refuse to create them); a
# trailing delimiter is dropped by CREATE (RFC 3501 6.3.3)
ODD_LEVEL_NAMES = ['a//b', '/a', 'a/', '.', '..', 'a/../b', 'a/./b',
                   'a/b/', '../x', 'Work/', 'Work//', '/Work', 'Sent//x',
                   'Work/Sent/', './x', 'x/.', 'x/..']
UNI_NAMES = ['é', 'ü/中', '中文', '\U0001f600', 'a/\U00010348', 'é&é',
             '&AOk-', '\u202ex', 'x\ufeff', 'é/é/é/é',
             # lone surrogates: the high one no file name can hold, the low
             # one (U+DC80-DCFF) os.fsencode() takes
             'x\udc80y', '\udcff', 's\ud800']


def fresh_name(rng: random.Random, backend: str) -> str:
    r = rng.random()
    if r < 0.30:
        d = rng.choice([1, 1, 2, 2, 3, 4])
        name = DELIM.join(rng.choice(WORDS) for _ in range(d))
    elif r < 0.38:
        name = gen.tidy_name(rng, rng.choice([1, 2, 3, 4]))
    elif r < 0.48:
        name = gen.unicode_name(rng, controls=False, max_len=16)
    elif r < 0.56:
        name = gen.unicode_name(rng, controls=True, max_len=16)
    elif r < 0.62:
        name = rng.choice(UNI_NAMES)
    elif r < 0.68:
        name = rng.choice(SPECIAL_NAMES)
    elif r < 0.75:
        name = rng.choice(WILD_NAMES)
    elif r < 0.80:
        name = rng.choice(QUOTE_NAMES)
    elif r < 0.87:
        name = rng.choice(NEWLINE_NAMES)
    elif r < 0.94:
        name = rng.choice(INBOX_NAMES)
    elif r < 0.965:
        name = rng.choice(EDGE_WS_NAMES)
    elif r < 0.975:
        name = rng.choice(['L' * 200, 'M' * 241, 'x/' + 'N' * 120 + '/y',
                           'é' * 121, 'x\x00y', '\x00'])
    elif r < 0.995:
        return rng.choice(ODD_LEVEL_NAMES)
    else:
        return rng.choice(DEGENERATE_NAMES)
    if not degenerate(name):
        return name
    # accidental degenerate names from the random generators are repaired;
    # deliberate ones come from DEGENERATE_NAMES only
    return 'p' + name.replace(DELIM, '_')


# -- the reference model ------------------------------------------------------

class Names:
    """Reference model of the namespace (see the module docstring for the
    latitude it grants).

    ``real``: name -> expectation about its content, one of ``FRESH`` (must
    be empty at the next dump), ``('exact', dump)``, ``('vfids', ids)`` (same
    messages, UIDs free -- target of RENAME INBOX), ``('appended', dump,
    id)``.  ``subs``: subscribed names.  ``noselect``: implied names the last
    full LIST flagged ``\\Noselect``."""

    def __init__(self) -> None:
        self.real: dict[str, Any] = {}
        self.subs: set[str] = set()
        self.noselect: set[str] = set()
        # per-step resolution state
        self.pending_parents: set[str] = set()
        self.inbox_choices: list[tuple[str, str]] = []
        self.sub_follow: dict[str, str] = {}
        self.moved: dict[str, str] = {}       # new -> old (this step)
        self.adopted: set[str] = set()

    def begin_step(self) -> None:
        self.pending_parents = set()
        self.inbox_choices = []
        self.sub_follow = {}
        self.moved = {}
        self.adopted = set()

    def implied(self) -> set[str]:
        out: set[str] = set()
        for n in self.real:
            for a in ancestors(n):
                a = norm(a)
                if a not in self.real:
                    out.add(a)
        return out

    def inferiors(self, name: str) -> list[str]:
        pre = name + DELIM
        return [m for m in self.real if m.startswith(pre)]

    def status(self, name: str) -> str:
        n = norm(name)
        if n in self.real:
            return 'real'
        if n in self.implied():
            return 'implied'
        return 'missing'

    def expect_list(self, ref: str, pat: str, subscribed: bool) \
            -> tuple[set[str], set[str]]:
        """(must, may) name sets for a LIST/LSUB with a non-empty pattern.
        A reference that spells INBOX may be read as written or as ``INBOX``
        (latitude 5): a name must be returned only if both readings match."""
        refs = {ref, norm(ref)}
        res = [self._expect(r + pat, subscribed) for r in sorted(refs)]
        must = set.intersection(*[x[0] for x in res])
        may = set.union(*[x[1] for x in res])
        return must, may

    def _expect(self, full: str, subscribed: bool) \
            -> tuple[set[str], set[str]]:
        implied = self.implied()
        wild = '*' in full or '%' in full
        must: set[str] = set()
        may: set[str] = set()
        if subscribed:
            for n in self.subs:
                if glob_match(full, n):
                    # subscribed is subscribed, whether or not a mailbox by
                    # that name exists (RFC 3501 6.3.6: the server MUST NOT
                    # unilaterally remove an existing mailbox name from the
                    # subscription list even if a mailbox by that name no
                    # longer exists)
                    must.add(n)
                elif first_is_inbox(n) and glob_match(full, n, 5):
                    may.add(n)
                for a in ancestors(n):
                    a = norm(a)
                    if a not in self.subs and (
                            glob_match(full, a) or (
                                first_is_inbox(a) and glob_match(full, a, 5))):
                        may.add(a)
            if not wild and ascii_upper(full) == 'INBOX' \
                    and 'INBOX' in self.subs:
                must.add('INBOX')
            return must, must | may
        for n in self.real:
            if glob_match(full, n):
                must.add(n)
            elif first_is_inbox(n) and glob_match(full, n, 5):
                may.add(n)
        for n in implied:
            if glob_match(full, n):
                (must if full.endswith('%') else may).add(n)
            elif first_is_inbox(n) and glob_match(full, n, 5):
                may.add(n)
        if not wild and ascii_upper(full) == 'INBOX':
            must.add('INBOX')
        return must, must | may


def avoid_switch(mech: str) -> str | None:
    """Generator switch that keeps a *listed* mechanism from ending every
    trace (DESIGN section 5): the input class that triggers it."""
    if ':newline-in-name' in mech:
        return 'newline'
    if ':trailing-whitespace' in mech:
        return 'trailing-ws'
    if mech == 'lsub-reports-never-subscribed:inbox':
        return 'unsub-inbox'
    if ':inbox-variant' in mech:
        return 'inbox-variant'
    if mech.endswith(':inbox-inferior'):
        return 'inbox-inferior'
    if 'target-below-source' in mech:
        return 'rename-below'
    return None


class Died(Exception):
    pass


class Stop(Exception):
    """End of trace (violation found or degenerate name accepted)."""


class Ctx:
    def __init__(self, backend: str) -> None:
        self.backend = backend
        self.violations: list[dict[str, Any]] = []
        self.counters: dict[str, int] = {}
        self.ops: list[list[Any]] = []
        self.kinds: list[str] = []
        self.conn: Conn | None = None

    def count(self, k: str, n: int = 1) -> None:
        self.counters[k] = self.counters.get(k, 0) + n

    def report(self, mech: str, detail: str, **w: Any) -> None:
        if len(self.violations) < 6 and mech not in {
                v['mech'] for v in self.violations}:
            w['ops'] = [list(o) for o in self.ops]
            w['backend'] = self.backend
            if self.conn is not None:
                w['transcript'] = self.conn.dump()[-60:]
            self.violations.append({'mech': mech, 'detail': detail,
                                    'witness': w})


class Runner:
    def __init__(self, ctx: Ctx, c: Conn, spec: dict[str, Any]) -> None:
        self.ctx = ctx
        self.c = c
        self.m = Names()
        self.rng = random.Random(spec['seed'])
        self.backend = spec['backend']
        self.seed = spec['seed']
        self.nappend = 0
        self.rng2 = random.Random(spec['seed'] ^ 0x5eed)
        #: a second connection of the same user through which a quarter of
        #: the mutating commands go (the program is still one sequence)
        self.c2: Conn | None = None
        self.force_c2 = False
        self.scripted = bool(spec.get('script'))
        self.rng_conn = random.Random(spec['seed'] ^ 0xc0de)
        self.full_dumps = bool(spec.get('script')) or spec.get('full', False)
        self.avoid = set(spec.get('avoid') or ())
        self.used: list[str] = []     # names the program has used so far

    # -- wire -----------------------------------------------------------------

    async def cmd(self, rest: bytes, judged: str | None = None) -> Any:
        """``judged`` = the command is a namespace command under test (not an
        observation): no tagged answer is then outside every allowed set."""
        conn = self.c
        if self.c2 is not None and judged is not None and not self.c2.dead \
                and rest.split(b' ')[0] in (b'CREATE', b'DELETE', b'RENAME',
                                            b'SUBSCRIBE', b'UNSUBSCRIBE') \
                and (self.force_c2 or (not self.scripted and
                                       self.rng_conn.random() < 0.3)):
            conn = self.c2
            self.ctx.count('commands_via_second_connection')
        r = await conn.simple(rest)
        self.ctx.count('commands')
        if r.tagged is None:
            verb = rest.split(b' ')[0].decode('latin-1')
            if judged is not None:
                bye = [u.raw for u in r.untagged if u.cond == b'BYE']
                self.ctx.report(
                    'command-kills-connection:%s%s' % (verb, judged),
                    '%s got no tagged answer, connection closed (%r)'
                    % (rest[:120], bye[:1]))
                raise Stop()
            raise Died(verb)
        return r

    async def deselect(self) -> None:
        r = await self.cmd(b'EXAMINE ' + DESELECT)
        if r.ok:
            self.ctx.report('list-reports-nonexistent-name',
                            'EXAMINE of a never created name succeeded')
            raise Stop()

    async def listing(self, verb: bytes, ref: str, pat: str,
                      rng: random.Random | None) \
            -> list[tuple[str | None, list[bytes], bytes]] | None:
        """[(decoded name | None, attrs, wire name)] or None if refused."""
        line = verb + b' ' + wire_name(ref) + b' ' + \
            wire_pattern(pat, rng)
        r = await self.cmd(line, '')
        if not r.ok:
            return None
        out = []
        for u in r.untagged:
            if u.typ != verb:
                continue
            if not isinstance(u.data, dict) or u.data.get('name') is None:
                raise Died('unparseable-%s-response' % verb.decode())
            if u.data.get('delim') != b'/' and pat != '':
                self.ctx.report('list-wrong-delimiter', '%r' % (u.raw,))
            wire = u.data['name']
            out.append((gen.modutf7_decode(wire), list(u.data['attrs']),
                        wire))
        return out

    # -- observation of content -----------------------------------------------

    async def observe(self, name: str) -> Any:
        """Dump (messages, uidnext, uidvalidity, ((uid, vfid), ...)) or
        ('refused', CMD, cond)."""
        w = wire_name(name)
        r = await self.cmd(b'STATUS ' + w + b' (MESSAGES UIDNEXT UIDVALIDITY)')
        if not r.ok:
            return ('refused', 'STATUS', r.cond)
        att: dict[bytes, Any] = {}
        for u in r.untagged:
            if u.typ == b'STATUS' and isinstance(u.data, dict):
                att = u.data.get('att') or {}
                back = u.data.get('name')
                dec = gen.modutf7_decode(back) if back is not None else None
                if dec is None or norm(dec) != norm(name):
                    self.ctx.report(
                        'name-roundtrip-changed' + shape_suffix(name),
                        'STATUS of %r answered for %r' % (name, back))
        r = await self.cmd(b'EXAMINE ' + w)
        if not r.ok:
            return ('refused', 'EXAMINE', r.cond)
        exists = uidnext = uidval = None
        for u in r.untagged:
            if u.typ == b'EXISTS':
                exists = u.num
            elif u.cond == b'OK' and u.code == b'UIDNEXT':
                uidnext = u.data
            elif u.cond == b'OK' and u.code == b'UIDVALIDITY':
                uidval = u.data
        r = await self.cmd(b'UID FETCH 1:* (UID BODY.PEEK[HEADER.FIELDS '
                           b'(X-VF-ID)])')
        msgs = []
        if r.ok:
            for u in r.untagged:
                if u.typ == b'FETCH' and isinstance(u.data, dict):
                    body = b''
                    for k, v in u.data.items():
                        if k.startswith(b'BODY['):
                            body = v or b''
                    vfid = body.split(b':', 1)[1].strip().decode('latin-1') \
                        if b':' in body else ''
                    msgs.append((u.data.get(b'UID'), vfid))
        self.ctx.count('dumps')
        if (att.get(b'MESSAGES'), att.get(b'UIDNEXT'),
                att.get(b'UIDVALIDITY')) != (exists, uidnext, uidval) \
                or exists != len(msgs):
            self.ctx.report('uidvalidity-unstable' if (
                att.get(b'MESSAGES'), att.get(b'UIDNEXT')) == (
                    exists, uidnext) and exists == len(msgs)
                else 'status-examine-disagree',
                            '%r: STATUS %r, EXAMINE exists=%r uidnext=%r '
                            'uidvalidity=%r, fetched %d' % (
                                name, att, exists, uidnext, uidval,
                                len(msgs)))
        return (exists, uidnext, uidval, tuple(sorted(
            msgs, key=lambda t: (t[0] or 0))))

    async def dump_all(self, kind: str, outcome: str,
                       target: str | None) -> None:
        m = self.m
        names = sorted(m.real)
        if not (self.full_dumps or outcome != 'OK'
                or kind in ('RENAME', 'DELETE')):
            # a plain OK step: everything whose content is expected to have
            # changed, the target, and a sample of two other mailboxes
            keep = {n for n in names if m.real[n][0] != 'exact'}
            keep.add(norm(target or ''))
            rest = [n for n in names if n not in keep]
            keep.update(self.rng2.sample(rest, min(2, len(rest))))
            names = [n for n in names if n in keep]
            self.ctx.count('partial_dump_steps')
        else:
            self.ctx.count('full_dump_steps')
        for n in names:
            exp = m.real[n]
            obs = await self.observe(n)
            if obs and obs[0] == 'refused':
                if n in m.adopted:
                    self.ctx.report(
                        'list-selectable-name-not-selectable',
                        '%r is listed without \\Noselect but %s answers %r'
                        % (n, obs[1], obs[2]), name=n)
                else:
                    self.ctx.report(
                        'existing-name-refused:%s' % obs[1] + shape_suffix(n),
                        '%s of existing mailbox %r answered %r after %s'
                        % (obs[1], n, obs[2], kind), name=n)
                continue
            self._compare_dump(n, exp, obs, kind, outcome, target)
            m.real[n] = ('exact', obs)
        await self.deselect()

    def _compare_dump(self, n: str, exp: Any, obs: Any, kind: str,
                      outcome: str, target: str | None) -> None:
        m = self.m
        ctx = self.ctx
        if exp is FRESH or exp == FRESH:
            if obs[0] != 0 or obs[3]:
                if kind == 'RENAME' and n == 'INBOX':
                    ctx.report('rename-inbox-not-empty',
                               'INBOX holds %r after RENAME INBOX' % (obs,))
                else:
                    ctx.report('create-yields-nonempty-mailbox',
                               'new mailbox %r holds %r' % (n, obs), name=n)
            return
        if exp[0] == 'vfids':
            ctx.count('renames_content_checked')
            if sorted(v for _, v in obs[3]) != sorted(exp[1]):
                ctx.report('rename-inbox-lost-messages',
                           '%r holds %r, INBOX held %r' % (n, obs[3], exp[1]))
            return
        if exp[0] == 'appended':
            old, vfid = exp[1], exp[2]
            ok = (obs[0] == old[0] + 1 and obs[2] == old[2]
                  and obs[3][:-1] == old[3] and len(obs[3]) == len(old[3]) + 1
                  and obs[3][-1][1] == vfid
                  and all((obs[3][-1][0] or 0) > (u or 0) for u, _ in old[3]))
            if not ok:
                ctx.report('append-result-wrong',
                           '%r: before %r, appended %s, after %r'
                           % (n, old, vfid, obs), name=n)
            return
        want = exp[1]
        if n in m.moved:
            ctx.count('renames_content_checked')
        if obs == want:
            return
        if outcome != 'OK':
            ctx.report('no-but-state-changed:%s:content' % kind,
                       '%s answered %s but %r changed: %r -> %r'
                       % (kind, outcome, n, want, obs), name=n)
        elif n in m.moved:
            if sorted(v for _, v in obs[3]) != sorted(v for _, v in want[3]):
                ctx.report('rename-lost-messages',
                           '%r (was %r): %r -> %r' % (n, m.moved[n], want,
                                                      obs), name=n)
            else:
                ctx.report('rename-changed-uids',
                           '%r (was %r): %r -> %r' % (n, m.moved[n], want,
                                                      obs), name=n)
        else:
            ctx.report('unrelated-mailbox-changed:%s' % kind,
                       '%s %r: %r changed %r -> %r' % (kind, target, n, want,
                                                       obs), name=n)

    # -- full LIST / LSUB -----------------------------------------------------

    def fold(self, ent: list[tuple[str | None, list[bytes], bytes]],
             what: str) -> tuple[dict[str, list[bytes]], list[bytes]]:
        """Listed names (INBOX spellings folded, latitude 5) -> attributes,
        and the spellings that are not modified UTF-7.  A ``\\Noselect`` on
        any spelling of INBOX is reported here: INBOX always exists."""
        listed: dict[str, list[bytes]] = {}
        bad: list[bytes] = []
        m = self.m
        for dec, attrs, wire in ent:
            if dec is None:
                bad.append(wire)
                continue
            n = norm(dec)
            if n == 'INBOX':
                if dec != 'INBOX':
                    self.ctx.count('lat_inbox_variant_listed')
                if b'\\Noselect' in attrs:
                    variant = any(
                        first_is_inbox(x) and DELIM in x
                        and not x.startswith('INBOX/')
                        for x in set(m.real) | m.implied() | m.subs)
                    self.ctx.report(
                        'list-noselect-on-existing' + (
                            ':inbox-variant-parent' if variant else ''),
                        '%s lists %r (= INBOX, which exists) as \\Noselect'
                        % (what, dec), name=dec)
                if 'INBOX' in listed:
                    # the server spells a folder 'inbox' as INBOX too: keep
                    # the selectable line, do not judge the children flags
                    self.ctx.count('lat_inbox_variant_listed')
                    keep = listed['INBOX'] if b'\\Noselect' in attrs \
                        else attrs
                    listed['INBOX'] = [x for x in keep if x not in (
                        b'\\HasChildren', b'\\HasNoChildren')]
                    continue
            listed[n] = attrs
        return listed, bad


    async def check_full(self, kind: str, outcome: str) -> None:
        m = self.m
        ctx = self.ctx
        ent = await self.listing(b'LIST', '', '*', None)
        ctx.count('list_full_comparisons')
        if ent is None:
            ctx.report('list-refused', 'LIST "" * refused')
            raise Stop()
        listed, bad = self.fold(ent, 'LIST "" *')
        selectable = {n for n, attrs in listed.items()
                      if b'\\Noselect' not in attrs}
        extra: list[tuple[str | None, bytes]] = [(None, w) for w in bad]
        # RENAME INBOX: did the inferiors stay or move? (latitude 4)
        for stay, moved in m.inbox_choices:
            s_in, m_in = stay in selectable, norm(moved) in selectable
            if s_in and not m_in:
                ctx.count('lat_inbox_inferior_stayed')
            elif m_in and not s_in:
                # RFC 3501 6.3.5: inferior names of INBOX "are unaffected by
                # a rename of INBOX" (this was a latitude until the last day)
                ctx.report('rename-inbox-moved-inferior',
                           'RENAME INBOX moved its inferior %r to %r'
                           % (stay, moved), name=stay)
                raise Stop()
            elif not s_in and shape_suffix(moved) and not shape_suffix(stay):
                # reported below as a name LIST omits
                m.real[norm(moved)] = m.real.pop(stay)
                m.moved[norm(moved)] = stay
            elif not s_in:
                ctx.report('rename-lost-inferior',
                           'after RENAME INBOX neither %r nor %r is listed'
                           % (stay, moved), name=stay)
            # both listed: the surplus one is reported below
        implied = m.implied()
        m.noselect = set()
        for n, attrs in listed.items():
            nosel = b'\\Noselect' in attrs
            if n in m.real:
                if nosel:
                    ctx.report('list-noselect-on-existing' + shape_suffix(n),
                               '%r exists but is listed \\Noselect after %s'
                               % (n, kind), name=n)
            elif n in implied:
                if nosel:
                    ctx.count('lat_parent_noselect')
                    m.noselect.add(n)
                elif n in m.pending_parents:
                    ctx.count('lat_parent_real')
                    m.real[n] = FRESH
                    m.adopted.add(n)
                elif outcome != 'OK':
                    ctx.report('no-but-state-changed:%s:parent-created' % kind,
                               '%s answered %s but the hierarchy parent %r is '
                               'now listed as a selectable mailbox'
                               % (kind, outcome, n), name=n)
                else:
                    ctx.report('list-reports-nonexistent-name',
                               '%r is listed as selectable after %s %s but '
                               'the model has it only as a hierarchy parent'
                               % (n, kind, outcome), name=n)
            else:
                extra.append((n, b''))
        missing = [n for n in m.real if n not in listed]
        for n in m.implied():
            if n not in listed:
                ctx.count('lat_parent_unlisted')
        if outcome != 'OK' and (missing or extra):
            ctx.report('no-but-state-changed:%s:list' % kind,
                       '%s answered %s but LIST "" * changed: missing %r, '
                       'new %r' % (kind, outcome, missing, extra))
        elif missing and extra and len(missing) == 1 and len(extra) == 1 \
                and kind in ('CREATE', 'RENAME') \
                and extra[0][0] not in self._rename_sources \
                and missing[0] == norm(self._last_target or ''):
            ctx.report('name-roundtrip-changed' + shape_suffix(missing[0]),
                       'created %r, listed as %r' % (missing[0], extra[0]),
                       name=missing[0])
        else:
            for n in missing:
                if kind == 'RENAME' and n in m.moved and n != norm(
                        self._last_target or '') and not shape_suffix(n):
                    ctx.report('rename-lost-inferior',
                               'RENAME moved %r to %r but it is not listed'
                               % (m.moved[n], n), name=n)
                else:
                    ctx.report('list-missing-existing-name'
                               + klass_suffix('star', n),
                               '%r exists but LIST "" * omits it (after %s)'
                               % (n, kind), name=n)
            for n2, wire in extra:
                if n2 is None:
                    ctx.report('name-roundtrip-changed',
                               'listed spelling %r is not modified UTF-7'
                               % (wire,))
                elif kind == 'RENAME' and outcome == 'OK' and \
                        n2 in self._rename_sources:
                    ctx.report('rename-left-source-behind',
                               '%r still listed after RENAME' % (n2,),
                               name=n2)
                else:
                    ctx.report('list-reports-nonexistent-name' + (
                        ':rename-target-below-source'
                        if kind == 'RENAME' and self._below else ''),
                               '%r is listed after %s %s but does not exist '
                               'in the model' % (n2, kind, outcome), name=n2)
        if not ctx.violations:
            self._children(listed, 'LIST')
        # LSUB
        ent = await self.listing(b'LSUB', '', '*', None)
        ctx.count('lsub_full_comparisons')
        if ent is None:
            ctx.report('list-refused', 'LSUB "" * refused')
            raise Stop()
        seen: set[str] = set()
        for dec, attrs, wire in ent:
            if dec is None:
                ctx.report('name-roundtrip-changed',
                           'LSUB spelling %r is not modified UTF-7' % (wire,))
                continue
            n = norm(dec)
            if n == 'INBOX' and dec != 'INBOX':
                ctx.count('lat_inbox_variant_listed')
                continue
            if n in m.subs:
                seen.add(n)
                if n not in m.real:
                    ctx.count('lat_lsub_keeps_missing')
                continue
            if n in m.sub_follow and m.sub_follow[n] in m.subs \
                    and b'\\Noselect' not in attrs:
                ctx.count('lat_sub_follows_rename')
                m.subs.discard(m.sub_follow[n])
                m.subs.add(n)
                seen.add(n)
                continue
            if b'\\Noselect' in attrs and any(
                    s.startswith(n + DELIM) or (
                        n == 'INBOX' and first_is_inbox(s) and DELIM in s)
                    for s in m.subs):
                ctx.count('lat_lsub_parent')
                continue
            if outcome != 'OK':
                ctx.report('no-but-state-changed:%s:lsub' % kind,
                           '%s answered %s but LSUB "" * now has %r'
                           % (kind, outcome, n), name=n)
            else:
                ctx.report('lsub-reports-never-subscribed'
                           + self.alias_suffix(n),
                           '%r is in LSUB "" * after %s but is not '
                           'subscribed' % (n, kind), name=n)
        for n in m.subs:
            if n in seen:
                continue
            if n in m.real:
                if outcome != 'OK':
                    ctx.report('no-but-state-changed:%s:lsub' % kind,
                               '%s answered %s but LSUB "" * lost %r'
                               % (kind, outcome, n), name=n)
                else:
                    ctx.report('lsub-missing-subscribed-name'
                               + shape_suffix(n, True),
                               '%r exists and is subscribed but LSUB "" * '
                               'omits it (after %s)' % (n, kind), name=n)
            elif outcome != 'OK':
                ctx.report('no-but-state-changed:%s:lsub' % kind,
                           '%s answered %s but LSUB "" * lost %r'
                           % (kind, outcome, n), name=n)
            else:
                # (a latitude, lat_lsub_drops_missing, until the last day:
                # the statement says LSUB returns exactly the subscribed
                # names)
                ctx.report('lsub-missing-subscribed-name:mailbox-missing'
                           + shape_suffix(n, True),
                           '%r is subscribed (no mailbox of that name '
                           'exists at the moment) but LSUB "" * omits it '
                           '(after %s)' % (n, kind), name=n)

    def alias_suffix(self, n: str) -> str:
        """Structural refinement for a name LSUB reports although it is not
        subscribed: it is INBOX, or it is what a line-oriented store makes of
        a subscribed name (a line of it / the name minus trailing blanks)."""
        if n == 'INBOX':
            return ':inbox'
        for s in self.m.subs:
            if s != n and ('\n' in s or '\r' in s) and n in [
                    x.rstrip() for x in s.replace('\r', '\n').split('\n')]:
                return ':newline-in-name'
        for s in self.m.subs:
            if s != n and s.rstrip() == n:
                return ':trailing-whitespace'
        return shape_suffix(n, True)

    def _children(self, listed: dict[str, list[bytes]], verb: str) -> None:
        m = self.m
        allnames = set(m.real) | m.implied()
        for n, attrs in listed.items():
            pre = n + DELIM
            if b'\\HasChildren' in attrs:
                self.ctx.count('children_attrs_checked')
                if not any(x.startswith(pre) for x in allnames) and not (
                        n == 'INBOX' and any(
                            first_is_inbox(x) and DELIM in x
                            for x in allnames)):
                    self.ctx.report('list-haschildren-untruthful',
                                    '%s: %r flagged \\HasChildren, no '
                                    'inferior exists' % (verb, n), name=n)
            if b'\\HasNoChildren' in attrs:
                self.ctx.count('children_attrs_checked')
                if any(x.startswith(pre) for x in m.real):
                    self.ctx.report('list-hasnochildren-untruthful',
                                    '%s: %r flagged \\HasNoChildren but %r '
                                    'exists' % (verb, n, [
                                        x for x in m.real
                                        if x.startswith(pre)][:3]), name=n)

    # -- probes ---------------------------------------------------------------

    def gen_probe(self) -> tuple[str, str, str]:
        rng = self.rng
        m = self.m
        verb = 'LSUB' if rng.random() < 0.2 else 'LIST'
        names = sorted(set(m.real) | m.implied() | set(self.used[-6:]))
        r = rng.random()
        if r < 0.35 or not names:
            ref, pat = rng.choice([
                ('', ''), ('', '*'), ('', '%'), ('', '%/%'), ('', 'a/*'),
                ('', '*/b'), ('', 'a%'), ('', 'INBOX'), ('', 'inbox'),
                ('', 'INBOX/*'), ('a/', '%'), ('a/', '*'), ('a', '*'),
                ('a', '/%'), ('', '*%'), ('', '%*'), ('', '**'), ('', '%%'),
                ('', '*/%'), ('', '%/*'), ('', 'in%'), ('', 'IN*X'),
                ('', '%box'), ('', 'Inbox/%'), ('inbox', '/*'),
                ('INBOX/', '%'), ('', '%/%/%'), ('', '*/*'), ('', 'a*b'),
                ('', 'a%b'), ('', '*b'), ('', '%b'), ('a/', ''), ('', 'I*'),
                ('', '*X'), ('inbox', ''), ('', '%/b%'), ('', 'a/%/%'),
                ('*', ''), ('%', '/%'), ('a/b', '%'), ('', 'ab'),
                ('', 'a'), ('', 'a/b'), ('', 'A'), ('', 'work*'),
                ('', 'W%'), ('', '*\n*'), ('', '%\n%'), ('', '*"*'),
                ('', '*\\*'), ('', 'é*'), ('', '*中*')])
            return verb, ref, pat
        n = rng.choice(names)
        k = rng.randrange(len(n) + 1)
        r = rng.random()
        if r < 0.12:
            return verb, '', n                       # literal, incl. specials
        if r < 0.24:
            return verb, '', n[:k] + rng.choice('*%')
        if r < 0.34:
            return verb, '', rng.choice('*%') + n[k:]
        if r < 0.44 and n:
            k = rng.randrange(len(n))
            return verb, '', n[:k] + rng.choice('*%') + n[k + 1:]
        if r < 0.52:
            return verb, '', n + rng.choice(['*', '%', '/%', '/*', '%/%'])
        if r < 0.60 and n:
            k = rng.randrange(len(n))
            rep = rng.choice(['.', '?', '+', '_', 'X'])
            return verb, '', n[:k] + rep + n[k + 1:]  # must not match (≠)
        if r < 0.72:
            return verb, n[:k], n[k:]                # split into ref + literal
        if r < 0.84:
            return verb, n[:k], rng.choice(['*', '%', '%/%', '*/%'])
        if r < 0.92 and DELIM in n:
            par, leaf = n.rsplit(DELIM, 1)
            return verb, par + DELIM, rng.choice(['%', '*', leaf, leaf[:1]
                                                  + '%'])
        if r < 0.96:
            return verb, '', n.swapcase()
        return verb, '', n.upper() + rng.choice(['', '*', '/%'])

    async def probe(self, verb: str, ref: str, pat: str,
                    rng: random.Random | None) -> None:
        ctx = self.ctx
        m = self.m
        sub = verb == 'LSUB'
        ent = await self.listing(verb.encode(), ref, pat, rng)
        klass = pattern_class(ref, pat)
        ctx.count('pattern_%s_%s' % (verb.lower(), klass))
        ctx.count('pattern_comparisons')
        if ent is None:
            ctx.report('list-refused', '%s %r %r refused' % (verb, ref, pat))
            return
        if pat == '':
            ok = (len(ent) == 1 and ent[0][0] is not None
                  and (ent[0][0] == '' or ref.startswith(ent[0][0]))
                  and b'\\Noselect' in ent[0][1])
            if not ok:
                ctx.report('list-root-response-wrong',
                           '%s %r "" answered %r' % (verb, ref, ent))
            return
        must, may = m.expect_list(ref, pat, sub)
        if sub:
            listed: dict[str, list[bytes]] = {}
            bad = []
            for dec, attrs, wire in ent:
                if dec is None:
                    bad.append(wire)
                else:
                    listed[norm(dec)] = attrs
        else:
            listed, bad = self.fold(ent, '%s %r %r' % (verb, ref, pat))
        for wire in bad:
            ctx.report('name-roundtrip-changed',
                       'listed spelling %r is not modified UTF-7' % (wire,))
        got = set(listed)
        prefix = 'lsub' if sub else 'list'
        known = set(m.real) | m.implied() | (m.subs if sub else set())
        for n in sorted(must - got):
            ctx.report('%s-missing-%s-name%s' % (
                prefix, 'subscribed' if sub else 'existing',
                klass_suffix(klass, n, sub)),
                '%s %r %r omits %r (got %r)' % (verb, ref, pat, n,
                                                sorted(got)),
                name=n, ref=ref, pattern=pat)
        for n in sorted(got - may):
            if n in known:
                ctx.report('%s-pattern-mismatch%s' % (
                    prefix, klass_suffix(klass, n)),
                    '%s %r %r returns %r which does not match'
                    % (verb, ref, pat, n), name=n, ref=ref, pattern=pat)
            else:
                ctx.report('%s-reports-%s' % (
                    prefix, 'never-subscribed' + self.alias_suffix(n) if sub
                    else 'nonexistent-name'),
                    '%s %r %r returns %r' % (verb, ref, pat, n),
                    name=n, ref=ref, pattern=pat)
        if (got & may) - must:
            used_ci = [n for n in (got & may) - must if first_is_inbox(n)
                       and not glob_match(ref + pat, n)]
            if used_ci:
                ctx.count('lat_inbox_case_pattern')
        if not sub:
            for n, attrs in listed.items():
                if n in m.real and b'\\Noselect' in attrs:
                    ctx.report('list-noselect-on-existing' + shape_suffix(n),
                               '%s %r %r flags existing %r \\Noselect'
                               % (verb, ref, pat, n), name=n)
            self._children(listed, verb)

    # -- program steps --------------------------------------------------------

    _last_target: str | None = None
    _below = False
    _rename_sources: set[str] = set()

    def pick_existing(self, include_inbox: bool = True) -> str | None:
        names = [n for n in self.m.real if include_inbox or n != 'INBOX']
        if not names:
            return None
        return self.rng.choice(sorted(names))

    def pick_missing(self) -> str:
        rng = self.rng
        m = self.m
        for _ in range(8):
            r = rng.random()
            e = self.pick_existing(False)
            if r < 0.3 and e:
                cand = e.swapcase()
            elif r < 0.45 and e:
                cand = e + rng.choice(['x', ' ', '/', 'X', '\n'])
            elif r < 0.6 and e and len(e) > 1:
                cand = e[:-1]
            elif r < 0.8 and self.used:
                cand = rng.choice(self.used)
            else:
                cand = fresh_name(rng, self.backend)
            if m.status(cand) == 'missing' and (
                    not degenerate(cand) or rng.random() < 0.1):
                return cand
        return 'missing-%d' % rng.randrange(1000)

    def pick_new(self) -> str:
        rng = self.rng
        m = self.m
        for _ in range(8):
            r = rng.random()
            e = self.pick_existing()
            if r < 0.25 and e:
                cand = e + DELIM + rng.choice(WORDS + ['INBOX', 'x\ny', '%',
                                                       'é'])
            elif r < 0.33 and e and e != 'INBOX':
                cand = e + rng.choice(['b', 'c', 'x', '1'])     # a -> ab
            elif r < 0.40 and e and DELIM in e:
                cand = e.rsplit(DELIM, 1)[0]                    # its parent
            elif r < 0.45 and e and e != 'INBOX':
                cand = e.swapcase()
            else:
                cand = fresh_name(rng, self.backend)
            if m.status(cand) != 'real':
                return cand
        return 'new-%d' % rng.randrange(1000)

    def gen_op(self, i: int) -> list[Any]:
        """The next program step; input classes of *listed* findings are
        switched off (``avoid``) so that the rest of the property is explored
        in depth -- each listed finding is still exercised by its trigger."""
        op = self._gen_op(i)
        av = self.avoid
        if not av:
            return op
        names = [self.sanitize(x) for x in op[1:]]
        if op[0] == 'UNSUBSCRIBE' and 'unsub-inbox' in av \
                and norm(names[0]) == 'INBOX':
            names[0] = 'INBOX-never'
        if op[0] == 'RENAME' and 'rename-below' in av \
                and names[1].startswith(names[0] + DELIM):
            names[1] = names[0] + 'r'
        return [op[0]] + names

    def sanitize(self, name: str) -> str:
        av = self.avoid
        if 'newline' in av:
            name = name.replace('\n', '_').replace('\r', '_')
        if 'trailing-ws' in av and name != name.rstrip():
            name = name.rstrip() + '_'
        if first_is_inbox(name) and DELIM in name:
            head, tail = name.split(DELIM, 1)
            if 'inbox-inferior' in av:
                name = 'I' + head + DELIM + tail
            elif 'inbox-variant' in av and head != 'INBOX':
                name = 'INBOX' + DELIM + tail
        return name

    def _gen_op(self, i: int) -> list[Any]:
        rng = self.rng
        m = self.m
        nreal = len(m.real)
        r = rng.random()
        if i < 2 or (nreal < 3 and r < 0.5):
            kind = 'CREATE'
        else:
            kind = rng.choices(
                ['CREATE', 'DELETE', 'RENAME', 'SUBSCRIBE', 'UNSUBSCRIBE',
                 'STATUS', 'SELECT', 'APPEND'],
                [24, 13, 20, 9, 6, 6, 6, 16])[0]

        def target(p_real: float, p_implied: float) -> str:
            r2 = rng.random()
            imp = sorted(m.implied())
            if r2 < p_real:
                e = self.pick_existing()
                if e:
                    if e == 'INBOX' and rng.random() < 0.5:
                        return rng.choice(['inbox', 'Inbox', 'iNBOX'])
                    return e
            if r2 < p_real + p_implied and imp:
                return rng.choice(imp)
            return self.pick_missing()

        if kind == 'CREATE':
            r2 = rng.random()
            if r2 < 0.15 and nreal > 1:
                e = self.pick_existing()
                return ['CREATE', e if e != 'INBOX' or rng.random() < 0.5
                        else rng.choice(['inbox', 'Inbox'])]
            if r2 < 0.22 and m.implied():
                return ['CREATE', rng.choice(sorted(m.implied()))]
            # a name that is subscribed but does not exist (any more): the
            # subscription must still be there when it exists again
            ghosts = sorted(n for n in m.subs if n not in m.real)
            if r2 < 0.40 and ghosts:
                return ['CREATE', rng.choice(ghosts)]
            return ['CREATE', self.pick_new()]
        if kind == 'DELETE':
            return ['DELETE', target(0.72, 0.12)]
        if kind == 'RENAME':
            src = target(0.75, 0.08)
            r2 = rng.random()
            if r2 < 0.17 and nreal > 1:
                dst = self.pick_existing() or 'INBOX'
                if dst == 'INBOX' and rng.random() < 0.5:
                    dst = rng.choice(['inbox', 'Inbox'])
            elif r2 < 0.24 and m.implied():
                dst = rng.choice(sorted(m.implied()))
            elif r2 < 0.29 and not degenerate(src):
                dst = src + DELIM + rng.choice(WORDS)     # under itself
            elif r2 < 0.36 and DELIM in src:
                dst = src.rsplit(DELIM, 1)[0] + 'r'        # next to its parent
            elif r2 < 0.46 and any(n not in m.real for n in m.subs):
                dst = rng.choice(sorted(n for n in m.subs
                                        if n not in m.real))
            else:
                dst = self.pick_new()
            return ['RENAME', src, dst]
        if kind == 'SUBSCRIBE':
            return ['SUBSCRIBE', target(0.75, 0.08)]
        if kind == 'UNSUBSCRIBE':
            subs = sorted(m.subs)
            if subs and rng.random() < 0.7:
                return ['UNSUBSCRIBE', rng.choice(subs)]
            return ['UNSUBSCRIBE', target(0.6, 0.1)]
        if kind == 'STATUS':
            return ['STATUS', target(0.5, 0.2)]
        if kind == 'SELECT':
            return [rng.choice(['SELECT', 'EXAMINE']), target(0.5, 0.2)]
        return ['APPEND', target(0.8, 0.08)]

    def refusal_or(self, kind: str, ok: bool, mech: str, detail: str) -> bool:
        """The model demands a refusal; True if it was one."""
        if ok:
            self.ctx.report(mech, detail)
            return False
        self.ctx.count('refusals_required_seen')
        return True

    async def step(self, op: list[Any]) -> None:
        """Execute one program step and judge it; raises Stop to end the
        trace."""
        ctx = self.ctx
        m = self.m
        kind = op[0]
        self.force_c2 = False
        if kind.endswith('@2'):
            # scripted: this command goes through the second connection
            kind = kind[:-2]
            op = [kind] + list(op[1:])
            self.force_c2 = True
        m.begin_step()
        self._last_target = None
        self._below = False
        self._rename_sources = set()
        ctx.ops.append(op)
        if kind in ('LIST', 'LSUB'):
            ctx.kinds.append(kind + ':' + pattern_class(op[1], op[2]))
            await self.probe(kind, op[1], op[2], None)
            if ctx.violations:
                raise Stop()
            return
        name = op[1]
        n = norm(name)
        ctx.kinds.append(kind + ':' + name_class(name) + (
            '>' + name_class(op[2]) if kind == 'RENAME' else ''))
        for x in op[1:]:
            if x not in self.used:
                self.used.append(x)
            if x != 'INBOX' and norm(x) == 'INBOX':
                ctx.count('lat_inbox_case_arg')
        st = m.status(name)
        w = wire_name(name)
        truncated = False
        dcls = ':inbox-inferior' if first_is_inbox(name) and DELIM in name \
            else ':control-file-name' if any(
                p.startswith(('dovecot', 'subscriptions', 'maildirfolder'))
                for p in name.split(DELIM)) else ''
        if kind == 'CREATE':
            r = await self.cmd(b'CREATE ' + w, dcls)
            ok = r.ok
            if create_target(name) != name:
                # the name created is without the trailing delimiter
                ctx.count('create_trailing_delimiter')
                name = create_target(name)
                n = norm(name)
                st = m.status(name)
                if name not in self.used:
                    self.used.append(name)
            self._last_target = name
            if n == 'INBOX':
                self.refusal_or(kind, ok, 'inbox-created-or-deleted',
                                'CREATE %r answered OK' % name)
            elif degenerate(name):
                if ok:
                    truncated = True
            elif st == 'real':
                self.refusal_or(kind, ok, 'create-existing-not-refused',
                                'CREATE of existing %r answered OK' % name)
            elif ok:
                ctx.count('create_ok')
                m.real[n] = FRESH
                m.pending_parents = {norm(a) for a in ancestors(n)} - set(
                    m.real)
            else:
                ctx.count('lat_create_refused')
        elif kind == 'DELETE':
            r = await self.cmd(b'DELETE ' + w, dcls)
            ok = r.ok
            if n == 'INBOX':
                self.refusal_or(kind, ok, 'inbox-created-or-deleted',
                                'DELETE %r answered OK' % name)
            elif st == 'real':
                if m.inferiors(n):
                    if ok:
                        ctx.count('lat_delete_inferiors_noselect')
                        del m.real[n]
                    else:
                        ctx.count('lat_delete_inferiors_refused')
                elif ok:
                    ctx.count('delete_ok')
                    del m.real[n]
                else:
                    ctx.report('existing-name-refused:DELETE'
                               + shape_suffix(n),
                               'DELETE of existing %r (no inferiors) '
                               'answered %r' % (name, r.cond), name=n)
            elif degenerate(name) and ok:
                truncated = True
            else:
                self.refusal_or(
                    kind, ok, 'delete-missing-not-refused' + (
                        ':noselect-parent' if st == 'implied' else ''),
                    'DELETE of %s %r answered OK' % (st, name))
        elif kind == 'RENAME':
            ok = await self._rename(op, st)
            if ok is None:
                truncated = True
                ok = True
        elif kind == 'SUBSCRIBE':
            r = await self.cmd(b'SUBSCRIBE ' + w, dcls)
            ok = r.ok
            if ok:
                m.subs.add(n)
                if st != 'real':
                    ctx.count('lat_subscribe_missing_ok')
                else:
                    ctx.count('subscribe_ok')
            elif st == 'real':
                ctx.count('lat_subscribe_existing_refused')
            else:
                ctx.count('lat_subscribe_missing_no')
        elif kind == 'UNSUBSCRIBE':
            r = await self.cmd(b'UNSUBSCRIBE ' + w, dcls)
            ok = r.ok
            if ok:
                if n in m.subs:
                    ctx.count('unsubscribe_ok')
                m.subs.discard(n)
            elif n in m.subs:
                ctx.report('unsubscribe-subscribed-refused',
                           'UNSUBSCRIBE %r answered %r' % (name, r.cond),
                           name=n)
        elif kind in ('STATUS', 'SELECT', 'EXAMINE', 'APPEND'):
            if kind == 'STATUS':
                r = await self.cmd(b'STATUS ' + w + b' (MESSAGES UIDNEXT)',
                                   dcls)
            elif kind == 'APPEND':
                self.nappend += 1
                vfid = 'c11-%d-%d' % (self.seed, self.nappend)
                r = await self.cmd(b'APPEND ' + w + b' ' + lit(
                    b'X-VF-ID: ' + vfid.encode() +
                    b'\r\nSubject: c11\r\n\r\nbody\r\n'), dcls)
            else:
                r = await self.cmd(kind.encode() + b' ' + w, dcls)
            ok = r.ok
            if kind in ('SELECT', 'EXAMINE'):
                await self.deselect()
            low = {'STATUS': 'status', 'SELECT': 'select',
                   'EXAMINE': 'select', 'APPEND': 'append'}[kind]
            if st == 'real':
                ctx.count('probe_existing')
                if not ok:
                    ctx.report('existing-name-refused:%s' % kind
                               + shape_suffix(n),
                               '%s of existing %r answered %r'
                               % (kind, name, r.cond), name=n)
                elif kind == 'APPEND':
                    ctx.count('append_ok')
                    exp = m.real[n]
                    if exp[0] == 'exact':
                        m.real[n] = ('appended', exp[1], vfid)
            elif st == 'missing':
                ctx.count('probe_missing')
                if degenerate(name) and ok:
                    truncated = True
                else:
                    self.refusal_or(kind, ok, low + '-missing-not-refused',
                                    '%s of missing %r answered OK'
                                    % (kind, name))
            else:
                ctx.count('probe_placeholder')
                if n in m.noselect:
                    self.refusal_or(kind, ok,
                                    low + '-noselect-not-refused',
                                    '%s of %r (listed \\Noselect) answered OK'
                                    % (kind, name))
        else:
            raise ValueError(kind)
        if truncated:
            ctx.count('degenerate_accepted')
            raise Stop()
        outcome = 'OK' if ok else 'NO'
        ctx.count('outcome_%s_%s' % (kind.lower(), outcome.lower()))
        if ctx.violations:
            raise Stop()
        # observe
        try:
            await self.check_full(kind, outcome)
            if ctx.violations:
                raise Stop()
            await self.dump_all(kind, outcome, name)
        except Died as exc:
            if ok:
                raise
            # the command was refused, so nothing has changed - and a
            # mailbox that opened before the refusal opens after it
            ctx.report('no-but-state-changed:%s:observation-kills-connection'
                       % kind, '%s %r answered NO; the observation that '
                       'follows (%s) gets no answer, the connection is closed'
                       % (kind, name, exc))
            raise Stop()
        ctx.count('steps_compared')
        if not ok:
            ctx.count('refusals_unchanged_checked')
        if ctx.violations:
            raise Stop()

    async def _rename(self, op: list[Any], st: str) -> bool | None:
        """Returns ok, or None if a degenerate name was accepted."""
        ctx = self.ctx
        m = self.m
        a, b = op[1], op[2]
        na, nb = norm(a), norm(b)
        self._last_target = b
        self._below = b.startswith(a + DELIM)
        lands = [x for x in m.real if x.startswith(na + DELIM)
                 and norm(b + x[len(na):]) in m.real
                 and not norm(b + x[len(na):]).startswith(na + DELIM)]
        dcls = ':target-below-source' if b.startswith(a + DELIM) else (
            ':inferior-onto-existing' if lands and st != 'missing' else (
                ':inbox-inferior' if any(first_is_inbox(x) and DELIM in x
                                         for x in (a, b)) else ''))
        r = await self.cmd(b'RENAME ' + wire_name(a) + b' '
                           + wire_name(b), dcls)
        ok = r.ok
        stb = m.status(b)
        if nb == 'INBOX':
            self.refusal_or('RENAME', ok, 'inbox-overwritten-by-rename',
                            'RENAME %r %r answered OK' % (a, b))
            return ok
        if degenerate(b) or (degenerate(a) and st == 'missing'):
            if ok:
                return None
            ctx.count('lat_rename_refused')
            return ok
        if st == 'missing':
            self.refusal_or('RENAME', ok, 'rename-missing-not-refused',
                            'RENAME of missing %r to %r answered OK'
                            % (a, b))
            return ok
        if stb == 'real':
            self.refusal_or('RENAME', ok, 'rename-onto-existing-not-refused',
                            'RENAME %r onto existing %r answered OK'
                            % (a, b))
            return ok
        if na == 'INBOX':
            if not ok:
                ctx.count('lat_rename_inbox_refused')
                return ok
            ctx.count('rename_inbox_ok')
            exp = m.real['INBOX']
            ids = [v for _, v in exp[1][3]] if exp[0] == 'exact' else []
            m.real[nb] = ('vfids', ids)
            m.real['INBOX'] = FRESH
            m.moved[nb] = 'INBOX'
            for inf in m.inferiors('INBOX'):
                if inf == nb:
                    continue
                m.inbox_choices.append((inf, b + inf[5:]))
            m.pending_parents = {norm(x) for x in ancestors(nb)} - set(m.real)
            self._rename_sources = set()
            return ok
        # ordinary source (real or placeholder)
        moves = {x: norm(b + x[len(na):]) for x in m.real
                 if x == na or x.startswith(na + DELIM)}
        rest = set(m.real) - set(moves)
        clash = [t for t in moves.values() if t in rest or t == 'INBOX']
        if clash:
            self.refusal_or('RENAME', ok,
                            'rename-onto-existing-not-refused:inferior',
                            'RENAME %r %r answered OK although %r exist(s)'
                            % (a, b, clash))
            return ok
        if not ok:
            ctx.count('lat_rename_placeholder_refused' if st == 'implied'
                      else 'lat_rename_refused')
            return ok
        ctx.count('lat_rename_placeholder_ok' if st == 'implied'
                  else 'rename_ok')
        if len(moves) > 1:
            ctx.count('rename_with_inferiors')
        new_real = {x: m.real[x] for x in rest}
        for old, new in moves.items():
            new_real[new] = m.real[old]
            m.moved[new] = old
            if old in m.subs:
                m.sub_follow[new] = old
        self._rename_sources = set(moves) - set(moves.values())
        m.real = new_real
        pend: set[str] = set()
        for new in moves.values():
            pend |= {norm(x) for x in ancestors(new)}
        m.pending_parents = pend - set(m.real)
        return ok

    # -- whole trace ----------------------------------------------------------

    async def init_model(self) -> None:
        m = self.m
        ent = await self.listing(b'LIST', '', '*', None)
        sub = await self.listing(b'LSUB', '', '*', None)
        if ent is None or sub is None:
            raise Died('initial-list')
        for dec, attrs, wire in ent:
            if dec is not None and b'\\Noselect' not in attrs:
                m.real[norm(dec)] = FRESH
        for dec, attrs, wire in sub:
            if dec is not None and b'\\Noselect' not in attrs:
                m.subs.add(norm(dec))
        if 'INBOX' not in m.real:
            self.ctx.report('list-missing-existing-name:star',
                            'fresh account: INBOX not listed')
            raise Stop()
        for n in sorted(m.real):
            obs = await self.observe(n)
            if obs[0] == 'refused':
                self.ctx.report('existing-name-refused:%s' % obs[1],
                                'fresh account: %r refused' % n)
                raise Stop()
            m.real[n] = ('exact', obs)
        await self.deselect()

    async def run(self, spec: dict[str, Any]) -> None:
        await self.init_model()
        if spec.get('script') == 'ops':
            for op in spec['ops']:
                await self.step(list(op))
            return
        nprobe = spec.get('probes', 3)
        for i in range(spec['nsteps']):
            await self.step(self.gen_op(i))
            for _ in range(nprobe):
                verb, ref, pat = self.gen_probe()
                if self.backend == 'maildir':
                    pass
                self.ctx.ops.append([verb, ref, pat])
                await self.probe(verb, ref, pat, self.rng)
                if self.ctx.violations:
                    raise Stop()


async def run_c11(spec: dict[str, Any], ctx: Ctx, info: dict[str, Any]) \
        -> None:
    env = await make_env(spec['backend'], {'u1': 'pw1'})
    try:
        c = Conn(1, Sched())
        ctx.conn = c
        c.start(env.imap)
        await c.greeting()
        r = await c.simple(b'LOGIN u1 pw1')
        if not r.ok:
            info['aborted'] = 'login-failed'
            return
        run = Runner(ctx, c, spec)
        if spec.get('two_conns'):
            c2 = Conn(2, Sched())
            c2.start(env.imap)
            await c2.greeting()
            if (await c2.simple(b'LOGIN u1 pw1')).ok:
                run.c2 = c2
                # the first connection has listed before anything changes
                await c.simple(b'LIST "" *')
                await c.simple(b'LSUB "" *')
        try:
            await run.run(spec)
        except Stop:
            pass
        except Died as exc:
            info['aborted'] = 'connection-died:%s' % exc
            ctx.count('connection_died')
            info['died_ops'] = [list(o) for o in ctx.ops[-6:]]
            info['died_tail'] = c.dump()[-8:]
        if not c.dead:
            await c.simple(b'LOGOUT')
    finally:
        env.cleanup()


class C11(Check):
    pid = 'C11'
    level = 'exploration'
    rule = ('case = one fresh account (dict, maildir ++ or maildir fs) and a '
            'program of 4-20 steps over CREATE DELETE RENAME SUBSCRIBE '
            'UNSUBSCRIBE STATUS SELECT/EXAMINE APPEND with names biased to '
            're-use (conflicts, inferiors, parents, case variants of INBOX, '
            'wildcard/quote/newline/control/non-ASCII names); after every '
            'step full LIST/LSUB, content dumps (STATUS + EXAMINE + UID '
            'FETCH) and 3 LIST/LSUB probes with hostile reference/pattern '
            'pairs are compared with the model; distinct = hash of the '
            'sequence of (command, name class) pairs; non-trivial = at least '
            'one step was compared')
    assumptions = [
        "hierarchy delimiter is '/' on every backend (checked on every LIST "
        'response)',
        'the empty name and names made of delimiters only: generated rarely, '
        'only NO-and-unchanged is checked, a trace is not continued after '
        "such a name was accepted; names with empty, '.' or '..' levels, "
        "dots (maildir '++'), maildir directory and control-file names "
        '(fs) are ordinary names that a server may refuse to create',
        'a namespace command under test that gets no tagged answer (BYE '
        '[SERVERBUG], close) is a violation (command-kills-connection:*); a '
        'death during an observation command (STATUS/EXAMINE/FETCH dump) '
        'aborts the trace (C06 owns it); single session per case',
        'content dumps cover every mailbox after each NO, RENAME and DELETE '
        'and in 20 % of the cases after every step; after other OK steps the '
        'target, every mailbox expected to have changed and 2 sampled others',
        'UID values are compared only for equality before/after RENAME '
        '(C04 owns their monotonicity); RENAME INBOX compares X-VF-ID sets',
    ]
    floors = {'steps_compared': 4000, 'list_full_comparisons': 4000,
              'lsub_full_comparisons': 4000, 'pattern_comparisons': 12000,
              'pattern_list_star': 2000, 'pattern_list_percent': 2000,
              'pattern_list_ref': 1500, 'pattern_list_literal': 2000,
              'pattern_list_mixed': 300, 'pattern_lsub_star': 400,
              'renames_content_checked': 300, 'rename_with_inferiors': 50,
              'rename_inbox_ok': 30, 'refusals_unchanged_checked': 800,
              'refusals_required_seen': 700, 'create_ok': 1200,
              'rename_ok': 200, 'delete_ok': 150, 'subscribe_ok': 150,
              'unsubscribe_ok': 100, 'dumps': 12000,
              'full_dump_steps': 2000, 'probe_missing': 200}
    time_cap = {'quick': 120.0, 'thorough': 600.0}

    def cases(self, tier: str, seed: int) -> Iterable[dict[str, Any]]:
        n = 2000 if tier == 'quick' else 30000
        rng = random.Random(seed * 7919 + 11)
        # listed findings switch their input class off (entries may restrict
        # this to some backends with "avoid_backends": [...])
        avoid: list[tuple[str, Any]] = []
        for e in load_known(self.pid):
            sw = avoid_switch(e.get('mechanism', ''))
            if e.get('status') == 'known' and sw:
                avoid.append((sw, e.get('avoid_backends')))
        for i in range(n):
            backend = rng.choice(['dict', 'dict', 'maildir', 'maildir-fs'])
            spec = {'seed': seed * 1_000_003 + i, 'backend': backend,
                    'nsteps': rng.randint(4, 20),
                    'full': rng.random() < 0.2}
            if i % 3 == 2:
                spec['two_conns'] = True
            if i % 12 == 7:
                # structured programs that random drawing hardly produces:
                # a RENAME that has to be refused because an inferior would
                # land on an existing name, with destination superiors that
                # do not exist (any more); a RENAME that fails half way
                # because an inferior's new name is too long for the store
                w = rng.sample(['a', 'b', 'c', 'd', 'Work', 'Sent', 'x1',
                                'two words', 'é', 'q"x'], 5)
                s_, p_, q_, t_, u_ = w
                kind = rng.randrange(4)
                if kind == 0:
                    ops = [['CREATE', '%s/%s/%s' % (p_, q_, t_)],
                           ['DELETE', '%s/%s' % (p_, q_)], ['DELETE', p_],
                           ['CREATE', '%s/%s' % (s_, t_)],
                           ['RENAME', s_, '%s/%s' % (p_, q_)]]
                elif kind == 1:
                    ops = [['CREATE', '%s/%s' % (s_, t_)],
                           ['CREATE', '%s/%s/%s' % (p_, u_, t_)],
                           ['DELETE', '%s/%s' % (p_, u_)],
                           ['RENAME', s_, '%s/%s' % (p_, u_)],
                           ['RENAME', s_, p_]]
                elif kind == 2:
                    long = 'L' * rng.choice([200, 225, 230, 236])
                    ops = [['CREATE', s_], ['APPEND', s_],
                           ['CREATE', '%s/%s' % (s_, long)],
                           ['RENAME', s_, rng.choice(
                               ['INBOX/' + 'b' * 30, 'b' * 30,
                                p_ + '/' + 'b' * 40])],
                           ['STATUS', 'INBOX'], ['STATUS', s_]]
                else:
                    ops = [['CREATE', '%s/%s' % (s_, t_)], ['APPEND', s_],
                           ['CREATE', '%s/%s' % (p_, t_)],
                           ['DELETE', p_], ['RENAME', s_, p_],
                           ['STATUS', s_]]
                spec.update({'script': 'ops', 'ops': ops, 'nsteps': 0,
                             'full': True})
            av = sorted({sw for sw, only in avoid
                         if not only or backend in only})
            if av:
                spec['avoid'] = av
            yield spec

    def run_case(self, spec: dict[str, Any]) -> dict[str, Any]:
        random.seed(spec['seed'])
        ctx = Ctx(spec['backend'])
        info: dict[str, Any] = {'aborted': None}

        async def main(loop: L.CtlLoop) -> None:
            await run_c11(spec, ctx, info)

        try:
            L.run(main, max_steps=3_000_000)
        except L.Deadlock:
            info['aborted'] = 'deadlock'
        except L.StepLimit:
            info['aborted'] = 'step-limit'
        sig = hashlib.sha1(repr(ctx.kinds).encode()).hexdigest()[:16]
        sample: dict[str, Any] = {'spec': spec, 'kinds': ctx.kinds[:40]}
        if info.get('died_ops'):
            sample['died_ops'] = info['died_ops']
            sample['died_tail'] = info['died_tail']
        return {'violations': ctx.violations, 'counters': ctx.counters,
                'sig': sig,
                'nontrivial': ctx.counters.get('steps_compared', 0) > 0,
                'sample': sample, 'aborted': info['aborted']}


CHECK = C11()
