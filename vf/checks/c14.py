"""C14 -- no message is lost or half-applied when a command fails midway.

Level: fault enumeration.

dict: the fault-free run of a scenario (victim command MOVE / COPY /
MULTIAPPEND / EXPUNGE with a second session working on the same mailboxes)
gives S scheduler steps and C storage calls; then EVERY fault point is run:
cancel the victim's connection task at step s, feed EOF at step s, make the
c-th call of MailboxData.{append,copy,move,delete,update} raise OSError
*instead of* executing (the call fails without effect).  A per-step census of
content ids over all mailboxes (taken between callbacks -- the only instants
another task can observe) checks conservation; a dump after the fault checks
all-or-nothing and unchanged-on-NO.

maildir: the same scenarios with OSError(ENOSPC) raised by the audit hook
before the k-th filesystem operation, and process kill at every filesystem
operation (vf.crash), judged after restart."""

from __future__ import annotations

import asyncio
import errno
import hashlib
import random
import re
from typing import Any, Iterable

from .. import crash
from .. import loop as L
from ..net import Sched
from ..runner import Check
from ..servers import make_env
from ..workload import History, Session, make_msg
from .c15 import run_point

_vfid = re.compile(rb'^X-VF-ID:[ \t]*(\S+)', re.I | re.M)
_CID_CACHE: dict[int, bytes | None] = {}


def census(env: Any) -> dict[str, list[bytes]]:
    """Content ids per mailbox, read directly from the dict backend."""
    out: dict[str, list[bytes]] = {}
    entry = env.config.set_cache.get('testuser')
    if entry is None:
        return out
    mset = entry[0]
    boxes = {'INBOX': mset._inbox}
    boxes.update(mset._set)
    for name, mbx in boxes.items():
        ids = []
        for msg in list(mbx._messages.values()):
            content = msg._content
            k = id(content)
            if k not in _CID_CACHE:
                m = _vfid.search(bytes(content)) if content is not None \
                    else None
                _CID_CACHE[k] = m.group(1) if m else None
            ids.append(_CID_CACHE[k] or b'?')
        out[name] = ids
    return out


class Scenario:
    """Deterministic two-session scenario around one victim command."""

    def __init__(self, spec: dict[str, Any]) -> None:
        self.spec = spec
        self.rng = random.Random(spec['seed'])
        self.kind = spec['victim']           # move|copy|multiappend|expunge
        self.nmsgs = spec['nmsgs']

    async def run(self, env: Any, hist: History, fault: dict[str, Any] | None,
                  obs: dict[str, Any]) -> None:
        loop = asyncio.get_event_loop()
        rng = random.Random(self.spec['seed'])
        prov = Session(env, hist, 0, Sched(), 0)
        hist.sessions.remove(prov)
        await prov.start()
        await prov.cmd(b'CREATE Dest')
        # the destination is not empty and its UIDs are not the source's: a
        # roll-back that removes "the same UIDs" must not look right
        for _ in range(rng.choice([0, 1, 2, 3, 5])):
            await prov.append(b'Dest')
        for _ in range(self.nmsgs):
            await prov.append(b'INBOX')
        await prov.cmd(b'LOGOUT')
        a = Session(env, hist, 1, Sched(self.spec['seed'], 0,
                                       self.spec.get('drain', 0)),
                    self.spec['seed'])
        b = Session(env, hist, 2, Sched(self.spec['seed'] + 1,
                                        self.spec.get('delay', 2), 0),
                    self.spec['seed'] + 1)
        for s in (a, b):
            await s.start()
            await s.select(b'INBOX')
            await s.fetch_all()
        n = self.nmsgs
        if self.kind in ('move', 'copy'):
            k = rng.randint(1, n)
            sset = b'1:%d' % k
            moving = [hist.lookup(b'INBOX', u) for u in a.shadow.uids[:k]
                      if u is not None]
            cmd = (b'MOVE ' if self.kind == 'move' else b'COPY ') + sset + \
                (b' INBOX' if self.spec.get('selfmove') else b' Dest')
        elif self.kind == 'expunge':
            k = rng.randint(1, n)
            await a.cmd(b'STORE 1:%d +FLAGS.SILENT (\\Deleted)' % k)
            moving = []
            cmd = b'EXPUNGE'
        else:
            k = rng.randint(2, 4)
            moving = []
            cmd = b''
        obs['moving'] = moving
        obs['before'] = census(env)
        base_step = loop.steps                 # type: ignore[attr-defined]
        obs['base_step'] = base_step
        victim_task = a.conn.task
        calls = {'n': 0}
        obs['calls'] = calls

        # -- fault injection --------------------------------------------------
        injected = {'done': False}
        from pymap.backend.dict.mailbox import MailboxData
        originals: dict[str, Any] = {}
        if fault and fault['type'] == 'raise':
            for meth in ('append', 'copy', 'move', 'delete', 'update'):
                orig = getattr(MailboxData, meth)
                originals[meth] = orig

                def make(orig: Any) -> Any:
                    async def wrapper(self: Any, *aa: Any, **kw: Any) -> Any:
                        if obs.get('armed'):
                            calls['n'] += 1
                            if calls['n'] - 1 == fault['at'] and \
                                    not injected['done']:
                                injected['done'] = True
                                if fault.get('exc') == 'timeout':
                                    # e.g. a lock that could not be had:
                                    # answered NO [TIMEOUT], not BYE
                                    raise TimeoutError('vf injected')
                                raise OSError(errno.EIO, 'vf injected')
                        return await orig(self, *aa, **kw)
                    return wrapper
                setattr(MailboxData, meth, make(orig))
        elif fault is None:
            for meth in ('append', 'copy', 'move', 'delete', 'update'):
                orig = getattr(MailboxData, meth)
                originals[meth] = orig

                def make2(orig: Any) -> Any:
                    async def wrapper(self: Any, *aa: Any, **kw: Any) -> Any:
                        if obs.get('armed'):
                            calls['n'] += 1
                        return await orig(self, *aa, **kw)
                    return wrapper
                setattr(MailboxData, meth, make2(orig))

        lost: list[Any] = []

        def on_step(step: int) -> None:
            rel = step - base_step
            if fault and fault['type'] in ('cancel', 'eof') and \
                    rel == fault['at'] and not injected['done']:
                injected['done'] = True
                if fault['type'] == 'cancel':
                    victim_task.cancel()        # type: ignore[union-attr]
                else:
                    a.conn.hard_reset()
            if obs.get('armed') and moving:
                cen = census(env)
                obs['census_steps'] = obs.get('census_steps', 0) + 1
                here = set(cen.get('INBOX', [])) | set(cen.get('Dest', []))
                for cid in moving:
                    if cid not in here and len(lost) < 3:
                        lost.append((rel, cid))

        loop.on_step = on_step                  # type: ignore[attr-defined]
        obs['armed'] = True
        try:
            async def victim() -> Any:
                if self.kind == 'multiappend':
                    return await a.append(b'INBOX', None, n=k)
                return await a.cmd(cmd)

            async def bystander() -> None:
                for _ in range(3):
                    if not b.alive:
                        return
                    r = rng.random()
                    if r < 0.4:
                        await b.noop()
                    elif r < 0.7:
                        await b.fetch_all()
                    else:
                        await b.append(b'INBOX')

            cid0 = hist.ncid
            res, _ = await asyncio.gather(victim(), bystander())
            obs['victim_cids'] = [
                b'm%s-%d' % (hist.case_id.encode(), cid0 + 1 + j)
                for j in range(k)] if self.kind == 'multiappend' else []
            await loop.quiescent()              # type: ignore[attr-defined]
        finally:
            obs['armed'] = False
            loop.on_step = None                 # type: ignore[attr-defined]
            for meth, orig in originals.items():
                setattr(MailboxData, meth, orig)
        obs['steps'] = loop.steps - base_step   # type: ignore[attr-defined]
        obs['result'] = res
        obs['lost_during'] = lost
        obs['after'] = census(env)
        obs['injected'] = injected['done']


def judge_dict(spec: dict[str, Any], obs: dict[str, Any], hist: History,
               fault: dict[str, Any] | None) -> None:
    res = obs.get('result')
    cond = res.cond if res is not None else None
    before, after = obs['before'], obs['after']
    kind = spec['victim']
    moving = obs.get('moving', [])
    ftxt = 'fault %r' % (fault,)
    for rel, cid in obs.get('lost_during', []):
        hist.report('message-in-neither-mailbox-at-some-step',
                    '%s: at step +%d message %r was neither in INBOX nor in '
                    'Dest' % (ftxt, rel, cid))
        return
    if kind == 'move':
        for cid in moving:
            in_src = after.get('INBOX', []).count(cid)
            in_dst = after.get('Dest', []).count(cid)
            if in_src + in_dst == 0:
                hist.report('moved-message-lost',
                            '%s: message %r is in neither mailbox after '
                            'MOVE ended with %r' % (ftxt, cid, cond))
                return
            if cond == b'OK' and in_src + in_dst != 1:
                hist.report('moved-message-duplicated',
                            '%s: after MOVE OK message %r is %d times in '
                            'INBOX and %d times in Dest' % (
                                ftxt, cid, in_src, in_dst))
                return
    if kind == 'multiappend' and cond != b'OK':
        left = [c for c in obs.get('victim_cids', [])
                if c in after.get('INBOX', [])]
        if left:
            hist.report('multiappend-partially-applied',
                        '%s: APPEND of %d messages ended with %r but %d of '
                        'them are in the mailbox' % (
                            ftxt, len(obs['victim_cids']), cond, len(left)))
            return
    if cond in (b'NO', b'BAD'):
        # bystander appends are legitimate changes: compare only what the
        # victim command could have touched
        vb = {k: sorted(c for c in v if c in set(
            x for vv in before.values() for x in vv))
            for k, v in before.items()}
        va = {k: sorted(c for c in v if c in set(
            x for vv in before.values() for x in vv))
            for k, v in after.items()}
        partial_move = False
        if kind == 'move' and vb != va:
            gone = [c for c in vb.get('INBOX', []) if c not in
                    va.get('INBOX', [])]
            partial_move = bool(gone) and all(
                va.get('Dest', []).count(c) == 1 for c in gone) and \
                sorted(c for v in vb.values() for c in v) == \
                sorted(c for v in va.values() for c in v)
        if vb != va and kind != 'multiappend':
            hist.report('no-or-bad-but-contents-changed' + (
                ':part-of-the-set-moved' if partial_move else ''),
                        '%s: %s ended with %r but contents changed: before '
                        '%r after %r' % (ftxt, kind, cond, vb, va))


async def case_lock(spec: dict[str, Any], hist: History,
                    counters: dict[str, int]) -> None:
    """maildir, in process: a foreign holder (another server process, a
    delivery agent) takes ``dovecot-uidlist.lock`` of the mailbox right after
    the k-th message file of the victim command has been written, i.e. while
    the command is between "file stored" and "UID assigned".  The command
    then waits for the lock, which is the one place where the maildir
    backend really suspends in the middle of a command; there it is cancelled
    (connection torn down) or left to run into the lock timeout (NO).  After
    the lock is gone a fresh session opens the mailboxes."""
    import mailbox as _mb
    import os
    loop = asyncio.get_event_loop()
    env = await make_env(spec['backend'])
    orig_add = _mb.Maildir.add
    st: dict[str, Any] = {'n': 0, 'lock': None, 'armed': False}

    def add(self: Any, message: Any) -> Any:
        key = orig_add(self, message)
        if st['armed']:
            st['n'] += 1
            if st['n'] == spec['k'] and st['lock'] is None:
                path = os.path.join(self._path, 'dovecot-uidlist.lock')
                try:
                    os.close(os.open(path, os.O_CREAT | os.O_EXCL |
                                     os.O_WRONLY))
                    st['lock'] = path
                except FileExistsError:
                    pass
        return key
    try:
        prov = Session(env, hist, 0, Sched(), 0)
        hist.sessions.remove(prov)
        await prov.start()
        await prov.cmd(b'CREATE Dest')
        old = []
        for _ in range(3):
            r0 = await prov.append(b'INBOX')
            old.append(b'm%s-%d' % (hist.case_id.encode(), hist.ncid))
        await prov.cmd(b'LOGOUT')
        a = Session(env, hist, 1, Sched(), spec['seed'])
        await a.start()
        await a.select(b'INBOX')
        await a.fetch_all()
        nv = 3
        before_cid = hist.ncid
        _mb.Maildir.add = add           # type: ignore[method-assign]
        st['armed'] = True
        if spec['victim'] == 'multiappend':
            task = asyncio.ensure_future(a.append(b'INBOX', n=nv))
        else:
            task = asyncio.ensure_future(a.copy(b'1:3', b'Dest'))
        await loop.quiescent()          # type: ignore[attr-defined]
        st['armed'] = False
        victim_cids = [b'm%s-%d' % (hist.case_id.encode(), k)
                       for k in range(before_cid + 1, hist.ncid + 1)]
        if st['lock'] is None or task.done():
            counters['lock_not_taken'] = counters.get('lock_not_taken', 0) + 1
        else:
            counters['lock_waits'] = counters.get('lock_waits', 0) + 1
            if spec['end'] == 'cancel':
                if a.conn.task is not None:
                    a.conn.task.cancel()
            else:
                # the holder keeps the lock just beyond the waiter's patience
                # and lets go then (a lock that is never released means a
                # store nobody can use; nothing can be promised about it)
                from pymap.concurrent import FileLock
                patience = sum(FileLock._DEFAULT_DELAY)
                await loop.advance(patience + 0.2)  # type: ignore
            await loop.quiescent()      # type: ignore[attr-defined]
        if st['lock'] and os.path.exists(st['lock']):
            os.unlink(st['lock'])
        await loop.advance(15.0)        # type: ignore[attr-defined]
        await loop.quiescent()          # type: ignore[attr-defined]
        r = await task
        cond = r.cond
        _mb.Maildir.add = orig_add      # type: ignore[method-assign]
        # what a fresh session finds (opening a mailbox adopts files that
        # have no UID yet)
        f = Session(env, hist, 9, Sched(), 9)
        hist.sessions.remove(f)
        await f.start()
        found: dict[bytes, list[bytes]] = {}
        for box in (b'INBOX', b'Dest'):
            await f.select(box)
            rr = await f.cmd(b'FETCH 1:* (BODY.PEEK[HEADER.FIELDS '
                             b'(X-VF-ID)])') if f.shadow.count else None
            cids = []
            for u in (rr.untagged if rr is not None else []):
                if u.typ == b'FETCH' and isinstance(u.data, dict):
                    for kk, vv in u.data.items():
                        if kk.startswith(b'BODY[') and isinstance(vv, bytes):
                            m = re.search(rb'X-VF-ID: *(\S+)', vv)
                            if m:
                                cids.append(m.group(1))
            found[box] = cids
        counters['lock_cases_judged'] = counters.get('lock_cases_judged',
                                                     0) + 1
        where = 'foreign lock after file %d, %s' % (spec['k'], spec['end'])
        if spec['victim'] == 'multiappend' and cond != b'OK':
            left = [c for c in victim_cids if c in found[b'INBOX']]
            if left:
                hist.report('multiappend-partially-applied:lock-' +
                            spec['end'],
                            '%s: APPEND of %d messages ended with %r but %r '
                            'are in the mailbox for the next session' % (
                                where, nv, cond, left))
        if spec['victim'] == 'copy' and cond in (b'NO', b'BAD'):
            if found[b'Dest'] or sorted(found[b'INBOX']) != sorted(old):
                hist.report('no-or-bad-but-contents-changed:lock-' +
                            spec['end'],
                            '%s: COPY ended with %r but INBOX holds %r and '
                            'Dest %r' % (where, cond, found[b'INBOX'],
                                         found[b'Dest']))
        if spec['victim'] == 'multiappend' and cond == b'OK':
            if sorted(c for c in found[b'INBOX'] if c in victim_cids) != \
                    sorted(victim_cids):
                hist.report('multiappend-ok-but-incomplete',
                            '%s: APPEND OK but %r of %r are there' % (
                                where, found[b'INBOX'], victim_cids))
    finally:
        _mb.Maildir.add = orig_add      # type: ignore[method-assign]
        env.cleanup()


async def case_selfmove(spec: dict[str, Any], hist: History,
                        counters: dict[str, int]) -> None:
    """MOVE whose destination is the selected mailbox: after OK every moved
    message is there exactly once (for the next session too)."""
    env = await make_env(spec['backend'])
    try:
        a = Session(env, hist, 1, Sched(), spec['seed'])
        await a.start()
        cids = []
        for _ in range(3):
            await a.append(b'INBOX')
            cids.append(b'm%s-%d' % (hist.case_id.encode(), hist.ncid))
        await a.select(b'INBOX')
        await a.fetch_all()
        r = await a.cmd((b'UID MOVE %d:%d INBOX' % (
            a.shadow.uids[0] or 1, a.shadow.uids[1] or 2))
            if spec['uid'] else b'MOVE 1:2 INBOX')
        counters['selfmoves'] = counters.get('selfmoves', 0) + 1
        f = Session(env, hist, 9, Sched(), 9)
        hist.sessions.remove(f)
        await f.start()
        await f.select(b'INBOX')
        rr = await f.cmd(b'FETCH 1:* (BODY.PEEK[HEADER.FIELDS (X-VF-ID)])') \
            if f.shadow.count else None
        found = []
        for u in (rr.untagged if rr is not None else []):
            if u.typ == b'FETCH' and isinstance(u.data, dict):
                for kk, vv in u.data.items():
                    if kk.startswith(b'BODY[') and isinstance(vv, bytes):
                        m = re.search(rb'X-VF-ID: *(\S+)', vv)
                        if m:
                            found.append(m.group(1))
        for c in cids:
            n = found.count(c)
            if n == 0:
                hist.report('moved-message-lost',
                            'MOVE into the selected mailbox itself ended '
                            'with %r; message %r is gone (the mailbox holds '
                            '%r)' % (r.cond, c, found))
                return
            if n > 1 and r.cond == b'OK':
                hist.report('moved-message-duplicated',
                            'MOVE into the selected mailbox itself: %r is '
                            'there %d times' % (c, n))
                return
    finally:
        env.cleanup()


class C14(Check):
    pid = 'C14'
    level = 'fault_enumeration'
    rule = ('case (dict) = one two-session scenario (victim MOVE/COPY/'
            'MULTIAPPEND/EXPUNGE over 1-5 messages, bystander NOOP/FETCH/'
            'APPEND) x ALL fault points of its fault-free run: cancel at '
            'every step, EOF at every step, raise from every storage call; '
            'case (maildir) = a history with MOVE/MULTIAPPEND x every '
            'filesystem operation as ENOSPC failure point and as kill point; '
            'case (lock) = maildir in process, a foreign holder takes the '
            'uidlist lock right after the k-th message file of a multi-'
            'message APPEND / COPY was written, the waiting command is '
            'cancelled or runs into the lock timeout; '
            'distinct = (scenario, fault point); non-trivial = the fault was '
            'actually injected')
    assumptions = [
        'injected storage-call failures happen instead of the call (no '
        'effect), matching how the dict backend can fail',
        'census between callbacks = every instant another task can observe '
        '(cooperative single-threaded core)',
        'maildir failure injection = OSError raised before the operation '
        'executes; kill = process death between filesystem operations']
    floors = {'fault_points_run': 1000, 'faults_injected': 800,
              'census_steps': 10000, 'fs_fault_points_run': 150,
              'lock_waits': 16}
    time_cap = {'quick': 120.0, 'thorough': 1200.0}

    def cases(self, tier: str, seed: int) -> Iterable[dict[str, Any]]:
        n = 36 if tier == 'quick' else 500
        ncrash = 4 if tier == 'quick' else 60
        rng = random.Random(seed * 7603 + 14)
        for i in range(n):
            yield {'kind': 'dict', 'seed': seed * 1_000_003 + i,
                   'victim': rng.choice(['move', 'move', 'copy',
                                         'multiappend', 'multiappend',
                                         'expunge']),
                   'nmsgs': rng.randint(1, 5),
                   'drain': rng.choice([0, 2, 5]),
                   'delay': rng.choice([0, 2, 6]),
                   'selfmove': i % 6 == 5}
        # MOVE into the selected mailbox itself, no fault, every backend
        for backend in ('dict', 'maildir', 'maildir-fs'):
            for uid in (False, True):
                yield {'kind': 'selfmove', 'seed': seed, 'backend': backend,
                       'uid': uid}
        for backend in ('maildir', 'maildir-fs'):
            for victim in ('multiappend', 'copy'):
                for k in (1, 2, 3):
                    for end in ('cancel', 'timeout'):
                        yield {'kind': 'lock', 'seed': seed * 31 + k,
                               'backend': backend, 'victim': victim,
                               'k': k, 'end': end}
        for h in range(ncrash):
            for j in range(6):
                yield {'kind': 'maildir', 'hseed': seed * 1_000_003 + h,
                       'layout': rng.choice(['++', 'fs']), 'chunk': j,
                       'nchunks': 6, 'must': True}

    def run_case(self, spec: dict[str, Any]) -> dict[str, Any]:
        if spec['kind'] == 'maildir':
            return self.run_maildir(spec)
        if spec['kind'] == 'lock':
            return self.run_lock(spec)
        if spec['kind'] == 'selfmove':
            return self.run_lock(spec, case_selfmove)
        random.seed(spec['seed'])
        counters: dict[str, int] = {}
        violations: list[dict[str, Any]] = []

        def one(fault: dict[str, Any] | None) -> dict[str, Any]:
            hist = History(str(spec['seed']))
            obs: dict[str, Any] = {}
            sc = Scenario(spec)

            async def main(loop: L.CtlLoop) -> None:
                env = await make_env('dict')
                await sc.run(env, hist, fault, obs)

            _CID_CACHE.clear()
            try:
                L.run(main, max_steps=400_000)
            except L.Deadlock:
                obs['deadlock'] = True
            if 'after' in obs:
                judge_dict(spec, obs, hist, fault)
            for v in hist.violations:
                if v['mech'] in (
                        'message-in-neither-mailbox-at-some-step',
                        'moved-message-lost', 'moved-message-duplicated',
                        'multiappend-partially-applied',
                        'no-or-bad-but-contents-changed',
                        'no-or-bad-but-contents-changed:'
                        'part-of-the-set-moved'):
                    v['witness']['fault'] = fault
                    v['witness']['spec'] = spec
                    violations.append(v)
            return obs

        ref = one(None)
        if 'steps' not in ref:
            return {'violations': [], 'counters': counters, 'sig': None,
                    'nontrivial': False, 'sample': None,
                    'aborted': 'reference-run-failed'}
        S, C = ref['steps'], ref['calls']['n']
        counters['reference_steps'] = S
        counters['reference_storage_calls'] = C
        counters['census_steps'] = ref.get('census_steps', 0)
        faults = [{'type': 'cancel', 'at': s} for s in range(S + 1)] + \
            [{'type': 'eof', 'at': s} for s in range(S + 1)] + \
            [{'type': 'raise', 'at': c} for c in range(C)] + \
            [{'type': 'raise', 'at': c, 'exc': 'timeout'} for c in range(C)]
        if spec.get('faults'):
            faults = spec['faults']     # a scripted trigger
        counters['fault_points_enumerated'] = len(faults)
        for f in faults:
            obs = one(f)
            counters['fault_points_run'] = \
                counters.get('fault_points_run', 0) + 1
            counters['census_steps'] += obs.get('census_steps', 0)
            if obs.get('injected'):
                counters['faults_injected'] = \
                    counters.get('faults_injected', 0) + 1
            if len(violations) >= 4:
                break
        seen: set[str] = set()
        uniq = []
        for v in violations:
            if v['mech'] not in seen:
                seen.add(v['mech'])
                uniq.append(v)
        sig = hashlib.sha1(repr(sorted(spec.items())).encode()) \
            .hexdigest()[:16]
        return {'violations': uniq, 'counters': counters, 'sig': sig,
                'nontrivial': counters.get('faults_injected', 0) > 0,
                'sample': {'spec': spec, 'steps': S, 'storage_calls': C,
                           'fault_points': len(faults)},
                'aborted': None}

    def run_lock(self, spec: dict[str, Any], fn: Any = None) \
            -> dict[str, Any]:
        hist = History(str(spec['seed']))
        counters: dict[str, int] = {}

        async def main(loop: L.CtlLoop) -> None:
            await (fn or case_lock)(spec, hist, counters)

        aborted = None
        try:
            L.run(main, max_steps=400_000)
        except L.Deadlock:
            aborted = 'deadlock'
        hist.attach_transcripts()
        for v in hist.violations:
            v.setdefault('witness', {})['spec'] = spec
        return {'violations': hist.violations, 'counters': counters,
                'sig': 'lock:' + repr(sorted(spec.items())),
                'nontrivial': counters.get('lock_waits', 0) > 0 or
                counters.get('selfmoves', 0) > 0,
                'sample': {'spec': spec}, 'aborted': aborted}

    def run_maildir(self, spec: dict[str, Any]) -> dict[str, Any]:
        rng = random.Random(spec['hseed'])
        # every history has a second mailbox, a MOVE into it and a
        # multi-message APPEND (random histories this short rarely do)
        history = crash.gen_history(rng, rng.randint(1, 3) if spec.get(
            'must') else rng.randint(2, 4), ops=(
            'move', 'multiappend', 'move', 'multiappend', 'copy', 'create',
            'expunge'), must=('create',) + tuple(rng.sample(
                ['move', 'multiappend'], 2)) if spec.get('must') else ())
        violations: list[dict[str, Any]] = []
        counters: dict[str, int] = {}
        layout = spec['layout']
        st, log, dump, note = run_point(history, layout, 'tmp', None)
        done = [r for r in log if r.get('done')]
        if note or not done:
            return {'violations': [], 'counters': {}, 'sig': None,
                    'nontrivial': False, 'sample': None,
                    'aborted': note or 'reference-run-incomplete'}
        n_ops = done[0]['mutating_ops']
        points = spec.get('points') or [
            k for k in range(n_ops)
            if k % spec['nchunks'] == spec['chunk']]
        aborted = None
        for mode in spec.get('modes', ('fail', 'kill')):
            for k in points:
                st, log, dump, note = run_point(
                    history, layout, 'tmp',
                    k if mode == 'kill' else None,
                    fail_at=k if mode == 'fail' else None)
                if note or dump is None:
                    aborted = note
                    continue
                counters['fs_fault_points_run'] = \
                    counters.get('fs_fault_points_run', 0) + 1
                self.judge_maildir(history, log, dump, mode, k, layout,
                                   violations, counters)
        hh = hashlib.sha1(repr(history).encode()).hexdigest()[:10]
        seen: set[str] = set()
        uniq = []
        for v in violations:
            if v['mech'] not in seen:
                seen.add(v['mech'])
                uniq.append(v)
        return {'violations': uniq, 'counters': counters,
                'sig': 'maildir:%s:%d' % (hh, spec['chunk']),
                'nontrivial': counters.get('fs_fault_points_run', 0) > 0,
                'sample': {'history': history, 'layout': layout,
                           'points': points[:8]},
                'aborted': aborted}

    def judge_maildir(self, history: list[dict[str, Any]],
                      log: list[dict[str, Any]], dump: dict[str, Any],
                      mode: str, k: int, layout: str,
                      violations: list[dict[str, Any]],
                      counters: dict[str, int]) -> None:
        """Conservation / all-or-nothing / unchanged-on-NO from the ack log
        and the dump after the fault."""
        def rep(mech: str, detail: str) -> None:
            if len(violations) < 6:
                violations.append({
                    'mech': mech + ':' + mode,
                    'detail': '%s before fs op %d: %s' % (mode, k, detail),
                    'witness': {'history': history, 'mode': mode, 'at': k,
                                'layout': layout, 'ack_log': log[-8:]}})
        present: dict[str, list[str]] = {}
        for name, box in dump.get('boxes', {}).items():
            present[name] = [m['cid'] for m in box.get('msgs', [])]
        allcids = [c for v in present.values() for c in v]
        # commands that did not end in OK
        started: dict[int, dict[str, Any]] = {}
        finished: dict[int, dict[str, Any]] = {}
        for rec in log:
            if 'i' not in rec:
                continue
            if rec.get('start'):
                started[rec['i']] = rec
            else:
                finished[rec['i']] = rec
        model = crash.Model()
        model.apply_log(log)
        for i, rec in started.items():
            fin = finished.get(i)
            cond = fin.get('cond') if fin else None
            op = rec['op']
            if cond == 'OK':
                continue
            counters['failed_commands_judged'] = \
                counters.get('failed_commands_judged', 0) + 1
            if op['op'] == 'append' and len(op['cids']) > 1:
                left = [c for c in op['cids']
                        if c in present.get(op['mbox'], [])]
                if left:
                    rep('multiappend-partially-applied',
                        'APPEND of %r ended with %r but %r are in the '
                        'mailbox' % (op['cids'], cond, left))
            if op['op'] == 'move':
                srcb = model.boxes.get(op['mbox'], {'msgs': {}})
                for u in rec.get('uids', []):
                    m = srcb['msgs'].get(u)
                    # after a failed move the model still has it in the source
                    if m is None:
                        continue
                    if m['cid'] not in allcids:
                        rep('moved-message-lost',
                            'message %s (UID %d of %r) is in no mailbox '
                            'after MOVE ended with %r' % (
                                m['cid'], u, op['mbox'], cond))
            if cond in ('NO', 'BAD') and op['op'] in ('move', 'copy',
                                                      'store', 'expunge'):
                # contents of the source unchanged (by content id multiset)
                b = model.boxes.get(op['mbox'])
                if b is not None:
                    want = sorted(m['cid'] for m in b['msgs'].values())
                    got = sorted(c for c in present.get(op['mbox'], [])
                                 if c != 'post-restart')
                    counters['no_unchanged_checks'] = \
                        counters.get('no_unchanged_checks', 0) + 1
                    if want != got:
                        rep('no-or-bad-but-contents-changed',
                            '%s on %r ended with %s but the mailbox holds %r '
                            'instead of %r' % (op['op'], op['mbox'], cond,
                                               got, want))


CHECK = C14()
