"""C09 -- authentication and authorization are sound.

Every case builds a real backend with the users below, lets every user create
a mailbox (IMAP) or a script (ManageSieve) named after / containing a secret
random MARKER through that user's own session, and then drives one connection
through a sequence of 1-6 authentication attempts (plus STARTTLS, CAPABILITY,
UNAUTHENTICATE).  After *every* attempt an identity-revealing probe runs on the
same connection: IMAP ``LIST "" *`` (refused <=> not authenticated; the marker
names listed say whose store is visible), ManageSieve ``LISTSCRIPTS`` (+
``GETSCRIPT`` on maildir, + ``CAPABILITY`` for OWNER).

Users: alice/pwA, bob/pwB, root/pwR (admin), void/"" (the password *is* the
empty string), ghost (exists, stored secret None = disabled; it had the
password tmpG while its marker was created), blank (exists, stored secret is
the empty string, i.e. not a digest of anything), testuser/testpass (dict).

Reference authenticator (deciding monitor).  An exchange *conveys* at most one
claim (authzid, authcid, password) -- none if it is cancelled with "*" or
malformed (bad base64, wrong number of NUL-separated parts, not UTF-8).

* pw_ok(claim)  :<=> authcid names an existing user with a stored secret and
  password equals it;
* valid(claim)  :<=> pw_ok and (authzid in {"", authcid} or authcid is admin);
  the identity is then authzid (authcid if empty);
* the connection may show "authenticated as u" after an attempt only if it
  was unauthenticated before, the attempt was answered OK, the claim is valid
  and u is the identity above;
* LOGIN must be refused while the last capability list the server advertised
  on this connection contains LOGINDISABLED; AUTHENTICATE <m> must be refused
  if that list has no AUTH=<m> (ManageSieve: SASL "...");
* after a refused / cancelled / malformed exchange the probe shows exactly
  what it showed before (in particular: not authenticated);
* after a success every further LOGIN / AUTHENTICATE is refused and the probe
  keeps showing the first identity (ManageSieve: until UNAUTHENTICATE).
* glass box (recording point, DESIGN 6): ``login.authenticate`` of the backend
  may *return* only for a claim with pw_ok; ``login.authorize`` may return for
  authzid != authcid only if authcid is admin.  (Needed because a backend whose
  ``authenticate`` accepts unknown users is masked on the wire by the user
  lookup in ``new_session``.)

Refusing valid credentials is never a violation (counted: valid_refused).

Latitudes (allowed *sets*, each use counted as lat_<id>):

* authzid_ignored / sieve_authzid_ignored -- a claim with pw_ok and authzid !=
  authcid may be accepted *as authcid* (ManageSieve never calls authorize);
  for a non-admin it must never yield authzid's store.
* admin_authzid_refused -- an admin's request to act as someone else may be
  refused (the statement says "only when", not "whenever").
* admin_nonexistent -- admin asks for a non-existent authzid: refusal, a fresh
  empty account, or the admin's own account; never another existing user.
* lenient_base64 -- base64 that is only decodable after discarding non-alphabet
  octets / adding padding and then conveys a valid claim: accept or refuse.
* loose_identity / loose_secret -- a user name or password that equals the
  stored one only after SASLprep-style mapping (soft hyphen, compatibility
  forms) or case folding of the name: accept (as that user) or refuse.
* deauth_after_refusal -- a refused attempt on an authenticated connection
  leaves it unauthenticated (not required either way by the statement).
* ok_not_authenticated -- the server answered OK but the probe still shows
  "not authenticated" (unsound in the other, harmless, direction).

A connection that dies (BYE [SERVERBUG], silent close, task exception) or a
server that logs an unhandled exception belongs to C06: reported with a
``c06-`` mechanism id, the rest of the sequence is aborted for C09."""

from __future__ import annotations

import asyncio
import base64
import binascii
import dataclasses
import hashlib
import logging
import os
import random
import re
import stringprep
import unicodedata
from typing import Any, Iterable

from .. import loop as L
from ..net import Conn, Sched, astring, lit, quote
from ..runner import Check
from ..servers import make_env
from .c06 import exc_mech
from .c19 import (LOGCAP, Closed, Hang, Malformed, SieveConn, enc, final_of,
                  quotable)

LOCAL = ('127.0.0.1', 40000)
REMOTE = ('203.0.113.7', 40000)
ADMINS = ('root',)
#: name -> password that verifies
PASSWORDS = {'alice': 'pwA', 'bob': 'pwB', 'root': 'pwR', 'void': ''}
#: name -> (password while the marker is created, stored secret afterwards)
SPECIAL = {'ghost': ('tmpG', None), 'blank': ('tmpB', '')}
AUTH_KINDS = ('login', 'loginraw', 'plain', 'authlogin', 'mech', 'rawcmd')
B64 = base64.b64encode
_B64_ALPHA = re.compile(rb'[^A-Za-z0-9+/]')


def s2b(s: str) -> bytes:
    return s.encode('latin-1')


def b2s(b: bytes) -> str:
    return b.decode('latin-1')


def loose(s: str) -> str:
    """SASLprep-style mapping with the stdlib tables only."""
    out = []
    if len(s) > 200:
        return s
    for ch in unicodedata.normalize('NFKC', s):
        if stringprep.in_table_b1(ch):
            continue
        if stringprep.in_table_c12(ch):
            ch = ' '
        out.append(ch)
    return unicodedata.normalize('NFKC', ''.join(out))


# --------------------------------------------------------------------------
# reference authenticator
# --------------------------------------------------------------------------

class Verdict:
    __slots__ = ('pw_ok', 'valid', 'user', 'z', 'mode', 'how', 'lat',
                 'targets', 'forbidden')

    def __init__(self) -> None:
        self.pw_ok = False
        self.valid = False
        self.user: str | None = None      # authcid resolved to a user
        self.z: str | None = None         # requested other identity
        self.mode = 'none'    # self | admin | admin-nonexistent | non-admin
        self.how = 'malformed'
        self.lat: str | None = None
        self.targets: dict[str, str | None] = {}   # identity -> latitude id
        self.forbidden: str | None = None


def judge_claim(claim: list[str] | None, fl: str,
                pw: dict[str, str | None], sieve: bool) -> Verdict:
    v = Verdict()
    if claim is None:
        v.how = fl
        return v
    try:
        z, u, p = (s2b(x).decode('utf-8') for x in claim)
    except UnicodeDecodeError:
        v.how = 'not-utf8'
        return v
    if '\0' in u or '\0' in p or '\0' in z:
        v.how = 'embedded-nul'
        return v
    user: str | None = u if u in pw else None
    if user is None:
        cands = [n for n in pw if u and (loose(u) == n or u.lower() == n)]
        if not cands:
            v.how = 'unknown-user'
            return v
        user = cands[0]
        v.lat = 'loose_identity'
    stored = pw[user]
    if stored is None:
        v.how = 'no-stored-secret'
        return v
    if p != stored:
        if loose(p) != stored or not p:
            v.how = 'wrong-password'
            return v
        v.lat = v.lat or 'loose_secret'
    v.pw_ok = True
    v.user = user
    ign = 'sieve_authzid_ignored' if sieve else 'authzid_ignored'
    if z in ('', u, user):
        v.valid = True
        v.mode = 'self'
        v.how = 'valid'
        v.targets = {user: None}
    elif user in ADMINS:
        v.valid = True
        v.z = z
        v.how = 'valid-admin'
        if z in pw:
            v.mode = 'admin'
            v.targets = {z: None, user: ign}
        else:
            v.mode = 'admin-nonexistent'
            v.targets = {'?': 'admin_nonexistent', user: ign}
    else:
        v.z = z
        v.mode = 'non-admin'
        v.how = 'authzid-non-admin'
        v.targets = {user: ign}
        v.forbidden = z
    return v


def b64_readings(line: bytes) -> list[tuple[bytes, bool]]:
    """(octets, strict?) for every way a decoder may read ``line``: strict
    RFC 4648, Python's permissive decoder, non-alphabet octets discarded with
    padding repaired, everything after the first padding dropped."""
    out: list[tuple[bytes, bool]] = []
    try:
        out.append((base64.b64decode(line, validate=True), True))
    except (binascii.Error, ValueError):
        pass
    cands = [line]
    core = _B64_ALPHA.sub(b'', line)
    cands.append(core + b'=' * (-len(core) % 4))
    head = _B64_ALPHA.sub(b'', line.split(b'=', 1)[0])
    cands.append(head + b'=' * (-len(head) % 4))
    for c in cands:
        try:
            dec = base64.b64decode(c)
        except (binascii.Error, ValueError):
            continue
        if all(dec != d for d, _s in out):
            out.append((dec, False))
    return out


def plain_readings(dec: bytes) -> list[tuple[list[str], bool]]:
    """(claim, strict?) readings of a decoded PLAIN message."""
    parts = dec.split(b'\0')
    out: list[tuple[list[str], bool]] = []
    if len(parts) == 3 and parts[1]:
        out.append(([b2s(x) for x in parts], True))
    elif len(parts) == 2 and parts[0]:
        out.append((['', b2s(parts[0]), b2s(parts[1])], False))
    elif len(parts) > 3:
        out.append(([b2s(x) for x in parts[:3]], False))
        out.append((['', b2s(parts[-2]), b2s(parts[-1])], False))
    return out


def claims_of(a: dict[str, Any]) -> list[tuple[list[str], str | None]]:
    """Every (claim, latitude id) the attempt conveys; strict readings
    (latitude None) first.  A cancelled exchange conveys nothing."""
    k = a['k']
    out: list[tuple[list[str], str | None]] = []
    if k == 'login':
        return [(a['claim'], None)]
    if k in ('loginraw', 'rawcmd'):
        toks = [t.strip('"(){}\x00') for t in
                re.split(r'[ \t\r\n]+', a['line'])]
        toks = [t for t in toks if t]
        for i, t in enumerate(toks):
            if t.upper() == 'LOGIN' and len(toks) >= i + 3:
                out.append((['', toks[i + 1], toks[i + 2]],
                            'lenient_command_syntax'))
        return out
    if a.get('cancel'):
        return []
    if k in ('plain', 'mech'):
        for dec, s1 in b64_readings(s2b(a['line'])):
            if not s1:
                # not base64: a malformed exchange conveys nothing ("any
                # ... malformed exchange leaves the connection
                # unauthenticated"); this was a latitude until a seeding
                # agent pointed out that junk inside valid credentials
                # authenticated
                continue
            for claim, s2 in plain_readings(dec):
                out.append((claim, None if s1 and s2 else 'lenient_base64'
                            if not s1 else 'lenient_plain_parts'))
    elif k == 'authlogin' and len(a['lines']) >= 2:
        for u, s1 in b64_readings(s2b(a['lines'][0])):
            for p, s2 in b64_readings(s2b(a['lines'][1])):
                if not (s1 and s2):
                    continue
                out.append((['', b2s(u), b2s(p)],
                            None if s1 and s2 else 'lenient_base64'))
    out.sort(key=lambda cl: cl[1] is not None)
    return out


def judge_attempt(a: dict[str, Any], pw: dict[str, str | None],
                  sieve: bool) -> Verdict:
    """The most favourable reading decides (a verifying one if any)."""
    first: Verdict | None = None
    for claim, lat in claims_of(a):
        v = judge_claim(claim, a['fl'], pw, sieve)
        if lat is not None:
            v.lat = lat
        if v.pw_ok:
            return v
        if first is None:
            first = v
    if first is None:
        first = judge_claim(None, a['fl'], pw, sieve)
    if a.get('cancel'):
        first.how = 'cancelled'
    elif a['k'] != 'login' and first.how not in ('unknown-user',
                                                 'wrong-password',
                                                 'no-stored-secret'):
        first.how = a['fl']
    return first


# --------------------------------------------------------------------------
# attempt generators (everything JSON-able; octets as latin-1 str)
# --------------------------------------------------------------------------

def att(k: str, fl: str, **kw: Any) -> dict[str, Any]:
    d: dict[str, Any] = {'k': k, 'fl': fl}
    d.update(kw)
    return d


def plain_line(z: bytes, u: bytes, p: bytes) -> bytes:
    return B64(z + b'\0' + u + b'\0' + p)


def big(rng: random.Random, lo: int = 10_000, hi: int = 44_000) -> int:
    return rng.choice([lo, 16_384, 30_000, hi])


UNKNOWN = ['nobody', 'alice2', 'alic', 'alice ', ' alice', 'root2', 'admin',
           '../alice', 'alice:x', 'alice\nbob', 'alice/INBOX', '*', '%',
           'testuse']


def pick_creds(rng: random.Random, pw: dict[str, str | None],
               authz: bool) -> tuple[bytes, bytes, bytes, str]:
    """(authzid, authcid, password, flavour)."""
    real = [n for n, s in pw.items() if s is not None and n not in SPECIAL]
    plain = [n for n in real if n != 'void']
    who = rng.choice(plain + plain + real)
    good = pw[who] or ''
    u, p, z = who.encode(), good.encode(), b''
    r = rng.random()
    if authz and r < 0.30:
        k = rng.randrange(11)
        others = [n for n in pw if n != who]
        if k == 0:
            return u, u, p, 'authzid-self'
        if k in (1, 2, 3):
            who = rng.choice([n for n in plain if n not in ADMINS])
            tgt = rng.choice([n for n in pw if n != who])
            return (tgt.encode(), who.encode(), (pw[who] or '').encode(),
                    'authzid-nonadmin')
        if k in (4, 5):
            tgt = rng.choice([n for n in pw if n != 'root'])
            return tgt.encode(), b'root', b'pwR', 'authzid-admin'
        if k == 6:
            return (rng.choice([b'nobody', b'alice2', b'ghost2']), b'root',
                    b'pwR', 'authzid-admin-nonexistent')
        if k == 7:
            return (rng.choice(others).encode(), b'root',
                    rng.choice([b'pwr', b'', b'pwA']), 'authzid-admin-wrongpw')
        if k == 8:
            # the password of the *authorization* identity
            tgt = rng.choice(plain)
            return (tgt.encode(), rng.choice([b'nobody', b'ghost', b'blank']),
                    (pw[tgt] or '').encode(), 'authzid-unknown-authcid')
        if k == 9:
            a, b = rng.sample([n for n in plain if n not in ADMINS], 2)
            return (a.encode(), b.encode(), (pw[a] or '').encode(),
                    'authzid-victim-password')
        return (rng.choice([b'nobody', b'ALICE', b'\xff', b' ']), u, p,
                'authzid-nonadmin-nonexistent')
    r = rng.random()
    if r < 0.34:
        return z, u, p, 'good'
    if r < 0.44:
        bad = rng.choice([good + 'x', good[:-1], good.swapcase(), ' ' + good,
                          good + ' ', good * 2, 'password', good + '\t'])
        if bad == good:
            bad = good + 'y'
        return z, u, bad.encode(), 'wrong-pw'
    if r < 0.49:
        other = rng.choice([n for n in real if pw[n] != good])
        return z, u, (pw[other] or '').encode(), 'other-users-pw'
    if r < 0.57:
        return z, rng.choice(UNKNOWN).encode(), p, 'unknown-user'
    if r < 0.60:
        return z, b'', p, 'empty-user'
    if r < 0.65:
        who = rng.choice(plain)
        return z, who.encode(), b'', 'empty-pw'
    if r < 0.67:
        return z, b'', b'', 'empty-both'
    if r < 0.75:
        who = rng.choice(list(SPECIAL))
        p = rng.choice([b'', b'x', b'*', b'!', b'None', b'$pbkdf2$1$$',
                        SPECIAL[who][0].encode(), SPECIAL[who][0].encode()])
        return z, who.encode(), p, 'disabled-account'
    if r < 0.78:
        n = big(rng)
        return z, u + b'a' * n, p, 'oversized-user'
    if r < 0.82:
        n = big(rng)
        return z, u, p + rng.choice([b'x', b'\xc3\xa9', b' ']) * (n // 2), \
            'oversized-pw'
    if r < 0.85:
        return z, rng.choice([u[:-1] + b'\xe9', b'\xff\xfe', u + b'\x80',
                              b'al\xc3\xafce', b'\xc3']), p, '8bit-user'
    if r < 0.88:
        return z, u, rng.choice([p + b'\xff', b'p\xc3\xa9w', b'\x80',
                                 p[:1] + b'\xe9' + p[1:]]), '8bit-pw'
    if r < 0.90:
        return z, rng.choice([u + b'\0', u[:2] + b'\0' + u[2:], b'\0',
                              u + b'\0' + p]), p, 'nul-user'
    if r < 0.92:
        return z, u, rng.choice([p + b'\0', b'\0', p + b'\0x',
                                 b'\0' + p]), 'nul-pw'
    if r < 0.95:
        who = rng.choice([n for n in plain])
        lu = rng.choice([who.upper(), who.capitalize(), who + '\u00ad',
                         '\u00ad' + who])
        return z, lu.encode(), (pw[who] or '').encode(), 'loose-user'
    if r < 0.98 and good:
        lp = rng.choice([good + '\u00ad', good[:1] + '\u00ad' + good[1:],
                         ''.join(chr(ord(c) + 0xfee0) for c in good)])
        return z, u, lp.encode(), 'loose-pw'
    return z, b'void', rng.choice([b' ', b'x', b'""', b'\0']), 'void-wrong-pw'


def claim_of(z: bytes, u: bytes, p: bytes) -> list[str]:
    return [b2s(z), b2s(u), b2s(p)]


def gen_plain(rng: random.Random, pw: dict[str, str | None],
              sieve: bool) -> dict[str, Any]:
    sp = rng.choice(['cont', 'cont', 'cont', 'pipelined', 'ir'])
    if sieve:
        sp = rng.choice(['ir-q', 'ir-q', 'ir-l', 'cont-q', 'cont-l'])
    mech = rng.choice(['PLAIN'] * 6 + ['plain', 'Plain'])
    r = rng.random()
    real = [n for n, s in pw.items() if s and n not in SPECIAL]
    who = rng.choice(real)
    gu, gp = who.encode(), (pw[who] or '').encode()
    good = plain_line(b'', gu, gp)
    if r < 0.62:
        z, u, p, fl = pick_creds(rng, pw, True)
        claim: list[str] | None = claim_of(z, u, p)
        if b'\0' in z + u + p:
            claim = None        # wrong number of NUL-separated parts
            if u == b'':
                fl = 'nul-user'
        if u == b'':
            claim = None        # RFC 4616: authcid is 1*SAFE
        return att('plain', fl, line=b2s(plain_line(z, u, p)), claim=claim,
                   sp=sp, mech=mech)
    if sieve and r < 0.635:
        # not a string at all (the cancel token is the *string* "*")
        return att('plain', 'response-not-a-string',
                   line=rng.choice(['*', 'AGJvYgBwd0I=', '(', 'NIL', '{3}',
                                    '"unterminated', '\\']),
                   claim=None, sp='cont-raw', mech=mech)
    if r < 0.70:
        return att('plain', 'cancel', line='*', claim=None, cancel=True,
                   sp='cont-q' if sieve and sp.startswith('ir') else
                   ('cont' if sp == 'ir' else sp), mech=mech)
    if r < 0.73:
        return att('plain', 'empty-line', line='', claim=None, sp=sp,
                   mech=mech)
    if r < 0.80:
        line = rng.choice([b'!!!notbase64', b'====', b'A', good[:-3] + b'=',
                           b'=' + good, b'AGFsaWNl', b'%%%%', b'\\', b'"',
                           b'{5}', b'AGFsaWNl AHB3QQ', b'* ', b' *',
                           b'**', good[:7], B64(gu), b'*' + good])
        return att('plain', 'bad-b64', line=b2s(line), claim=None, sp=sp,
                   mech=mech)
    if r < 0.85:
        k = rng.randrange(1, len(good) - 1)
        dirt = rng.choice([b' ', b'!', b'\t', b'-', b'.', b'~~'])
        line = rng.choice([good[:k] + dirt + good[k:], dirt + good,
                           good.rstrip(b'=') if good.endswith(b'=')
                           else good + dirt, good + dirt])
        if line == good:
            line = b' ' + good
        return att('plain', 'dirty-b64-good', line=b2s(line),
                   claim=claim_of(b'', gu, gp), lat='lenient_base64', sp=sp,
                   mech=mech)
    if r < 0.88:
        wrong = plain_line(b'', gu, gp + b'x')
        k = rng.randrange(1, len(wrong) - 1)
        return att('plain', 'dirty-b64-wrong',
                   line=b2s(wrong[:k] + b'!' + wrong[k:]), claim=None, sp=sp,
                   mech=mech)
    if r < 0.93:
        raw = rng.choice([gu, gu + b'\0' + gp, b'\0' + gu,
                          b'\0' + gu + b'\0' + gp + b'\0x',
                          b'\0\0' + gu + b'\0' + gp, gu + b' ' + gp,
                          b'\0' + gu + b'\0' + gp + b'\0', b'\0', b'\0\0'])
        return att('plain', 'parts-%d' % (raw.count(b'\0') + 1),
                   line=b2s(B64(raw)), claim=None, sp=sp, mech=mech)
    if r < 0.955:
        line = rng.choice([b'\xff\xfe\x80', b'\x80' + good, gu + b'\xe9',
                           B64(b'\0bo\xffb\0pwB'), B64(b'\xff\0' + gu + b'\0'
                                                       + gp),
                           B64(b'\0' + gu + b'\0' + gp + b'\xfe')])
        return att('plain', '8bit-response', line=b2s(line), claim=None,
                   sp=sp, mech=mech)
    if r < 0.98:
        line = rng.choice([b'A' * big(rng), good * (big(rng) // len(good)),
                           b'*' * 20_000, b'=' * 10_000])
        return att('plain', 'oversized-line', line=b2s(line), claim=None,
                   sp=sp, mech=mech)
    line = rng.choice([b'x9 LOGIN ' + gu + b' ' + gp, b'x9 NOOP',
                       b'x9 AUTHENTICATE PLAIN'])
    return att('plain', 'command-as-response', line=b2s(line), claim=None,
               sp=sp if sp != 'ir' else 'cont', mech=mech)


def gen_authlogin(rng: random.Random, pw: dict[str, str | None],
                  sieve: bool) -> dict[str, Any]:
    sp = 'cont-q' if sieve else rng.choice(['cont', 'cont', 'pipelined'])
    if sieve:
        sp = rng.choice(['cont-q', 'cont-l', 'ir-q'])
    mech = rng.choice(['LOGIN'] * 6 + ['login'])
    r = rng.random()
    z, u, p, fl = pick_creds(rng, pw, False)
    if r < 0.66:
        return att('authlogin', fl, lines=[b2s(B64(u)), b2s(B64(p))],
                   claim=claim_of(b'', u, p), sp=sp, mech=mech)
    if r < 0.74:
        return att('authlogin', 'cancel-1', lines=['*'], claim=None,
                   cancel=True, sp=sp if not sp.startswith('ir') else 'cont-q',
                   mech=mech)
    if r < 0.86:
        who = rng.choice(['void', 'void', 'alice', 'bob', 'ghost', 'blank',
                          'nobody'])
        return att('authlogin', 'cancel-2', lines=[b2s(B64(who.encode())),
                                                   '*'],
                   claim=None, cancel=True, sp=sp, mech=mech)
    if r < 0.92:
        bad = rng.choice([b'!!!', b'A', b'====', b'\xff\xfe', b'{3}'])
        if rng.random() < 0.5:
            return att('authlogin', 'bad-b64-1', lines=[b2s(bad)],
                       claim=None, sp=sp, mech=mech)
        return att('authlogin', 'bad-b64-2', lines=[b2s(B64(u)), b2s(bad)],
                   claim=None, sp=sp, mech=mech)
    if r < 0.96:
        return att('authlogin', 'empty-lines', lines=['', ''], claim=None,
                   sp=sp, mech=mech)
    return att('authlogin', '8bit-response',
               lines=[b2s(B64(b'al\xffice')), b2s(B64(b'pw\xfe'))],
               claim=None, sp=sp, mech=mech)


def gen_login(rng: random.Random, pw: dict[str, str | None]) \
        -> dict[str, Any]:
    r = rng.random()
    if r < 0.06:
        line = rng.choice(['LOGIN', 'LOGIN alice', 'LOGIN alice pwA extra',
                           'LOGIN (alice) pwA', 'LOGIN alice pwA\x00',
                           'LOGIN "alice pwA', 'LOGIN alice\tpwA',
                           'LOGIN  alice pwA', 'login', 'LOGIN NIL NIL',
                           'LOGIN alice NIL', 'LOGIN {2+}\r\nxy'])
        return att('loginraw', 'malformed-command', line=line, claim=None)
    z, u, p, fl = pick_creds(rng, pw, False)
    sp = rng.choice(['atom', 'atom', 'quoted', 'quoted', 'lit+', 'lit',
                     'mixed'])
    if fl in ('8bit-user', '8bit-pw', 'nul-user', 'nul-pw') and \
            rng.random() < 0.3:
        sp = 'rawq'
    if fl.startswith('oversized') and rng.random() < 0.5:
        # up to 60 KiB: literals do not count against the line limit
        sp = rng.choice(['lit', 'lit+'])
        if fl == 'oversized-user':
            u += b'a' * 16_000
        else:
            p += b'x' * 16_000
    return att('login', fl, u=b2s(u), p=b2s(p), sp=sp,
               claim=claim_of(b'', u, p),
               case=rng.choice(['LOGIN'] * 5 + ['login', 'Login']))


def gen_mech(rng: random.Random, pw: dict[str, str | None],
             sieve: bool) -> dict[str, Any]:
    name = rng.choice(['BOGUS', 'CRAM-MD5', 'PLAIN-X', 'X' * 300, '""',
                       'EXTERNAL', 'ANONYMOUS', 'XOAUTH2', 'OAUTHBEARER',
                       'PLAIN LOGIN', 'PLAIN\x00', '', 'NIL', '*', 'AUTH=PLAIN',
                       'DIGEST-MD5', 'SCRAM-SHA-1', 'PLAI', 'LOGINDISABLED'])
    return att('mech', 'unknown-mechanism', mech=name,
               line=b2s(plain_line(b'', b'alice', b'pwA')),
               claim=claim_of(b'', b'alice', b'pwA'),
               sp=rng.choice(['ir-q', 'cont-q']) if sieve else 'cont')


def gen_good(rng: random.Random, pw: dict[str, str | None],
             sieve: bool) -> dict[str, Any]:
    who = rng.choice([n for n, s in pw.items()
                      if s is not None and n not in SPECIAL])
    u, p = who.encode(), (pw[who] or '').encode()
    k = rng.choice(['plain', 'authlogin'] if sieve else
                   ['login', 'login', 'plain', 'authlogin'])
    if rng.random() < 0.08:
        tgt = rng.choice([n for n in pw if n != 'root']).encode()
        return att('plain', 'authzid-admin',
                   line=b2s(plain_line(tgt, b'root', b'pwR')),
                   claim=claim_of(tgt, b'root', b'pwR'), mech='PLAIN',
                   sp=rng.choice(['ir-q', 'cont-q']) if sieve else 'cont')
    if k == 'login':
        return att('login', 'good', u=b2s(u), p=b2s(p),
                   sp=rng.choice(['atom', 'quoted', 'lit+', 'lit']),
                   claim=claim_of(b'', u, p), case='LOGIN')
    if k == 'plain':
        return att('plain', 'good', line=b2s(plain_line(b'', u, p)),
                   claim=claim_of(b'', u, p), mech='PLAIN',
                   sp=rng.choice(['ir-q', 'cont-q', 'ir-l']) if sieve
                   else 'cont')
    return att('authlogin', 'good', lines=[b2s(B64(u)), b2s(B64(p))],
               claim=claim_of(b'', u, p), mech='LOGIN',
               sp='cont-q' if sieve else 'cont')


def gen_attempt(rng: random.Random, pw: dict[str, str | None],
                sieve: bool) -> dict[str, Any]:
    r = rng.random()
    if sieve:
        if r < 0.50:
            return gen_plain(rng, pw, True)
        if r < 0.70:
            return gen_authlogin(rng, pw, True)
        if r < 0.76:
            return gen_mech(rng, pw, True)
        if r < 0.84:
            return att('starttls', 'starttls')
        if r < 0.88:
            return att('capability', 'capability')
        if r < 0.97:
            return att('unauth', 'unauthenticate')
        return att('rawcmd', 'imap-login-on-sieve',
                   line=rng.choice(['LOGIN "alice" "pwA"', 'LOGIN alice pwA',
                                    'a1 LOGIN alice pwA']),
                   claim=claim_of(b'', b'alice', b'pwA'))
    if r < 0.34:
        return gen_login(rng, pw)
    if r < 0.68:
        return gen_plain(rng, pw, False)
    if r < 0.84:
        return gen_authlogin(rng, pw, False)
    if r < 0.89:
        return gen_mech(rng, pw, False)
    if r < 0.96:
        return att('starttls', 'starttls')
    return att('capability', 'capability')


def gen_sequence(rng: random.Random, spec: dict[str, Any],
                 pw: dict[str, str | None]) -> list[dict[str, Any]]:
    sieve = spec['listener'] == 'sieve'
    n = spec['n']
    gated = spec['tls'] and (sieve or spec['peer'] == 'remote')
    pat = rng.random()
    seq: list[dict[str, Any]] = []

    def failing() -> dict[str, Any]:
        for _ in range(20):
            a = gen_attempt(rng, pw, sieve)
            if a['k'] in AUTH_KINDS and a['fl'] != 'good' and \
                    not a['fl'].startswith('authzid-admin') and \
                    a['fl'] not in ('authzid-self', 'dirty-b64-good',
                                    'loose-user', 'loose-pw'):
                return a
        return att('capability', 'capability')

    if pat < 0.30:
        seq = [gen_attempt(rng, pw, sieve) for _ in range(n)]
    else:
        nfail = 0 if pat < 0.62 else rng.randint(1, max(1, n - 1))
        tls_at = rng.randint(0, nfail) if gated and rng.random() < 0.8 \
            else -1
        for i in range(nfail):
            if i == tls_at:
                seq.append(att('starttls', 'starttls'))
            seq.append(failing())
        if tls_at == nfail:
            seq.append(att('starttls', 'starttls'))
        seq.append(gen_good(rng, pw, sieve))
        while len(seq) < n:
            seq.append(gen_attempt(rng, pw, sieve))
    return seq


# --------------------------------------------------------------------------
# clients
# --------------------------------------------------------------------------

async def wait_or_quiet(conn: Conn) -> bool:
    """True: the server wrote / closed; False: the loop became quiescent."""
    loop = conn.loop
    w: Any = loop.create_future()
    conn._any_waiter = w
    q = loop.quiescent()                # type: ignore[attr-defined]

    def on_q(_f: Any) -> None:
        if not w.done():
            w.set_result(False)
    q.add_done_callback(on_q)
    r = await w
    if not q.done():
        q.cancel()
    return r is None


class X:
    """Result of one exchange."""
    __slots__ = ('cond', 'text', 'status', 'conts', 'extra', 'after_cancel',
                 'data', 'code')

    def __init__(self) -> None:
        self.cond: str | None = None
        self.text = b''
        self.code: bytes | None = None
        self.status = 'answered'      # answered | closed | hang | malformed
        self.conts = 0
        self.extra = 0
        self.after_cancel = False
        self.data: list[Any] = []

    @property
    def ok(self) -> bool:
        return self.cond == 'OK'


class Imap:
    def __init__(self, conn: Conn) -> None:
        self.c = conn
        self.cur = 0
        self.caps: list[bytes] | None = None
        self.identity: str | None = None

    def note(self, r: Any) -> None:
        if r.kind == 'untagged' and r.typ == b'CAPABILITY' and \
                isinstance(r.data, list):
            self.caps = [c.upper() for c in r.data]
        elif r.code == b'CAPABILITY' and isinstance(r.data, list) and \
                r.cond in (b'OK', b'PREAUTH'):
            self.caps = [c.upper() for c in r.data]

    async def _idle(self, idle: int) -> bool:
        """Quiescent without news: let virtual time pass (server sleeps)."""
        if idle > 2:
            return False
        await self.c.loop.advance(1.0)      # type: ignore[attr-defined]
        return True

    async def greeting(self) -> Any:
        c = self.c
        idle = 0
        while not c.responses and not c.dead:
            if not await wait_or_quiet(c):
                idle += 1
                if not await self._idle(idle):
                    return None
        if c.responses:
            self.cur = 1
            self.note(c.responses[0])
            return c.responses[0]
        return None

    async def exchange(self, segments: list[bytes], *, pipelined: bool = False,
                       sasl: bool = False) -> X:
        c = self.c
        x = X()
        await c.yields(c.sched.delay(c.cid))
        tag = c.next_tag()
        segs = [tag + b' ' + segments[0]] + list(segments[1:])
        if pipelined:
            c.feed(b''.join(segs))
            i = len(segs)
        else:
            c.feed(segs[0])
            i = 1
        idle = 0
        while True:
            while self.cur < len(c.responses):
                r = c.responses[self.cur]
                self.cur += 1
                self.note(r)
                if r.kind == 'tagged' and r.tag == tag:
                    x.cond = (r.cond or b'?').decode('latin-1')
                    x.text = r.text
                    x.code = r.code
                    return x
                if r.kind == 'cont':
                    x.conts += 1
                    if sasl and any(s.strip() == b'*'
                                    for s in segs[1:x.conts]):
                        x.after_cancel = True
                    if pipelined and x.conts < len(segs):
                        continue
                    if i < len(segs):
                        await c.yields(c.sched.delay(c.cid))
                        c.feed(segs[i])
                        i += 1
                    else:
                        x.extra += 1
                        if x.extra > 3:
                            x.status = 'hang'
                            return x
                        c.feed(b'*\r\n')
                    continue
                x.data.append(r)
            if c.dead:
                x.status = 'closed'
                return x
            if not await wait_or_quiet(c):
                if self.cur < len(c.responses) or c.dead:
                    continue
                idle += 1
                if not await self._idle(idle):
                    x.status = 'hang'
                    return x

    async def probe(self, markers: dict[str, str]) -> tuple[X, str | None]:
        """identity: None (not authenticated) | user | '?' (authenticated, no
        known marker) | 'a+b' (several users' markers)."""
        x = await self.exchange([b'LIST "" *\r\n'])
        if x.status != 'answered':
            return x, None
        names = [r.data.get('name') for r in x.data
                 if r.kind == 'untagged' and r.typ == b'LIST'
                 and isinstance(r.data, dict)]
        if not x.ok and not names:
            return x, None
        owners = sorted({markers[n.decode('latin-1')] for n in names
                         if isinstance(n, bytes)
                         and n.decode('latin-1') in markers})
        return x, ('+'.join(owners) if owners else '?')


def caps_of(data: list[Any]) -> dict[bytes, bytes | None]:
    caps: dict[bytes, bytes | None] = {}
    for line in data:
        if line and line[0][0] in 'ql':
            caps[line[0][1].upper()] = line[1][1] if len(line) > 1 else None
    return caps


class Sieve:
    def __init__(self, conn: SieveConn) -> None:
        self.c = conn
        self.caps: dict[bytes, bytes | None] | None = None
        self.identity: str | None = None
        self.owner: bytes | None = None

    async def _read(self, x: X, follow: list[bytes], sasl: bool) -> None:
        c = self.c
        sent: list[bytes] = []
        try:
            while True:
                toks = await c.read_line()
                fin = final_of(toks)
                if fin is not None:
                    x.cond = fin.cond.decode()
                    x.text = fin.text or b''
                    x.code = fin.code
                    return
                if sasl and len(toks) == 1 and toks[0][0] in 'ql':
                    x.conts += 1
                    if any(s.strip() in (b'"*"', b'{1+}\r\n*') for s in sent):
                        x.after_cancel = True
                    if follow:
                        nxt = follow.pop(0)
                    else:
                        x.extra += 1
                        if x.extra > 3:
                            x.status = 'hang'
                            return
                        nxt = b'"*"\r\n'
                    sent.append(nxt)
                    c.feed(nxt)
                    continue
                x.data.append(toks)
        except Hang:
            x.status = 'hang'
        except Closed:
            x.status = 'closed'
        except Malformed as exc:
            x.status = 'malformed'
            x.text = str(exc).encode('latin-1', 'replace')

    async def greeting(self) -> X:
        x = X()
        await self._read(x, [], False)
        if x.ok:
            self.caps = caps_of(x.data)
        return x

    async def cmd(self, wire: bytes, follow: list[bytes] | None = None, *,
                  sasl: bool = False) -> X:
        x = X()
        self.c.feed(wire)
        await self._read(x, list(follow or []), sasl)
        if x.status == 'answered':
            await self.c.settle()
        return x

    async def capability(self) -> X:
        x = await self.cmd(b'CAPABILITY\r\n')
        if x.ok:
            self.caps = caps_of(x.data)
            self.owner = self.caps.get(b'OWNER')
        return x

    async def starttls(self) -> X:
        x = await self.cmd(b'STARTTLS\r\n')
        if x.ok:
            y = X()
            await self._read(y, [], False)
            if y.ok:
                self.caps = caps_of(y.data)
            else:
                x.status = y.status if y.status != 'answered' else 'malformed'
        return x

    async def probe(self, markers: dict[str, str], getscript: bool) \
            -> tuple[X, str | None]:
        x = await self.cmd(b'LISTSCRIPTS\r\n')
        if x.status != 'answered':
            return x, None
        if not x.ok and not x.data:
            return x, None
        found: set[str] = set()
        names = [ln[0][1] for ln in x.data if ln and ln[0][0] in 'ql']
        for n in names:
            nm = n.decode('latin-1')
            if nm in markers:
                found.add(markers[nm])
        if getscript:
            for n in names[:3]:
                if not quotable(n):
                    continue
                y = await self.cmd(b'GETSCRIPT "%s"\r\n' % n.replace(
                    b'\\', b'\\\\').replace(b'"', b'\\"'))
                if y.status != 'answered':
                    return y, None
                body = b' '.join(t[1] for ln in y.data for t in ln)
                for mk, owner in markers.items():
                    if mk.encode() in body:
                        found.add(owner)
        y = await self.capability()
        if y.status != 'answered':
            return y, None
        return x, ('+'.join(sorted(found)) if found else '?')


# --------------------------------------------------------------------------
# wire spellings
# --------------------------------------------------------------------------

CRLF = b'\r\n'


def imap_str(b: bytes, how: str) -> bytes:
    if how == 'atom':
        return astring(b)
    if how == 'rawq':
        return b'"' + b + b'"'
    if how == 'quoted' and all(0x20 <= c < 0x7f for c in b) and \
            len(b) < 50_000:
        return quote(b)
    return lit(b)


def imap_wire(a: dict[str, Any]) -> tuple[list[bytes], bool, bool]:
    """(segments, pipelined, sasl)."""
    k = a['k']
    if k == 'login':
        u, p, sp = s2b(a['u']), s2b(a['p']), a['sp']
        verb = a.get('case', 'LOGIN').encode()
        if sp == 'lit':
            return [verb + b' {%d}\r\n' % len(u), u + b' {%d}\r\n' % len(p),
                    p + CRLF], False, False
        if sp == 'mixed':
            return [verb + b' ' + imap_str(u, 'quoted') + b' ' + lit(p) +
                    CRLF], False, False
        return [verb + b' ' + imap_str(u, sp) + b' ' + imap_str(p, sp) +
                CRLF], False, False
    if k in ('loginraw', 'rawcmd'):
        return [s2b(a['line']) + CRLF], False, False
    if k == 'plain' or k == 'mech':
        mech, line, sp = s2b(a['mech']), s2b(a['line']), a.get('sp', 'cont')
        if sp == 'ir':
            return [b'AUTHENTICATE ' + mech + b' ' + (line or b'=') + CRLF], \
                False, True
        return [b'AUTHENTICATE ' + mech + CRLF, line + CRLF], \
            sp == 'pipelined', True
    if k == 'authlogin':
        return [b'AUTHENTICATE ' + s2b(a['mech']) + CRLF] + \
            [s2b(ln) + CRLF for ln in a['lines']], \
            a.get('sp') == 'pipelined', True
    if k == 'starttls':
        return [b'STARTTLS\r\n'], False, False
    if k == 'capability':
        return [b'CAPABILITY\r\n'], False, False
    raise ValueError(k)


_RNG0 = random.Random(0)


def sieve_str(b: bytes, how: str) -> bytes:
    return enc(b, _RNG0, force='l' if how.endswith('-l') else 'q')


def sieve_wire(a: dict[str, Any]) -> tuple[bytes, list[bytes], bool]:
    """(command, lines for the challenges, sasl)."""
    k = a['k']
    if k in ('plain', 'mech', 'authlogin'):
        sp = a.get('sp', 'ir-q')
        lines = [s2b(a['line'])] if k != 'authlogin' else \
            [s2b(ln) for ln in a['lines']]
        mech = s2b(a['mech'])
        if mech == b'""':
            mech = b''
        head = b'AUTHENTICATE ' + sieve_str(mech, 'x-q')
        if sp.startswith('ir') and lines and lines[0] != b'*':
            head += b' ' + sieve_str(lines.pop(0), sp)
        if sp == 'cont-raw':
            return head + CRLF, [ln + CRLF for ln in lines], True
        return head + CRLF, [sieve_str(ln, sp) + CRLF for ln in lines], True
    if k in ('rawcmd', 'loginraw'):
        return s2b(a['line']) + CRLF, [], False
    if k == 'unauth':
        return b'UNAUTHENTICATE\r\n', [], False
    raise ValueError(k)


def brief(a: dict[str, Any]) -> str:
    s = '%s:%s' % (a['k'], a['fl'])
    if a.get('claim'):
        z, u, p = a['claim']
        s += ' authz=%r authc=%r pw=%r' % (z[:24], u[:24], p[:24])
    if a.get('sp'):
        s += ' (%s)' % a['sp']
    if a['k'] in ('plain', 'authlogin', 'mech'):
        s += ' mech=%r' % a.get('mech', '')[:24]
    return s


# --------------------------------------------------------------------------
# the run
# --------------------------------------------------------------------------

class Stop(Exception):
    pass


class Run:
    def __init__(self, spec: dict[str, Any]) -> None:
        self.spec = spec
        self.sieve = spec['listener'] == 'sieve'
        self.backend = spec['backend']
        self.violations: list[dict[str, Any]] = []
        self.counters: dict[str, int] = {}
        self.aborted: str | None = None
        self.log: list[tuple[str, int, bytes]] = []     # sieve transcript
        self.program: list[str] = []
        self.kinds: list[str] = []
        self.glass: list[tuple[Any, ...]] = []
        self.glass_ok = False
        self.pw: dict[str, str | None] = {}
        self.markers: dict[str, str] = {}       # marker -> owner
        self.env: Any = None
        self.main: Any = None
        self.cfg = '%s_%s_%s_%s' % (
            spec['listener'], self.backend,
            'tls' if spec['tls'] else 'notls', spec['peer'])

    # -- bookkeeping ----------------------------------------------------------

    def count(self, k: str, n: int = 1) -> None:
        self.counters[k] = self.counters.get(k, 0) + n

    def lat(self, k: str) -> None:
        self.count('lat_' + k)
        self.count('latitude_uses')

    def transcript(self) -> list[str]:
        if self.sieve:
            return ['%s%d %r' % (d, cid, data if len(data) <= 300
                                 else data[:300] + b'...[%d]' % len(data))
                    for d, cid, data in self.log[-80:]
                    if cid == 1 or d == 'X']
        if self.main is not None:
            return self.main.c.dump()[-80:]
        return []

    def report(self, mech: str, detail: str, **kw: Any) -> None:
        if len(self.violations) < 8 and \
                mech not in [v['mech'] for v in self.violations]:
            w = {'config': self.cfg, 'program': list(self.program),
                 'transcript': self.transcript()}
            w.update(kw)
            self.violations.append({'mech': mech, 'detail': '[%s] %s' % (
                self.cfg, detail), 'witness': w})

    # -- glass box ------------------------------------------------------------

    def install_glass(self, login: Any) -> None:
        run = self
        try:
            oa, oz = login.authenticate, login.authorize

            async def authenticate(credentials: Any) -> Any:
                try:
                    ident = await oa(credentials)
                except BaseException as exc:
                    run.glass.append(('authenticate', 'raised',
                                      type(exc).__name__))
                    raise
                run.glass.append(('authenticate', 'returned',
                                  str(getattr(credentials, 'authcid', '?')),
                                  str(getattr(ident, 'name', '?'))))
                return ident

            async def authorize(authenticated: Any, authzid: Any) -> Any:
                try:
                    ident = await oz(authenticated, authzid)
                except BaseException as exc:
                    run.glass.append(('authorize', 'raised',
                                      type(exc).__name__))
                    raise
                run.glass.append(('authorize', 'returned',
                                  str(getattr(authenticated, 'name', '?')),
                                  str(authzid)))
                return ident
            login.authenticate = authenticate
            login.authorize = authorize
            self.glass_ok = True
        except Exception:
            self.count('glass_unavailable')

    # -- environment ----------------------------------------------------------

    async def build(self) -> None:
        spec = self.spec
        users = dict(PASSWORDS)
        users.update({n: t[0] for n, t in SPECIAL.items()})
        kw: dict[str, Any] = {}
        if spec.get('sleep'):
            kw['invalid_user_sleep'] = 0.3
        if not spec.get('badlimit'):
            kw['bad_command_limit'] = None
        if self.backend == 'maildir' and os.path.isdir('/dev/shm'):
            kw['where'] = '/dev/shm'
        cleartext = spec.get('hash') == 'cleartext'
        if cleartext:
            from pysasl.hashing import Cleartext
            kw['hash_context'] = Cleartext()
            self.count('cleartext_scheme_runs')
        self.env = env = await make_env(self.backend, users=users,
                                        admins=ADMINS, **kw)
        env.config._tls_enabled = False
        self.pw = dict(PASSWORDS)
        self.pw.update({n: None for n in SPECIAL})
        if cleartext:
            self.pw['blank'] = ''
        setup_pw = dict(users)
        if self.backend == 'dict':
            self.pw['testuser'] = setup_pw['testuser'] = 'testpass'
        rnd = random.Random(spec['seed'] ^ 0x5eed)
        for i, (name, pw) in enumerate(setup_pw.items()):
            marker = 'Marker-%s-%08x' % (name, rnd.getrandbits(32))
            self.markers[marker] = name
            ok = await (self.sieve_marker if self.sieve else
                        self.imap_marker)(60 + i, name, pw, marker)
            if not ok:
                self.aborted = 'setup-failed:marker-of-' + name
                raise Stop()
        # the special accounts lose their verifiable secret
        for name, (_tmp, stored) in SPECIAL.items():
            if self.backend == 'dict':
                env.login.users_dict[name] = dataclasses.replace(
                    env.login.users_dict[name], password=stored)
            else:
                from pymap.backend.maildir import Identity
                from pymap.user import UserMetadata
                ident = Identity(env.config, env.login.tokens, name, None,
                                 {'admin'})
                await ident.set(UserMetadata(env.config, name,
                                             password=stored))

    async def imap_marker(self, cid: int, name: str, pw: str,
                          marker: str) -> bool:
        c = Conn(cid, Sched(), peer=LOCAL)
        im = Imap(c)
        c.start(self.env.imap)
        await im.greeting()
        x = await im.exchange([b'LOGIN ' + astring(name.encode()) + b' ' +
                               quote(pw.encode()) + CRLF])
        if not x.ok:
            return False
        x = await im.exchange([b'CREATE ' + marker.encode() + CRLF])
        await im.exchange([b'LOGOUT\r\n'])
        return x.ok

    async def sieve_login(self, cid: int, name: str, pw: str) -> Sieve | None:
        c = SieveConn(cid, self.log)
        sv = Sieve(c)
        c.start(self.env.sieve)
        g = await sv.greeting()
        if not g.ok:
            return None
        x = await sv.cmd(b'AUTHENTICATE "PLAIN" "%s"\r\n' % plain_line(
            b'', name.encode(), pw.encode()))
        return sv if x.ok else None

    async def sieve_marker(self, cid: int, name: str, pw: str,
                           marker: str) -> bool:
        sv = await self.sieve_login(cid, name, pw)
        if sv is None:
            return False
        script = b'# %s\r\nkeep;\r\n' % marker.encode()
        sname = marker if self.backend == 'dict' else 'active'
        x = await sv.cmd(b'PUTSCRIPT "%s" {%d+}\r\n%s\r\n' % (
            sname.encode(), len(script), script))
        await sv.cmd(b'LOGOUT\r\n')
        return x.ok

    async def probe(self, cl: Any) -> tuple[X, str | None]:
        self.count('identity_probes')
        if self.sieve:
            x, ident = await cl.probe(self.markers, self.backend != 'dict')
            if ident is not None and cl.owner is not None:
                self.count('owner_capability_seen')
                own = cl.owner.decode('latin-1')
                if ident not in ('?', own) or (ident == '?' and own in
                                               self.pw):
                    self.report('owner-capability-differs-from-store',
                                'OWNER %r but the scripts visible are those '
                                'of %r' % (own, ident))
                    raise Stop()
            return x, ident
        return await cl.probe(self.markers)

    # -- connection death -----------------------------------------------------

    async def died(self, cl: Any, what: str) -> None:
        """The connection under test is gone: legitimate BYE or C06."""
        c = cl.c
        for _ in range(3):
            if c.task_done:
                break
            await c.loop.quiescent()
        exc = c.task_exc
        out = bytes(c.out)
        if self.sieve:
            bye = re.search(rb'(?mi)^BYE\b', out) is not None
            bug = False
        else:
            byes = [r for r in c.responses if r.kind == 'untagged'
                    and r.cond == b'BYE']
            bye = bool(byes)
            bug = any(r.code == b'SERVERBUG' for r in byes)
        if exc is not None and not isinstance(exc, asyncio.CancelledError):
            mech = 'c06-internal-error:' + exc_mech(exc)
        elif bug:
            mech = 'c06-serverbug-bye'
        elif not bye:
            mech = 'c06-closed-without-bye'
        else:
            self.count('ended_by_bye')
            return
        self.report(mech, 'connection died (%r, %s) while serving %s' % (
            exc, 'BYE [SERVERBUG]' if bug else 'BYE' if bye else 'no BYE',
            what))
        self.aborted = 'c06-connection-died'

    def no_answer(self, x: X, what: str) -> None:
        mech = 'c06-no-response' if x.status == 'hang' else \
            'c07-response-malformed'
        self.report(mech, '%s: %s (%r)' % (what, x.status, x.text[:100]))
        self.aborted = mech

    # -- one attempt ----------------------------------------------------------

    def blocked_by(self, cl: Any, a: dict[str, Any]) -> str | None:
        k = a['k']
        if k not in AUTH_KINDS:
            return None
        if cl.identity is not None:
            return 'already-authenticated'
        if self.sieve:
            if k in ('rawcmd', 'loginraw'):
                return 'not-a-managesieve-command'
            offered = ((cl.caps or {}).get(b'SASL') or b'').upper().split()
            if s2b(a['mech']).upper() not in offered:
                return 'mech-not-advertised'
            return None
        caps = cl.caps or []
        if k in ('login', 'loginraw'):
            return 'logindisabled' if b'LOGINDISABLED' in caps else None
        if b'AUTH=' + s2b(a['mech']).upper() not in caps:
            return 'mech-not-advertised'
        return None

    async def send(self, cl: Any, a: dict[str, Any]) -> X:
        k = a['k']
        if self.sieve:
            if k == 'starttls':
                return await cl.starttls()
            if k == 'capability':
                return await cl.capability()
            wire, follow, sasl = sieve_wire(a)
            x = await cl.cmd(wire, follow, sasl=sasl)
            if k == 'unauth' and x.ok and x.status == 'answered':
                y = await cl.capability()
                if y.status != 'answered':
                    return y
            return x
        segs, pipelined, sasl = imap_wire(a)
        x = await cl.exchange(segs, pipelined=pipelined, sasl=sasl)
        if k == 'starttls' and x.ok and x.status == 'answered':
            cl.caps = None
            y = await cl.exchange([b'CAPABILITY\r\n'])
            if y.status != 'answered':
                return y
        return x

    async def attempt(self, cl: Any, a: dict[str, Any]) -> None:
        k, fl = a['k'], a['fl']
        before = cl.identity
        blocked = self.blocked_by(cl, a)
        mark = len(self.glass)
        nlog = len(LOGCAP.records)
        what = brief(a)
        self.program.append('[%s] %s' % (before or '-', what))
        self.kinds.append('%s:%s:%s' % (k, fl, a.get('sp', '')))
        if cl.c.dead:
            await self.died(cl, 'the previous command')
            raise Stop()
        x = await self.send(cl, a)
        self.program[-1] += '  => %s %r' % (x.cond or x.status, x.text[:60])
        if len(LOGCAP.records) > nlog:
            self.report('c06-unhandled-exception-%s-in-%s' % (
                LOGCAP.records[nlog], 'AUTHENTICATE' if k in
                ('plain', 'authlogin', 'mech') else k.upper()),
                '%s made the server log an unhandled exception %r; it '
                'answered %s %r' % (what, LOGCAP.records[nlog:], x.cond,
                                    x.text[:80]))
        if x.status == 'closed':
            await self.died(cl, what)
            raise Stop()
        if x.status != 'answered':
            self.no_answer(x, what)
            raise Stop()
        if x.after_cancel:
            self.report('cancel-not-honoured',
                        '%s: the server sent another challenge after the '
                        'client cancelled the exchange with "*"' % what)
            raise Stop()
        if x.cond == 'BYE' or cl.c.dead:
            await cl.c.loop.quiescent()
            await self.died(cl, what)
            if x.ok and not self.aborted:
                self.report('c06-closed-after-ok', '%s answered OK and the '
                            'connection closed' % what)
            raise Stop()
        px, after = await self.probe(cl)
        if px.status == 'closed':
            await self.died(cl, 'the probe after ' + what)
            raise Stop()
        if px.status != 'answered':
            self.no_answer(px, 'probe after ' + what)
            raise Stop()
        self.program[-1] += '  probe: %s' % (after or 'not authenticated')
        self.count('attempts_judged')
        self.count('k_' + k)
        self.count('cfg_' + self.cfg)
        self.count('attempts_' + self.spec['listener'])
        self.count('attempts_' + self.backend)
        self.count('attempts_tls' if self.spec['tls'] else 'attempts_notls')
        self.count('attempts_peer_' + self.spec['peer'])
        if self.spec.get('sleep'):
            self.count('attempts_with_invalid_user_sleep')
        if after is not None and '+' in after:
            self.report('acts-as-wrong-user',
                        'after %s the connection sees the stores of several '
                        'users: %s' % (what, after))
            raise Stop()
        try:
            if k in AUTH_KINDS:
                self.judge_auth(a, what, blocked, before, x, after, mark)
            else:
                self.judge_other(a, what, before, x, after)
        finally:
            cl.identity = after

    def judge_other(self, a: dict[str, Any], what: str, before: str | None,
                    x: X, after: str | None) -> None:
        k = a['k']
        self.count('non_auth_commands_judged')
        if k == 'unauth' and x.ok:
            if after is not None:
                self.report('c19-unauthenticate-left-authenticated',
                            'UNAUTHENTICATE answered OK, the probe still '
                            'shows %s' % after)
                raise Stop()
            if before is not None:
                self.count('unauthenticate_ok')
            return
        if after != before:
            self.report('identity-changed-by-%s' % k,
                        '%s (%s): probe showed %s before and %s after' % (
                            what, x.cond, before or 'not authenticated',
                            after or 'not authenticated'))
            raise Stop()
        if k == 'starttls' and x.ok:
            self.count('starttls_ok')

    def judge_auth(self, a: dict[str, Any], what: str, blocked: str | None,
                   before: str | None, x: X, after: str | None,
                   mark: int) -> None:
        fl = a['fl']
        v = judge_attempt(a, self.pw, self.sieve)
        lat = v.lat
        ok = x.ok
        bad = gbad = False
        shown = after or 'not authenticated'
        # glass box: the backend's own authenticator / authorizer
        for ev in self.glass[mark:]:
            if ev[0] == 'authenticate':
                self.count('glass_authenticate_calls')
                if ev[1] == 'returned' and not v.pw_ok:
                    self.report(
                        'authenticator-accepted-unverified-credentials:'
                        + v.how, '%s: login.authenticate returned identity '
                        '%r for authcid %r although the credentials do not '
                        'verify (%s); wire answer %s' % (
                            what, ev[3], ev[2][:60], v.how, x.cond))
                    gbad = True
            elif ev[0] == 'authorize':
                self.count('glass_authorize_calls')
                if ev[1] == 'returned' and ev[2] != ev[3] and \
                        ev[2] not in ADMINS:
                    self.report('authorizer-accepted-non-admin-authzid',
                                '%s: login.authorize let %r act as %r' % (
                                    what, ev[2], ev[3][:60]))
                    gbad = True
        if cancel := a.get('cancel'):
            self.count('cancels_judged')
        # response level
        if ok:
            if blocked == 'already-authenticated':
                self.report('second-authentication-accepted',
                            '%s answered OK on a connection that is already '
                            'authenticated as %s (probe afterwards: %s)' % (
                                what, before, shown))
                bad = True
            elif blocked == 'logindisabled':
                self.report('login-accepted-while-logindisabled',
                            '%s answered OK although the server advertised '
                            'LOGINDISABLED on this connection' % what)
                bad = True
            elif blocked is not None:
                self.report('mechanism-not-advertised-accepted',
                            '%s answered OK although the server did not '
                            'advertise this mechanism (%s)' % (what, blocked))
                bad = True
            elif not v.pw_ok:
                self.report('authenticated-without-valid-credentials:' +
                            v.how, '%s answered OK (probe: %s)' % (
                                what, shown))
                bad = True
        # probe level
        if before is not None:
            self.count('post_success_attempts')
            if after == before:
                self.count('post_success_identity_kept')
            elif after is None and not ok:
                self.lat('deauth_after_refusal')
            else:
                self.report('identity-changed-after-success',
                            '%s (%s): the connection was authenticated as '
                            '%s, the probe now shows %s' % (
                                what, x.cond, before, shown))
                bad = True
        elif after is None:
            if ok and not bad:
                self.lat('ok_not_authenticated')
            elif not ok:
                self.count('failures_judged_unauthenticated')
                if blocked == 'logindisabled':
                    self.count('logindisabled_refusals')
                elif blocked == 'mech-not-advertised':
                    self.count('mech_not_advertised_refusals')
                if cancel:
                    self.count('cancels_left_unauthenticated')
        elif not ok:
            self.report('failed-exchange-left-authenticated',
                        '%s answered %s, yet the probe shows the connection '
                        'authenticated as %s' % (what, x.cond, after))
            bad = True
        elif not bad:
            # first success: whose store?
            if v.forbidden is not None and after == v.forbidden:
                self.report('authzid-honoured-for-non-admin',
                            '%s: %r is not an admin but the connection now '
                            'acts as %r' % (what, v.user, after))
                bad = True
            elif after not in v.targets:
                self.report('acts-as-wrong-user',
                            '%s answered OK; allowed identities %s, the '
                            'probe shows %s' % (what, sorted(v.targets),
                                                after))
                bad = True
            else:
                self.count('successes')
                if v.targets[after]:
                    self.lat(v.targets[after] or '')
                if lat:
                    self.lat(lat)
                if v.valid:
                    self.count('valid_accepted')
                if v.mode == 'admin' and after == v.z:
                    self.count('admin_authzid_honoured')
        if bad or gbad:
            raise Stop()
        # bookkeeping of refusals that the statement leaves open
        if v.mode == 'non-admin':
            self.count('authzid_nonadmin_judged')
        if v.mode.startswith('admin'):
            self.count('admin_authzid_judged')
        if not ok and before is None:
            if v.valid and blocked is None:
                self.count('valid_refused')
                self.count('valid_refused_' + self.cfg)
                if lat:
                    self.lat(lat)
                if v.mode.startswith('admin'):
                    self.lat('admin_authzid_refused')
            elif v.valid:
                self.count('valid_blocked_' + blocked.replace('-', '_')
                           if blocked else 'valid_blocked')

    # -- the case -------------------------------------------------------------

    async def open_main(self) -> Any:
        peer = LOCAL if self.spec['peer'] == 'local' else REMOTE
        seed = self.spec['seed']
        if self.sieve:
            c = SieveConn(1, self.log)
            c.peername = peer
            cl: Any = Sieve(c)
            c.start(self.env.sieve)
            g = await cl.greeting()
            if not g.ok:
                self.aborted = 'greeting-failed'
                raise Stop()
        else:
            md = (seed >> 3) % 3
            ic = Conn(1, Sched(seed, max_delay=(0, 0, 3)[md],
                               max_drain=(0, 2, 2)[md]), peer=peer)
            cl = Imap(ic)
            ic.start(self.env.imap)
            if await cl.greeting() is None:
                self.aborted = 'greeting-failed'
                raise Stop()
        self.main = cl
        return cl

    async def bystanders(self) -> tuple[Any, Any]:
        if self.sieve:
            c = SieveConn(2, self.log)
            c.peername = REMOTE
            un: Any = Sieve(c)
            c.start(self.env.sieve)
            await un.greeting()
            au: Any = await self.sieve_login(3, 'bob', 'pwB')
        else:
            c2 = Conn(2, Sched(), peer=REMOTE)
            un = Imap(c2)
            c2.start(self.env.imap)
            await un.greeting()
            c3 = Conn(3, Sched(), peer=LOCAL)
            au = Imap(c3)
            c3.start(self.env.imap)
            await au.greeting()
            x = await au.exchange([b'LOGIN bob pwB\r\n'])
            if not x.ok:
                au = None
        if au is None:
            self.aborted = 'setup-failed:bystander-login'
            raise Stop()
        return un, au

    async def check_bystanders(self, un: Any, au: Any) -> None:
        _x, ident = await self.probe(un)
        self.count('bystander_probes')
        if ident is not None:
            self.report('bystander-became-authenticated',
                        'a second connection that never authenticated now '
                        'sees the store of %s' % ident)
        _x, ident = await self.probe(au)
        self.count('bystander_probes')
        if ident != 'bob':
            self.report('bystander-identity-changed',
                        'a second connection authenticated as bob now shows '
                        '%s' % (ident or 'not authenticated'))

    async def inject_behind_starttls(self, cl: Any) -> None:
        """STARTTLS and a command with VALID credentials in one plaintext
        segment: what was sent before the handshake is not protected input
        and must not authenticate the connection (the classic STARTTLS
        command injection; the in-memory transport's handshake is a no-op,
        so whatever stays in the server's read buffer is executed)."""
        user = sorted(u for u, p in self.pw.items() if p)[0]
        pw = self.pw[user]
        assert pw is not None
        c = cl.c
        if self.sieve:
            tok = base64.b64encode(b'\0' + s2b(user) + b'\0' + s2b(pw))
            c.feed(b'STARTTLS\r\nAUTHENTICATE "PLAIN" "' + tok + b'"\r\n')
        else:
            c.feed(b'inj1 STARTTLS\r\ninj2 LOGIN ' + imap_str(
                s2b(user), 'quoted') + b' ' + imap_str(s2b(pw), 'quoted')
                + b'\r\n')
        self.count('starttls_injections')
        if self.sieve:
            # OK, the capabilities after the handshake, and - if the
            # injected command is executed - its reply
            for _ in range(3):
                x = X()
                await cl._read(x, [], False)
                if x.status == 'closed':
                    self.count('starttls_injection_closed')
                    raise Stop()
                if x.status != 'answered':
                    break
        else:
            for _ in range(6):
                if not await wait_or_quiet(c):
                    break
            if c.dead:
                self.count('starttls_injection_closed')
                raise Stop()
            cl.cur = len(c.responses)
        px, ident = await self.probe(cl)
        if px.status == 'answered' and ident is not None:
            self.report('plaintext-command-executed-after-starttls',
                        'STARTTLS and a login of %s sent in one plaintext '
                        'segment: the connection is authenticated as %s'
                        % (user, ident))
            raise Stop()

    async def case(self) -> None:
        spec = self.spec
        await self.build()
        un, au = await self.bystanders()
        self.install_glass(self.env.login)
        self.env.config._tls_enabled = bool(spec['tls'])
        cl = await self.open_main()
        attempts = spec.get('attempts')
        if attempts is None:
            attempts = gen_sequence(random.Random(spec['seed']), spec,
                                    self.pw)
        px, ident = await self.probe(cl)
        if px.status == 'answered' and ident is not None:
            self.report('fresh-connection-authenticated',
                        'before any attempt the probe shows %s' % ident)
            raise Stop()
        try:
            if spec.get('inject'):
                await self.inject_behind_starttls(cl)
            for a in attempts:
                await self.attempt(cl, a)
        finally:
            if not self.violations:
                await self.check_bystanders(un, au)


# --------------------------------------------------------------------------
# scripted triggers
# --------------------------------------------------------------------------

def _login(u: str, p: str, fl: str = 'good', sp: str = 'atom') \
        -> dict[str, Any]:
    return att('login', fl, u=u, p=p, sp=sp, claim=['', u, p], case='LOGIN')


def _plain(z: str, u: str, p: str, fl: str = 'good', sp: str = 'cont') \
        -> dict[str, Any]:
    return att('plain', fl, line=b2s(plain_line(s2b(z), s2b(u), s2b(p))),
               claim=[z, u, p], sp=sp, mech='PLAIN')


_BASE = {'listener': 'imap', 'backend': 'dict', 'tls': False,
         'peer': 'remote', 'n': 2}

SCRIPTS: dict[str, dict[str, Any]] = {
    # DESIGN 5 row 5: AUTHENTICATE is dispatched before the state gate
    'authenticate-after-login': dict(_BASE, attempts=[
        _login('alice', 'pwA'), _plain('', 'bob', 'pwB')]),
    'authenticate-after-login-same-user': dict(_BASE, attempts=[
        _login('alice', 'pwA'), _plain('', 'alice', 'pwA')]),
    # SASL response that is not UTF-8
    'sasl-response-not-utf8': dict(_BASE, attempts=[
        att('plain', '8bit-response', line=b2s(B64(b'\0bo\xffb\0pwB')),
            claim=None, sp='cont', mech='PLAIN')]),
    'sasl-response-not-utf8-sieve': dict(_BASE, listener='sieve', attempts=[
        att('plain', '8bit-response', line=b2s(B64(b'\0bo\xffb\0pwB')),
            claim=None, sp='ir-q', mech='PLAIN')]),
    'sieve-sasl-initial-response-bad-base64': dict(
        _BASE, listener='sieve', attempts=[
            att('plain', 'bad-b64', line='A', claim=None, sp='ir-q',
                mech='PLAIN')]),
    'sieve-sasl-response-not-a-string': dict(
        _BASE, listener='sieve', attempts=[
            att('plain', 'response-not-a-string', line='*', claim=None,
                sp='cont-raw', mech='PLAIN')]),
    # sanity scripts (must hold)
    'authzid-non-admin': dict(_BASE, attempts=[
        _plain('alice', 'bob', 'pwB', 'authzid-nonadmin')]),
    # junk octets inside the base64 of valid credentials
    'dirty-base64': dict(_BASE, attempts=[
        att('plain', 'dirty-b64-good', line='AGFsa!*$ WNlAHB3QQ==',
            claim=None, sp='cont', mech='PLAIN')]),
    'dirty-base64-sieve': dict(_BASE, listener='sieve', attempts=[
        att('plain', 'dirty-b64-good', line='AGFsa!*$ WNlAHB3QQ==',
            claim=None, sp='ir-q', mech='PLAIN')]),
    'starttls-injection': dict(_BASE, tls=True, inject=True, attempts=[]),
    'starttls-injection-sieve': dict(_BASE, tls=True, inject=True,
                                     listener='sieve', attempts=[]),
    'logindisabled': dict(_BASE, tls=True, attempts=[
        _login('alice', 'pwA'), att('starttls', 'starttls'),
        _login('alice', 'pwA')]),
}


class C09(Check):
    pid = 'C09'
    level = 'exploration'
    title = 'Authentication and authorization are sound'
    rule = ('case = one fresh backend (dict / maildir) with 6-7 users who '
            'each own a secret marker, one listener (IMAP / ManageSieve), '
            'one configuration (tls_enabled x local/remote peer, optionally '
            'invalid_user_sleep 0.3 and the default bad_command_limit) and '
            'one connection driven through 1-7 attempts (LOGIN in 6 '
            'spellings, AUTHENTICATE PLAIN / LOGIN with ~45 credential and '
            'wire flavours, unknown mechanisms, STARTTLS, CAPABILITY, '
            'UNAUTHENTICATE) in random order incl. attempts after a success; '
            'after every attempt an identity probe on the same connection is '
            'compared with the reference authenticator, the backend\'s '
            'authenticate/authorize return values are recorded, and two '
            'bystander connections are probed at the end; distinct = hash of '
            '(configuration, attempt kind:flavour:spelling sequence); '
            'non-trivial = at least one attempt was judged')
    assumptions = [
        'mechanisms PLAIN and LOGIN (all pysasl offers here); no token '
        '(macaroon) logins; timing side channels are out of scope',
        'tls_enabled is switched through config._tls_enabled after the '
        'markers were created (FakeArgs makes from_args pass tls_enabled '
        'itself); start_tls of the in-memory transport is a no-op',
        'lines stay below the 64 KiB StreamReader limit; oversized '
        'credentials are 10-60 KiB',
        'the glass-box recording point wraps login.authenticate / '
        'login.authorize of the backend instance; if that is impossible '
        'glass_unavailable is counted and only the wire decides',
        'ManageSieve on maildir keeps one fixed-name script: the marker is '
        'in the script body and read back with GETSCRIPT']
    #: sized at about a third of what a full quick run observes, so that a
    #: loaded machine (cases skipped at the time cap) still decides
    floors = {'attempts_judged': 15000, 'identity_probes': 28000,
              'successes': 3500, 'valid_accepted': 3300,
              'failures_judged_unauthenticated': 5500,
              'post_success_attempts': 3800, 'logindisabled_refusals': 400,
              'mech_not_advertised_refusals': 1800, 'cancels_judged': 800,
              'cancels_left_unauthenticated': 500,
              'authzid_nonadmin_judged': 280, 'admin_authzid_judged': 400,
              'admin_authzid_honoured': 120,
              'glass_authenticate_calls': 5000, 'bystander_probes': 8500,
              'k_login': 3300, 'k_plain': 5500, 'k_authlogin': 2900,
              'attempts_sieve': 4500, 'attempts_maildir': 3000,
              'attempts_tls': 7500, 'attempts_peer_remote': 7000,
              'attempts_with_invalid_user_sleep': 2000}
    time_cap = {'quick': 180.0, 'thorough': 900.0}

    def cases(self, tier: str, seed: int) -> Iterable[dict[str, Any]]:
        n = 12000 if tier == 'quick' else 180000
        rng = random.Random(seed * 9176 + 9)
        for i in range(n):
            yield {'seed': seed * 1_000_003 + i,
                   'listener': 'sieve' if rng.random() < 0.3 else 'imap',
                   'backend': 'maildir' if rng.random() < 0.2 else 'dict',
                   'tls': rng.random() < 0.5,
                   'peer': rng.choice(['local', 'remote']),
                   'n': rng.choice([1, 2, 2, 3, 3, 4, 5, 6]),
                   'sleep': rng.random() < 0.15,
                   'badlimit': rng.random() < 0.2,
                   # the supported cleartext scheme (no hashing): there the
                   # empty stored secret of 'blank' does verify -- the empty
                   # password -- and the missing one of 'ghost' never does
                   'hash': 'cleartext' if i % 8 == 3 else 'builtin'}
            if i % 25 == 7:
                yield {'seed': seed * 1_000_003 + 500_000 + i,
                       'listener': 'sieve' if rng.random() < 0.3 else 'imap',
                       'backend': 'maildir' if rng.random() < 0.2 else 'dict',
                       'tls': True, 'inject': True,
                       'peer': rng.choice(['local', 'remote']),
                       'n': 0, 'attempts': [], 'sleep': False,
                       'badlimit': False}

    def setup_worker(self) -> None:
        lg = logging.getLogger('pymap')
        if LOGCAP not in lg.handlers:
            lg.addHandler(LOGCAP)
        lg.propagate = False
        # SASLAuth.defaults() scans the installed distributions' entry
        # points for every connection (11 ms, 3/4 of a case): memoise the
        # scan (static data of the third-party pysasl package); mechanism
        # classes are still loaded and instantiated per call.
        import pysasl
        ep = pysasl.entry_points
        if not getattr(ep, '_vf_cached', False):
            cache: dict[Any, Any] = {}

            def cached(**kw: Any) -> Any:
                key = tuple(sorted(kw.items()))
                if key not in cache:
                    cache[key] = tuple(ep(**kw))
                return cache[key]
            cached._vf_cached = True        # type: ignore[attr-defined]
            pysasl.entry_points = cached    # type: ignore[assignment]

    def run_case(self, spec: dict[str, Any]) -> dict[str, Any]:
        self.setup_worker()
        if 'script' in spec:
            spec = dict(SCRIPTS[spec['script']], seed=spec.get('seed', 1))
        del LOGCAP.records[:]
        run = Run(spec)

        async def main(loop: L.CtlLoop) -> None:
            try:
                await run.case()
            except Stop:
                pass
            finally:
                if run.env is not None:
                    run.env.cleanup()

        try:
            L.run(main, max_steps=1_500_000)
        except L.Deadlock:
            run.aborted = run.aborted or 'deadlock'
        except L.StepLimit:
            run.aborted = run.aborted or 'step-limit'
        sig = hashlib.sha1((run.cfg + ' ' + ' '.join(run.kinds)).encode()
                           ).hexdigest()[:16]
        c = run.counters
        return {'violations': run.violations, 'counters': c, 'sig': sig,
                'nontrivial': c.get('attempts_judged', 0) > 0,
                'sample': {'spec': spec, 'program': run.program[:12]},
                'aborted': run.aborted}


CHECK = C09()
